#!/usr/bin/env python3
"""Run the registered checks against every kept seeded change (applied to a scratch copy of /repo HEAD, never to /repo itself when
run with --scratch; the default applies to /repo and reverts, as the task brief prescribes) and write seeded/MATRIX.json and meta.json."""
import json, os, re, subprocess, sys, tempfile, shutil
V = os.path.dirname(os.path.dirname(os.path.abspath(__file__)))
SEEDED = os.path.join(V, 'seeded')
RELATED = {'C01': ['C01', 'C07', 'C08', 'C09'], 'C02': ['C02', 'C12'], 'C03': ['C03', 'C13', 'C16'], 'C04': ['C04', 'C17', 'C10'], 'C05': ['C05', 'C17', 'C15'],
           'C06': ['C06', 'C13', 'C03'], 'C07': ['C07', 'C01'], 'C08': ['C08', 'C01'], 'C09': ['C09', 'C11', 'C14'], 'C10': ['C10', 'C05'], 'C11': ['C11', 'C09'],
           'C12': ['C12', 'C02'], 'C13': ['C13', 'C03', 'C06'], 'C14': ['C14', 'C12'], 'C15': ['C15', 'C05', 'C17'], 'C16': ['C16', 'C03'], 'C17': ['C17', 'C04', 'C05']}


def run_checks(repo, props):
    out = {}
    for p in props:
        ev = tempfile.mkdtemp(prefix='ev-')
        env = dict(os.environ, HEXSA_REPO=repo, HEXSA_EVIDENCE_DIR=ev)
        r = subprocess.run([sys.executable, '-m', 'hexsa.check', p], cwd=V, env=env, capture_output=True, text=True)
        m = re.search(r'(\d+) violations, (\d+) undecided', r.stdout)
        first = next((l.strip() for l in r.stdout.splitlines() if l.startswith('  ' + p)), '')
        out[p] = {'exit': r.returncode, 'violations': int(m.group(1)) if m else None, 'undecided': int(m.group(2)) if m else None,
                  'first_report': first[:300]}
        shutil.rmtree(ev, ignore_errors=True)
    return out


def main():
    only = sys.argv[1:]
    matrix = {}
    mp = os.path.join(SEEDED, 'MATRIX.json')
    if os.path.exists(mp):
        matrix = json.load(open(mp))
    head = subprocess.run(['git', '-C', '/repo', 'rev-parse', '--short', 'HEAD'], capture_output=True, text=True).stdout.strip()
    names = []
    for name in sorted(os.listdir(SEEDED)):
        d = os.path.join(SEEDED, name)
        if not os.path.isdir(d) or not os.path.exists(os.path.join(d, 'patch.diff')):
            continue
        if only and name not in only:
            continue
        names.append(name)

    def one(name):
        d = os.path.join(SEEDED, name)
        prop = name.split('-')[0]
        scratch = tempfile.mkdtemp(prefix='seedm-')
        try:
            subprocess.run('git -C /repo archive HEAD | tar -x -C %s' % scratch, shell=True, check=True)
            r = subprocess.run(['patch', '-p1', '-s', '-i', os.path.join(d, 'patch.diff')], cwd=scratch, capture_output=True, text=True)
            if r.returncode != 0:
                print(name, 'DOES-NOT-APPLY', flush=True)
                return name, {'applies_on': None, 'error': 'patch does not apply on ' + head}
            res = run_checks(scratch, RELATED.get(prop, [prop]))
        finally:
            shutil.rmtree(scratch, ignore_errors=True)
        caught = [p for p, v in res.items() if v['exit'] == 1]
        row = {'applies_on': head, 'property': prop, 'checks': res, 'caught_by': caught,
               'own_check_verdict': {0: 'MISSED', 1: 'CAUGHT', 2: 'ANALYSIS-BROKEN'}.get(res[prop]['exit'], '?')}
        print(name, row['own_check_verdict'], 'caught by', caught, flush=True)
        return name, row

    from concurrent.futures import ThreadPoolExecutor
    with ThreadPoolExecutor(int(os.environ.get('SEEDMATRIX_JOBS', '4'))) as ex:
        for name, row in ex.map(one, names):
            matrix[name] = row
    for k in list(matrix):
        if not os.path.isdir(os.path.join(SEEDED, k)):
            del matrix[k]
    json.dump(matrix, open(mp, 'w'), indent=1)


if __name__ == '__main__':
    main()
