#!/bin/bash
# usage: confirm_benign.sh <src dir with patch.diff> <name>  -- applies to a scratch worktree of /repo HEAD, builds, runs the 129 unit tests;
# on success stores the patch as /verif/benign/<name>/patch.diff (+ NOTES.md).  The behaviour-preservation argument and the differential
# check are the producing agent's (NOTES.md, diffcheck.sh); this script re-establishes "builds and passes the suite".
src="$1"; name="$2"; wt=/tmp/confirm; log=/tmp/confirm-benign-$name.log; : > $log
if [ ! -d $wt ]; then git -C /repo worktree add --detach $wt HEAD >>$log 2>&1; fi
git -C $wt checkout -q --detach $(git -C /repo rev-parse HEAD) >>$log 2>&1; git -C $wt checkout -- . ; git -C $wt clean -fdq -e _build
git -C $wt apply $src/patch.diff 2>>$log || { echo "$name: PATCH DOES NOT APPLY"; exit 1; }
(cd $wt && cmake -G Ninja -B _build -DCMAKE_BUILD_TYPE=RelWithDebInfo -DCMAKE_CXX_FLAGS=-Wno-error >/dev/null 2>&1 && cmake --build _build -j16 >>$log 2>&1) || { echo "$name: BUILD FAILED"; git -C $wt checkout -- .; exit 1; }
t=$(cd $wt/_build/tests/unit && ./UnitTests --color_output=no 2>&1 | grep -a -E "No errors detected|failure|error" | tail -1)
git -C $wt checkout -- . ; git -C $wt clean -fdq -e _build
echo "$name: tests: $t"
if echo "$t" | grep -q "No errors detected"; then mkdir -p /verif/benign/$name; cp $src/patch.diff /verif/benign/$name/; [ -f $src/NOTES.md ] && cp $src/NOTES.md /verif/benign/$name/; echo CONFIRMED; else echo NOT-CONFIRMED; fi
