import re, json
p = '/verif/DESIGN.md'
s = open(p).read()
wave5 = '''#### Fifth wave (34 more changes, worktrees at 08c79a5; agents were told all 133 earlier descriptions)

All 34 confirmed (two third-wave seeds, C11-C and C11-F, no longer applied after repair 08c79a5 and were re-ported as C11-Cp / C11-Fp).
First contact: 14 caught by the property's own check, 14 missed (one of them caught by a sibling), 6 analysis-broken.  After the
work below all 34 are caught by their own property's check.

* *Shapes the templates did not have.*  C01-J / C08-J: actual lists with a bare call next to a compound actual that contains a
  call, and with a call hidden in an array subscript (`tab[pick(3)]`), in C01-R14.  C07-J: element assignments `a[c] := e` with
  compound right-hand sides (sum, negation, comparison) in C01-R16, imported by C07 as R12.  C08-I: the opaque "code of a
  sub-expression" step now applies the frame bookkeeping of the real call generator when the sub-expression contains a call (what a
  nested call leaves in `Frame::outgoing` is read off `genFuncCall` by interpreting it once with a symbolic count), so "the
  outgoing word sp[k] is protected while a later actual spills" sees the lost reservation.
* *Clauses that were missing.*  C04-J: RB interprets `Parser::parseDirective` for the 12 mnemonics x literal classes x both
  spellings (an operand class that is rejected is a violation).  C05-I: R9 exact name resolution (labels `la/lab/labx/zzz`,
  references to defined and undefined neighbours; `std::map::lower_bound` modelled).  C06-J: R5 option defaults agree between
  hextb and hexsim.  C09-I: R17 the procedure symbol is looked up under the scope it was inserted with.  C09-J: R16 no reference
  member bound to a temporary (exact C++ lifetime rule over constructor initialisers and construction sites).  C10-J: C10 imports
  the literal path of C04 (negation of INT_MIN).  C11-I: nondeterminism scan knows the environment locale.  C12-I: R2d no step
  effect computed from an uninitialised local (`read(&c,1)` at end of input stores nothing).  C13-I: `$error`/`$stop`/`$display` in
  clocked blocks are effects in engine V - none may fire under reset on a condition over the power-on state.  C13-J: R8 X constants
  in architectural next states while the build passes `--x-assign unique` (the verilate() arguments are read from
  CMakeLists.txt).  C14-I: R13 `boost::format` arity (152 sites on HEAD, all exact).  C14-J: R12 error exits from main are
  non-zero, followed through `usage()` helpers and default arguments.  C15-J: C15 imports "no call removed by folding".
* *Engine S generalised instead of being told the new shape.*  C02-I / C02-J / C12-I made the simulator I/O model robust: member
  functions that return a stream reference are inlined as lvalues, `get(char&)`, `read(&c,1)`, `write(&c,1)` and openmode flags are
  modelled, members of array-of-struct elements are separate stores, and **the roles of the HexSimIO members are read from the
  class** (the per-index file objects and connection flags): exactly one of each is the ISA's single handle and single flag per
  stream index whatever they are called; two handles per index (C02-J) cannot be matched with the ISA's routing cases.

**Renames (B11, B12).**  Testing the role inference with a pure rename of `fileIO`/`connected` showed that C02, C06 and C12
reported *violations* on it before the change above.  A wider rename-only variant (B12: `immValue`, `labelValue`, `debugInfoMap`,
`programSizeBytes`, `exprReplacement`, `currentFrame`, `truncateInputs`, `lastPC`, ... renamed; builds, 129 tests pass) made seven
checks report violations, because rules and hooks read those members by name.  That is a false alarm of the machinery.  Every
check now verifies first that the members its models know by name exist (`hexsa/anchors.py`, three groups, per-property table):
a vanished anchor is analysis-broken (exit 2) with the list of names, never a verdict.  On B12 all affected checks now exit 2; on
B11 all 17 are silent.

| seed | change | needs to manifest | caught by |
|------|--------|-------------------|-----------|
'''
src = open('/verif/tools/mkmeta.py').read()
ns = {}
m = re.search(r'^T = \{.*?^\}', src, re.S | re.M)
exec(m.group(0), ns)
T = ns['T']
M = json.load(open('/verif/seeded/MATRIX.json'))
for k in sorted(T):
    if k.endswith(('-I', '-J')):
        cb = M.get(k, {}).get('caught_by') or []
        v = M.get(k, {}).get('own_check_verdict')
        wave5 += '| %s | %s | %s | %s |\n' % (k, T[k][1], T[k][2], ', '.join(cb) if cb else ('undecided (exit 2)' if v == 'ANALYSIS-BROKEN' else '-'))
old = "### 10.5 Not reached"
assert s.count(old) == 1
s = s.replace(old, wave5 + "\n" + old)
open(p, 'w').write(s)
print('ok')
