import re, json
p = '/verif/DESIGN.md'
s = open(p).read()
if '#### Seventh wave' in s:
    a = s.index('#### Seventh wave')
    b = s.index('### 10.5 Not reached')
    s = s[:a] + s[b:]
wave = '''#### Seventh wave (17 more changes, one per property, worktrees at 6281ee1; agents were told all 201 earlier descriptions)

Made in the last hours, with 5 - 35 minutes per agent.  All 17 confirmed.  First contact: 9 caught by the property's own check
(C01, C02, C03, C05, C06, C08, C13, C15, C16), 6 missed (C07, C09, C10, C11, C12, C14), 2 analysis-broken (C04, C17).  After the
work below all 17 are caught by their own check.

* *C14-N* (exit value -1 taken for a "did not exit" sentinel): C14-R3 accepted "stored in a variable and returned somewhere"; it
  now demands that **every** return that follows in the variable's scope hands the variable back (a constant returned under
  `v == k` only when it equals k in the low eight bits; anything else it cannot evaluate is undecided).
* *C12-N* (the loader parses the debug section only with -t): R2e - the trace flag is read only by the run loop and its callees
  (whose two settings R2b compares) and by the trace functions; a plain accessor is exempt.
* *C10-N* (an "early writability check" opens the output in hexasm's main): C14-R4 saw it, C10-R12 imported only the tabled
  writers; it now imports every open of the assembler.
* *C11-N* (`Symbol` keeps `std::string_view`s of temporaries): the dangling-member rule C09-R16 knows view members, the
  string -> view conversion in the initialiser and heap construction through `make_unique` / `make_shared`; C11 imports it as R5.
* *C07-N* (a val reference is generated from the declaration's initialiser, which OptimiseExpr has meanwhile replaced): C07-R14
  interprets `ExprCodeGen::visitPost(VarRefExpr&)` on a constant reference whose symbol is the val declaration *as the real
  optimiser leaves it* (all ten binary operators) and compares with what `genConst` emits.
* *C09-N* (escape decoding through `strchr` over a table string: NUL matches the terminator): C09-R8 runs the real lexer on
  quote, backslash, any byte (512 inputs) and reports undefined behaviour; engine I got `strchr` / `memchr` on constant tables,
  null tests and differences of such pointers.  Before that the check answered *undecided* (unmodelled call), not "held".
* *C04-N* (encoding length cached in a 3-bit bit-field): the hand-built model object lacked the new member (analysis-broken).
  Members beyond the modelled ones now come from the real constructor, engine I truncates unsigned bit-fields, and - a hole this
  seed exposed - **an encoding of zero bytes used to pass C04-R2/R3 vacuously**; it is a violation now.
* *C17-N* (DATA written byte by byte with `std::div`): engine I got `std::div`; the layout rule took the *last* write of a DATA
  directive as the word, which would have been a false alarm on a correct byte-wise emitter (it is the last four bytes now), and
  the new C17-R7 compares the bytes written for ten values with the little-endian value the listing shows.
* Two sixth-wave seeds had been "caught" for a wrong reason and lost that catch to the false-alarm corrections of 10.6; both are
  now caught for the right one: **C14-L** (xrun's `simulate()` helper switches input truncation off) by the new C14-R14 - every
  simulator setting one tool fixes by a constant has the same value in the other (constructor default when no call is made) -
  and **C15-Ip** (`getline` into a 32-byte buffer) by C15-R8, which now models `getline` and loads a binary with a 40-character
  procedure name.

**Final matrix** (`seeded/MATRIX.json`, every kept seed applied to a scratch copy of HEAD 6281ee1 and run through the check of its own
property and the related ones, with the machinery as committed; the eighth wave below came after it): 218 seeds, 216 caught by the check of their own property, 2 answered
*undecided* (C04-G, C17-K).  `benign/MATRIX.json`: 38 behaviour-preserving variants x 17 checks, no violation reported anywhere.

| seed | change | needs to manifest | caught by |
|------|--------|-------------------|-----------|
'''
src = open('/verif/tools/mkmeta.py').read()
ns = {}
m = re.search(r'^T = \{.*?^\}', src, re.S | re.M)
exec(m.group(0), ns)
T = ns['T']
M = json.load(open('/verif/seeded/MATRIX.json'))
for k in sorted(T):
    if re.search(r'-Np?$', k):
        cb = M.get(k, {}).get('caught_by') or []
        v = M.get(k, {}).get('own_check_verdict')
        wave += '| %s | %s | %s | %s |\n' % (k, T[k][1], T[k][2], ', '.join(cb) if cb else ('undecided (exit 2)' if v == 'ANALYSIS-BROKEN' else '-'))
old = "### 10.5 Not reached"
assert s.count(old) == 1
s = s.replace(old, wave + "\n" + old)
open(p, 'w').write(s)
print('ok')
