#!/usr/bin/env python3
"""Runs every check on every behaviour-preserving variant under /verif/benign/*/patch.diff (applied to a scratch copy of /repo HEAD)
and records the verdicts in benign/MATRIX.json.  A check must stay silent (exit 0) on all of them; exit 2 (idiom not recognised)
is tolerated but listed, exit 1 is a false alarm of the machinery."""
import glob, json, os, shutil, subprocess, sys, tempfile, re
from concurrent.futures import ThreadPoolExecutor
VERIF = os.path.dirname(os.path.dirname(os.path.abspath(__file__)))
PROPS = ['C%02d' % i for i in range(1, 18)]
only = sys.argv[1:]

def one(patch):
    name = os.path.basename(os.path.dirname(patch))
    d = tempfile.mkdtemp(prefix='hexsa-benign-')
    res = {}
    try:
        subprocess.run('git -C /repo archive HEAD | tar -x -C %s' % d, shell=True, check=True)
        r = subprocess.run(['patch', '-p1', '-s', '-i', patch], cwd=d, capture_output=True, text=True)
        if r.returncode:
            return name, {'_': 'patch does not apply'}
        for c in PROPS:
            env = dict(os.environ, HEXSA_REPO=d, HEXSA_EVIDENCE_DIR=os.path.join(d, '.ev'), HEXSA_NO_SENSITIVITY='1')
            r = subprocess.run([sys.executable, '-m', 'hexsa.check', c], cwd=VERIF, env=env, capture_output=True, text=True)
            first = next((l.strip()[:200] for l in r.stdout.splitlines() if l.startswith('  ' + c) or l.startswith('ANALYSIS-BROKEN')), '')
            res[c] = {'exit': r.returncode, 'first': first} if r.returncode else {'exit': 0}
    finally:
        shutil.rmtree(d, ignore_errors=True)
    return name, res

patches = sorted(glob.glob(os.path.join(VERIF, 'benign', '*', 'patch.diff')))
if only:
    patches = [p for p in patches if os.path.basename(os.path.dirname(p)) in only]
with ThreadPoolExecutor(4) as ex:
    out = dict(ex.map(one, patches))
bad = 0
for n, res in sorted(out.items()):
    al = {c: v for c, v in res.items() if v != {'exit': 0}}
    print(n, 'silent on all %d checks' % len(res) if not al else al)
    bad += sum(1 for v in al.values() if isinstance(v, dict) and v.get('exit') == 1)
if not only:
    json.dump(out, open(os.path.join(VERIF, 'benign', 'MATRIX.json'), 'w'), indent=1, sort_keys=True)
sys.exit(1 if bad else 0)
