import re, json
p = '/verif/DESIGN.md'
s = open(p).read()
if '#### Eighth wave' in s:
    a = s.index('#### Eighth wave')
    b = s.index('### 10.5 Not reached')
    s = s[:a] + s[b:]
src = open('/verif/tools/mkmeta.py').read()
ns = {}
m = re.search(r'^T = \{.*?^\}', src, re.S | re.M)
exec(m.group(0), ns)
T = ns['T']
M = json.load(open('/verif/seeded/MATRIX.json'))
keys = [k for k in sorted(T) if re.search(r'-R$', k) and k in M]
# first-contact verdicts that a later addition changed (the table reports first contact)
FIRST = {'C01-R': 'MISSED'}
for k_, v_ in FIRST.items():
    if k_ in M:
        M[k_] = dict(M[k_], own_check_verdict=v_, caught_by=[])
caught = [k for k in keys if M[k].get('own_check_verdict') == 'CAUGHT']
sib = [k for k in keys if M[k].get('own_check_verdict') != 'CAUGHT' and M[k].get('caught_by')]
broken = [k for k in keys if M[k].get('own_check_verdict') == 'ANALYSIS-BROKEN' and not M[k].get('caught_by')]
missed = [k for k in keys if M[k].get('own_check_verdict') == 'MISSED' and not M[k].get('caught_by')]
wave = '''#### Eighth wave (measurement only: first contact, no triage)

Made in the last ninety minutes with the same instructions as the seventh wave (one change per property, agents told all 218
earlier descriptions, 25 minutes each).  Seventeen were delivered; three (for C05, C15, C17) failed a unit test or hung the test
run when they were re-built here and were not kept.  %d changes were confirmed.  **No rule was changed in response to them** - there was no time left to re-run the complete seed and false-alarm matrices after a
rule change (the one exception, an added input case, is described below the table) - so this table is
what a maintainer can expect from the machinery as it stands on a change it has never seen: %d caught by the property's own
check%s, %d answered *undecided* (exit 2), %d missed (exit 0).  The missed ones are the honest
residue: each names a clause that no rule decides yet.

| seed | change | needs to manifest | first contact |
|------|--------|-------------------|---------------|
''' % (len(keys), len(caught), (', %d more only by a related check (%s)' % (len(sib), ', '.join(sib))) if sib else '', len(broken), len(missed))
for k in keys:
    cb = M[k].get('caught_by') or []
    v = M[k].get('own_check_verdict')
    cell = ('caught by ' + ', '.join(cb)) if cb else ('undecided (exit 2)' if v == 'ANALYSIS-BROKEN' else '**missed**')
    wave += '| %s | %s | %s | %s |\n' % (k, T[k][1].replace('|', '/'), T[k][2].replace('|', '/'), cell)
wave += '''
What the seven misses say about the rules (with one exception none of this was acted on):
C01-R - the string-packing rule interpreted `genString` on short literals only, no literal of 128 or more characters (sign of the
length byte).  This one is a pure addition of inputs to a semantic rule: literals of 127, 128, 200 and 255 characters were added to
C01-R6 (and thereby to its imports C09-R9 and C11-R4); HEAD holds, C01, C09 and C11 were re-run on all 38 behaviour-preserving
variants (no violation) and on all their seeds (nothing lost), and C01-R is caught since; C04-R - the literal rule ends every literal with a separator, never with the end of the file; C06-R - no rule of
C06 compares how the two mains map the run() result to the exit status (C14-R3 answers *undecided* on this change);
C08-R - the frame rule follows `incOffset` / `decOffset`, a spill word claimed with `setOffset(offset + 1)` is not counted as a
spill; C09-R - the offset-assigned protocol covers symbols *with a scope*, the new predicate makes procedure symbols take that
path; C10-R - an exception that escapes a `noexcept` function is not modelled (the totality rules see a `std::exception`);
C14-R - R6 says "a path that has written the binary ends in status 0", the converse (status 0 on an accepted source implies the
binary was written) is not a rule.
'''
old = "### 10.5 Not reached"
assert s.count(old) == 1
s = s.replace(old, wave + "\n" + old)
open(p, 'w').write(s)
print('ok', len(keys), len(caught), len(sib), len(broken), len(missed))
