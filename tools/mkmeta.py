#!/usr/bin/env python3
"""Write seeded/<id>/meta.json from the table below + MATRIX.json."""
import json, os
V = os.path.dirname(os.path.dirname(os.path.abspath(__file__)))
T = {
 'C01-A': ('C01', 'OptimiseExpr rewrites ~(~e) to e, wrongly treating and/or as truth valued', "~(~(a and b)) used as a value with operands outside {0,1}, e.g. x=3,y=6 gives 6 instead of 1"),
 'C01-B': ('C01', 'genBinopOperands re-reads a call result from the return slot sp[1] instead of a reserved temporary', "left operand with nested spills and a direct call on the right, in a frame no larger than the call needs: (a[0] + a[1]) + seven() returns 50 instead of 37"),
 'C02-Ap': ('C02', 'stale one-word instruction fetch buffer in hexsim::Processor::run (ported to HEAD: constructor line changed by the memory() fix)', 'a store into the instruction word currently being executed that changes a later byte of that word (self-modifying code)'),
 'C02-B': ('C02', 'HexSimIO::input returns int and the READ syscall drops & 0xFF', 'default truncation mode plus a read at end of input: stores 0xFFFFFFFF instead of 0xFF'),
 'C03-A': ('C03', 'LDAP in processor.sv keeps the carry out of bit 20 (zero-extended 32-bit add)', 'LDAP with a negative (backward) offset: areg is 2^21 too large'),
 'C03-B': ('C03', 'one-entry instruction-fetch word buffer in memory.sv that data writes do not invalidate', 'a store into the word currently being executed followed by fall-through into the changed byte'),
 'C04-A': ('C04', 'numNibbles loop guard shift < 28: bits 28..31 never examined', 'any immediate with unsigned magnitude >= 2^28, e.g. LDAC 2147483647 decodes to 0x0FFFFFFF'),
 'C04-B': ('C04', 'InstrImm::getSize shortens negative operands whose low nibbles are zero', 'negative immediates that are multiples of 16^k but not -16^k, e.g. LDAC -512 decodes to -256'),
 'C05-A': ('C05', 'operandSize sizes negative label operands too tightly (truncating loop)', 'a backward pc-relative reference spanning 4097..4111 bytes (and the analogous windows past 65536 ...)'),
 'C05-B': ('C05', 'early exit from the layout iteration when no label moved, before the operand phase', 'a reference grows, a second relative reference follows it with no label in between and no label moves: the second operand is off by one'),
 'C06-Ap': ('C06', 'hextb services a system call only on the rising edge of o_syscall_valid (ported to HEAD: the guard line changed by the reset fix)', 'back-to-back OPR SVC instructions (hand-written assembly): repeated writes/reads are dropped'),
 'C06-B': ('C06', 'hextb run() uses -1 as "no exit seen" sentinel and returns 0 for negative exit codes', 'exit value with bit 31 set, e.g. exit(-1): hextb exits 0, hexsim 255'),
 'C07-Ap': ('C07', 'constant fold of >= uses cmp > 0 (ported to HEAD: fold switch changed by the overflow fix)', 'a constant a >= b with a == b whose folded value is used (val full = n >= 16 with n = 16)'),
 'C07-B': ('C07', 'OptimiseExpr rewrites e ~= 0 to e', '(x ~= 0) used as a number with x outside {0,1}, e.g. (x ~= 0) + 1'),
 'C08-B': ('C08', 'a[i] := e claims the spill word for the element address only "if the right-hand side uses the stack", forgetting unary ~', 'element assignment whose RHS root is ~, ~=, >= or <= with a non-simple operand: the saved address is overwritten and the store goes to a wild address'),
 'C09-A': ('C09', 'SymbolTable::insert uses emplace and then dereferences the moved-from unique_ptr for a redeclaration diagnostic', 'the same name declared twice in one scope: SIGSEGV'),
 'C09-B': ('C09', 'new arity check does an unchecked dynamic_cast<Proc*> on the callee symbol', 'a call through a procedure-valued formal (proc apply(proc p) is p()): SIGSEGV'),
 'C10-Ap': ('C10', 'lexer comment skipping loop drops the end-of-file test', "a '#' comment on the last line without trailing newline: hexasm never terminates"),
 'C10-B-old': ('C10', 'unknown-label check moved into the relative-operand helper only', 'undefined label as operand of LDAM/LDBM/STAM/LDAC/LDBC: null Label* dereferenced'),
 'C11-A': ('C11', 'constant local vals no longer get a frame slot (early return skips setStackOffset)', 'an assignment to a constant local val: STAI_FB with the uninitialised Symbol::stackOffset, binary varies with heap contents'),
 'C11-Bp': ('C11', 'genString packs words with memcpy from a length+chars buffer and reads past its end (ported to HEAD: genString changed by the empty-string fix)', 'string literal of >= 15 characters with length % 4 in {0,1}: uninitialised heap bytes in the last DATA word'),
 'C12-A': ('C12', 'traceSyscall READ line has three conversions but two operands', '-t plus a program that performs a READ: boost::format throws and the traced run aborts with status 1'),
 'C12-B': ('C12', 'HexSimIO split into per-direction files; new connectedIn array not initialised', 'a program reading from a file stream (>= 256) with dirty memory under the Processor'),
 'C13-B': ('C13', 'areg_q/breg_q moved to a flop block without reset', 'hand-written assembly relying on the zero start state of areg/breg: seed-dependent results'),
 'C14-A': ('C14', 'emitBin throws "program does not fit" after the output file has been opened', 'an image larger than 200000 words: diagnostic and status 1 but a truncated output file is left behind'),
 'C14-B': ('C14', 'max-cycles test moved after cycles++ with return 0', '--max-cycles N with N = executed instructions - 1 and a non-zero exit value: status 0'),
 'C15-A': ('C15', 'emitProgramBin counts only 3 bytes for instructions of 4+ bytes in its running offset', 'an instruction of >= 4 bytes ahead of a procedure (program over about 4 KiB): symbol offsets too low'),
 'C15-B': ('C15', 'trace symbol column format %-12.12s truncates', 'name length + offset digits > 12: factorial+100 prints as factorial+10'),
 'C16-A': ('C16', 'processor.sv OPR decode uses the full accumulated operand; not mirrored into processor.v', 'an OPR 0..3 byte right after a PFIX/NFIX that leaves oreg non-zero'),
 'C16-B': ('C16', 'hand edit of both processor.v copies drops the {11\'b0, ...} concatenation of LDAP', 'LDAP with a negative offset or wrapping past 2 MB'),
 'C17-Bp': ('C17', 'numNibbles comparison tree with one wrong constant (ported to HEAD: numNibbles changed by the INT_MIN fix)', 'hand-written immediate with magnitude in [2^24, 2^28): sized and emitted as 6 nibbles while the listing prints the full value'),
 'C01-C': ('C01', 'ConstProp folds `and` to 0 when either operand is constant zero, deleting the evaluation of a side-effecting left operand', '`e and false` where e contains a call with output/input/global effects'),
 'C01-D': ('C01', 'self-recursive tail calls reuse the frame: actuals are written into the formals one at a time', 'return f(n - 1, acc + n): a later actual reads a formal an earlier actual has already overwritten (sumto(10,0) = 45)'),
 'C02-C': ('C02', 'effective address of LDAI/LDBI/STAI computed in 64 bits: no wrap-around modulo 2^32', 'indexed access with a negative (NFIX) operand: mem[0x100000009] instead of mem[9]'),
 'C02-D': ('C02', 'HexSimIO::output routes by (stream >> 8) & 7 == 0 instead of stream < 256', 'WRITE to a stream >= 2048 whose bits 8..10 are zero goes to stdout instead of simout0'),
 'C03-C': ('C03', 'BRZ/BRN test registered zero/negative flags of areg that reset to 0 (zero flag should reset to 1)', 'a BRZ as the very first instruction after reset'),
 'C03-D': ('C03', 'hex.sv turns o_syscall_valid into a rising-edge pulse', 'two adjacent OPR SVC bytes: the second request is suppressed'),
 'C04-C': ('C04', 'prefix emission over an unsigned copy masked with (1U << size*4) - 1', 'eight-nibble encodings (|v| >= 2^28): shift by 32, every nibble emitted as zero'),
 'C04-D': ('C04', 'lexer range check rejects literals >= UINT_MAX (off by one)', 'the literal 4294967295 (unsigned spelling of -1) is rejected'),
 'C05-Cp': ('C05', 'unknown-label and alignment checks hoisted out of the layout loop, run once after the first pass (ported to HEAD)', 'an absolutely referenced label that is aligned in the first pass and moved off the boundary by a growing reference: accepted and truncated'),
 'C05-D': ('C05', 'precedesData returns true at the end of the program: trailing labels are aligned up', 'program ending in labels after code whose length is not a multiple of 4: header length and trailing label addresses wrong'),
 'C06-C': ('C06', 'hextb READ shim keeps the character in an int and drops & 0xFF', 'input byte >= 0x80 or EOF used numerically: sign-extended on hextb, zero-extended on hexsim'),
 'C06-D': ('C06', 'hextb load() clips the memcpy at min(bytes, MAX_MEMORY_SIZE_WORDS) - a word count used as a byte count', 'images larger than 200000 bytes are silently truncated in the DUT memory'),
 'C07-C': ('C07', 'ConstProp keeps a map of global val values keyed by bare name and consults it before the scoped lookup', 'a formal/local with the same name as a global val is replaced by the global constant'),
 'C07-D': ('C07', 'ExprCodeGen combines (e op1 c1) op2 c2 into e op1 k with a wrong rule for minus/minus', '(x - 3) - 1 evaluates to x - 2'),
 'C08-C': ('C08', 'loadActuals skips LDBM 1 between actuals whose code is assumed to keep breg (wrong for and/or)', 'a call whose second or later actual is an and/or of comparisons: the actual is stored through a stale breg'),
 'C08-D': ('C08', 'frame exit label named <procedure>_exit instead of _labN', 'a program declaring both foo and foo_exit: return branches into the other procedure'),
 'C09-C': ('C09', 'ConstProp resolves forward val references by visiting the declaration on demand, without cycle detection', 'val a = a; / val a = b; val b = a; : unbounded recursion, SIGSEGV'),
 'C09-D': ('C09', 'new dead-code-after-exit peephole whose skip loop has no bound', 'a source with no procedure at all (empty file, comments only, globals only): read past the directive vector'),
 'C10-Bp': ('C10', 'unknown-label check moved into the relative-operand helper only (ported to HEAD)', 'undefined label as operand of LDAM/LDBM/STAM/LDAC/LDBC: null Label* dereferenced'),
 'C10-C': ('C10', 'layout loop also iterates while a label value written through the name-keyed map changes', 'a label defined twice at different addresses: hexasm never terminates'),
 'C10-D': ('C10', 'OPR operand whitelist removed from the InstrOp constructors; tokenToOprInstr throws instead', 'OPR followed by a non-operand: diagnostic after the header has been written (truncated output), and --instrs lists it with status 0'),
 'C11-C': ('C11', 'debug symbols recorded in a std::map keyed by Label* (heap address order)', 'two or more procedures and an allocator state in which address order differs from allocation order'),
 'C11-D': ('C11', 'CodeBuffer::labelCount becomes inline static', 'two compilations in one process: listings (_labN numbering) differ'),
 'C12-C': ('C12', 'simulator memory becomes a reference to a function-local static array', 'two Processors in one process: the second inherits the memory of the first'),
 'C12-D': ('C12', 'lastPC and cycles++ moved inside if (tracing)', '--max-cycles is ignored unless -t is given'),
 'C13-C': ('C13', 'memory.sv qualifies the write enable with a registered copy of reset that has no reset itself', 'power-on rst_q = 0 with the random pc on a store byte: one stray store into the image before reset'),
 'C13-D': ('C13', 'hextb READ shim no longer writes the result slot at end of input', 'READ on exhausted stdin into a never-written slot: exit value is power-on garbage'),
 'C14-C': ('C14', 'hexasm main: generic std::exception handler no longer sets the failure status', 'unopenable source, two sources, unknown option, -o without value: diagnostic but exit 0'),
 'C14-D': ('C14', 'xcmp option parsing split to add --output=FILE; the space-separated --output FILE form never assigns the name', 'xcmp --output FILE writes a.out'),
 'C15-C': ('C15', 'lookupSymbol caches the last symbol with an inclusive end address', 'control passing from procedure P to the entry of the next procedure: labelled P+size instead of Q+0'),
 'C15-D': ('C15', 'debugInfoMap replaced by a name search using strncmp(entry, name, strlen(name))', 'a procedure whose name is a prefix of an earlier one (mul_step before mul): wrong offsets'),
 'C16-C': ('C16', 'processor.v copies: o_d_valid / o_d_we rewritten as a casez whose STAI pattern also matches opcode 0xC', 'any byte 0xC0..0xCF: the .v copies store, processor.sv does nothing'),
 'C16-D': ('C16', 'synth/processor.v only: pc increment computed in 20 bits', 'code at addresses >= 0x0FFFFF; the two shipped copies differ'),
 'C17-C': ('C17', 'resolveLabels asks for another pass only when a grown reference sits before the last label', 'a reference of >= 2 bytes after the last label with directives behind it: stale offsets in listing and header'),
 'C17-D': ('C17', 'emitProgramBin emits operandSize(value) prefix bytes instead of getSize()', 'a reference whose operand shrank after it was extended: the image is shorter than the listing says'),
 'C01-E': ('C01', 'array subscripts: the constant term of e+c / c+e / e-c is folded into the LDAI/STAI offset, and c-e is treated like c+e', 'a[c - e] (reverse indexing) is compiled as a[e + c]'),
 'C01-F': ('C01', 'containsCall replaced by a flag computed by a MarkCalls pass that runs before OptimiseExpr, which builds fresh unflagged nodes', 'a call hidden under >, <=, ~=, >= or unary minus in a non-first actual: evaluated after earlier actuals are stored and overwrites them'),
 'C02-E': ('C02', 'PFIX/NFIX factored into prefixOperand(), which adds 0xFFFFFF00 instead of OR-ing it', 'an NFIX that is not the first prefix of its chain (PFIX 1; NFIX 2; LDAC 3)'),
 'C02-F': ('C02', 'hexsim loader rejects images whose byte size exceeds MEMORY_SIZE_WORDS (a word count)', 'any image of 50001..200000 words is turned away'),
 'C03-E': ('C03', 'ADD/SUB merged onto a shared adder; the OPR arm only excludes BRB, so SVC also performs areg + breg', 'an SVC with non-zero breg whose areg is used afterwards'),
 'C03-F': ('C03', 'o_syscall driven from a register updated only by LDAM/LDAC/LDAP/LDAI', 'a system-call number computed with ADD/SUB'),
 'C04-E': ('C04', 'parseInteger negates in the signed domain and clamps the magnitude at INT_MAX', 'the literal -2147483648 is parsed as -2147483647'),
 'C04-F': ('C04', 'emitProgramBin packs the encoding into a uint64_t with int shifts before one write()', 'every encoding of 5..8 bytes (|v| >= 65536) is corrupted by promotion/shift overflow'),
 'C05-E': ('C05', 'layout iteration capped at 8 passes ("an encoding has at most 8 bytes")', 'a chain of >= 8 references each growing one pass after the next: the last growth is never laid out'),
 'C05-F': ('C05', 'relativeSize() searches the length from 1 while setLabelValue keeps the longer old length', 'a reference whose needed length shrinks behind an alignment gap: operand for the short length, emitted with the long one'),
 'C06-E': ('C06', 'processor.sv LDAP zero-extends pc and offset to 32 bits before adding', 'LDAP to a label behind the instruction: address + 0x200000 on the RTL'),
 'C06-F': ('C06', 'hextb READ shim calls std::cin.get() instead of io.input(stream)', 'READ from a file stream (>= 256): hextb takes the byte from stdin'),
 'C07-E': ('C07', 'peephole deletes LDAC <non-zero>; BRZ L', '`c or e` with a constant non-zero c: the OR template needs the constant in areg as its result'),
 'C07-F': ('C07', 'OptimiseExpr simplifies and/or with one constant operand in either position', '`f(x) and false`: the call on the left is no longer evaluated'),
 'C08-E': ('C08', 'exit stub lowers sp by 3 and the two reserved words above the initial sp are dropped; stop is left unchanged', 'stop executed on a stack at most one word deep without global arrays: store to word 200000/200001'),
 'C08-F': ('C08', 'OptimiseExpr moves a simple left operand of a commutative operator to the right, and/or included', '`flag and (a[i] ~= k)` evaluates a[i] unconditionally: load outside memory'),
 'C09-E': ('C09', 'Driver::run opens the -o file before constructing hexasm::CodeGen', 'source rejected only by the built-in assembler (no main ...): diagnostic, but an empty/truncated output file'),
 'C09-F': ('C09', 'LocalDeclLocations no longer assigns a frame slot to local vals with a constant initialiser', 'such a val used as a subscript base / assigned to / with --memory-info: null Frame, uninitialised offset'),
 'C10-E': ('C10', 'numNibbles counts with `for (limit = 16; limit <= magnitude; limit <<= 4)`', 'magnitudes >= 2^28: limit wraps to 0, hexasm hangs'),
 'C10-F': ('C10', 'precedesData split into nextSizedDirective() returning nullptr, dereferenced unchecked', 'a label that is the last directive: SIGSEGV'),
 'C11-E': ('C11', 'xcmp lexer reports strtoul range errors through errno without clearing it first', 'after any earlier ERANGE in the process every later source with a number is rejected'),
 'C11-F': ('C11', 'emitProgramBin assembles into an uninitialised new char[] image and zeroes only some gaps', 'label directly before a misaligned DATA word: gap bytes are heap garbage'),
 'C12-E': ('C12', 'running/exitCode replaced by std::optional<int>; run() returns *exitCode', 'a run cut short by --max-cycles dereferences an empty optional'),
 'C12-F': ('C12', 'hexsim loader restyled after hextb: copies contents.size() bytes instead of programSize', 'symbol tables land behind the image: memory that must read as zero'),
 'C13-E': ('C13', 'hextb load() reads the file straight into memory_q (no zeroed staging vector)', 'file length not a multiple of 4: the last image word keeps power-on bytes'),
 'C13-F': ('C13', 'hextb -t also traces the reset cycles', 'first trace lines print random power-on pc/instr: stdout differs per seed'),
 'C14-E': ('C14', 'hexasm Lexer::openFile copies the file into a stringstream with << rdbuf()', 'an empty .S file sets failbit, END_OF_FILE is never reached: rejected instead of assembled'),
 'C14-F': ('C14', 'xrun constructs the Processor (copying maxCycles) before the option loop', 'xrun --max-cycles N is accepted and ignored'),
 'C15-E': ('C15', 'string table padded to a word boundary: writer pads 4 when already aligned, reader skips 0', 'sum of name lengths + 1 a multiple of 4: the loader reads numSymbols = 0'),
 'C15-F': ('C15', 'call statements to a procedure whose body is skip generate no code', 'the trace shows no entry for such calls'),
 'C16-E': ('C16', 'MEM_ADDR_WIDTH 21 -> 20 in hex_pkg.sv; processor.v copies keep the inlined widths', 'any pc / LDAP result at or above 1 MB'),
 'C16-F': ('C16', 'registered areg-is-zero flag reset to 1 in .sv and to 0 in the .v copies', 'BRZ as the first instruction after reset'),
 'C17-E': ('C17', 'listing text column format %-20s -> %-20.20s', 'label operands with long names lose their (value) part'),
 'C17-F': ('C17', 'emitProgramBin takes its byte offset from outputFile.tellp()', 'a non-seekable output (pipe): no alignment padding is written'),
}


def main():
    mp = os.path.join(V, 'seeded', 'MATRIX.json')
    matrix = json.load(open(mp)) if os.path.exists(mp) else {}
    for name, (prop, what, needs) in sorted(T.items()):
        d = os.path.join(V, 'seeded', name)
        if not os.path.isdir(d):
            continue
        m = matrix.get(name, {})
        meta = {
            'property': prop, 'seed': name,
            'origin': 'independent sub-agent given only the property record and a scratch worktree' +
                      ('; re-applied by hand to the repaired HEAD because the original diff no longer applied (suffix p)' if name.endswith('p') else ''),
            'change': what, 'needs_to_manifest': needs,
            'confirmed_by': 'tools/confirm_seed.sh in a scratch worktree of /repo HEAD: demo passes without the patch; with the patch the tree builds, '
                            'all 129 unit tests pass and the demo fails',
            'checks_run': 'tools/seedmatrix.py (patch applied to a scratch copy of /repo HEAD; HEXSA_REPO points the checks at it)',
            'own_check_verdict': m.get('own_check_verdict'), 'caught_by': m.get('caught_by'), 'applies_on_repo_commit': m.get('applies_on'),
            'first_report': (m.get('checks', {}).get(prop, {}) or {}).get('first_report'),
        }
        json.dump(meta, open(os.path.join(d, 'meta.json'), 'w'), indent=1)
    print('meta written')


if __name__ == '__main__':
    main()
