import re, json
p = '/verif/DESIGN.md'
s = open(p).read()
if '#### Sixth wave' in s:
    a = s.index('#### Sixth wave')
    b = s.index('### 10.5 Not reached')
    s = s[:a] + s[b:]
wave = '''#### Sixth wave (34 more changes, worktrees at 08c79a5; agents were told all 167 earlier descriptions)

All 34 confirmed.  One of them (produced for C03 as change L) alters only the simulator (a fetch guard that compares a byte address
with a word count), so C03 - the RTL against the ISA - cannot be affected by it; it is filed as C02-M.  First contact: 17 caught by
the property's own check, 12 missed, 5 analysis-broken.  After the work below 33 are caught by their own check and one (C17-K) is
answered *undecided* (exit 2).

* *Imports to the owner.*  C07-L (constant conditions decided as "== 1"): C07-R13 imports the if-templates of C01-R12 with constant
  conditions.  C11-K (fold reads the empty optional of a non-constant operand): C11-R4 imports the fold-effect rule C07-R8.
  C10-L (`isprint` on a negative immediate in the listing): engine I checks the argument range of every <cctype> call, C17-R1 got
  immediates of 128..255, negative and strongly negative value, and C10-R16 imports it.
* *New clauses.*  C01-K: each occurrence of a string literal has its own storage (genString interpreted twice).  C01-L: R19 runs
  the real xcmp lexer on decimal and hexadecimal literals of both letter cases and evaluates the C library conversion on the
  string it collected.  C02-K: R5 the object that owns the simulator file streams is destroyed (automatic, smart pointer or
  delete).  C02-M: a throw in front of the fetch is a leaf of its own in engine S.  C04-L: RC the layout accepts an immediate of
  every class of the sizing partition.  C08-K: R11 after the real peephole pass every stack store still has its `LDBM 1` since the
  last label (streams with and without labels; a label is a join point).  C09-L: C07-R3 folds comparisons at the extremes
  (lambdas are interpreted).  C12-L: the nondeterminism scan knows `sync_with_stdio`.  C13-K: C03-R2 / C13-R9 the clock and reset
  inputs of every instance are the top-level inputs themselves.  C13-L: R10 the evaluation schedule of run() is the same for all
  four power-on values of the i_clk / i_rst pins.  C15-K: R1 judges *every* traced path, not the first per layout (paths that
  exist only for addresses beyond the memory are outside the quantifier).  C15-L: R10 a call statement reaches a call generator
  on every path.  C17-L: C05-R5 sequences with absolute and relative references to code labels (the real createLabelMap runs in
  the layout model, members a change adds are default-constructed).
* Not caught: **C17-K** (padding and data word written from one scratch buffer with `memcpy(buffer + gap, ...)`): engine I has no
  byte-level model of pointers into a local buffer; C17 and C05 answer undecided.

| seed | change | needs to manifest | caught by |
|------|--------|-------------------|-----------|
'''
src = open('/verif/tools/mkmeta.py').read()
ns = {}
m = re.search(r'^T = \{.*?^\}', src, re.S | re.M)
exec(m.group(0), ns)
T = ns['T']
M = json.load(open('/verif/seeded/MATRIX.json'))
for k in sorted(T):
    if re.search(r'-[KLM]p?$', k):
        cb = M.get(k, {}).get('caught_by') or []
        v = M.get(k, {}).get('own_check_verdict')
        wave += '| %s | %s | %s | %s |\n' % (k, T[k][1], T[k][2], ', '.join(cb) if cb else ('undecided (exit 2)' if v == 'ANALYSIS-BROKEN' else '-'))
wave += '''
*Re-ported seeds.*  A seed whose patch no longer applied after a later repair of /repo was re-ported to the new HEAD, confirmed
again (build, 129 tests, demo fails with / passes without) and stored with the suffix `p`; the old directory was removed.  That
happened to C11-C and C11-F (after 08c79a5) and to C02-L, C12-F, C15-G and C15-I (after 6281ee1, all four touch `load()`); the
tables above keep the original names, `seeded/MATRIX.json` has the rows C11-Cp, C11-Fp, C02-Lp, C12-Fp, C15-Gp, C15-Ip.
'''
old = "### 10.5 Not reached"
assert s.count(old) == 1
s = s.replace(old, wave + "\n" + old)
open(p, 'w').write(s)
print('ok')
