#!/usr/bin/env python3
"""Regenerate /verif/MANIFEST.json from the table below (kept next to the code so it stays valid)."""
import json, os, subprocess
V = os.path.dirname(os.path.dirname(os.path.abspath(__file__)))
ALL = ['C%02d' % i for i in range(1, 18)]

CLAIMED = {
 'C14': dict(
   technique='static analysis: path-sensitive dataflow over the statement CFG of the five main()s and xcmp::Driver (clang AST) + interprocedural parameter-binding trace + who-may-open / reachable-throw call-graph rules',
   text='Decides the property structurally: every catch handler diagnoses to stderr and returns non-zero on all paths; the -o operand reaches the output std::fstream by positional binding (default "a.out"); run()\'s value reaches main\'s return on every path; a failed compile in xrun is non-zero; output files are opened only in the designated writers and nothing can reject after the open (the accepted internal-invariant throws are re-verified each run); a failed open of the output is itself diagnosed (R7); option order independence; an option value reaches the object constructed from it (R8); an empty source is not rejected because of `<< rdbuf()` (R9). These are all shape properties of six small functions, so the static verdict covers every input and argument order; tests never start an executable.',
   note='Trusted: clang 14 AST; frozen tables of allowed writers / accepted internal-invariant throws (named symbols with reasons). Not decided: behaviour of the host file system beyond the open (short writes, disk full), std::exit paths of --help. An -o branch or argument loop written in an unrecognised shape yields exit 2, not a violation.',
   ref='DESIGN.md section 5, C14'),
 'C02': dict(
   technique='static analysis: abstract interpretation of hexsim::Processor::run/syscall/HexSimIO (clang AST) over symbolic terms with trace partitioning on the 256 instruction bytes; effect summaries compared with the transcribed ISA by canonical form',
   text='Whole step relation: for each of the 240 defined instruction bytes the simulator\'s loop body has exactly the ISA\'s cases and, in each, identical canonical terms for pc/areg/breg/oreg, memory stores, the sequence of std-stream primitives (stream routing, file naming, lazy open), running flag and exit value, over fully symbolic registers/memory; plus fetch expression, constructor/loader/configuration and enum-table agreement. Equality of canonical forms is a statement about all 2^32 values per register, which no sampled run reaches.',
   note='Trusted: clang AST; ISA transcription (spec_isa.py from hexb.pdf); term normaliser (passes only on identical forms, fails only with a distinguishing state, otherwise exit 2). Assumes effective addresses inside memory (property quantifier). Whole-run traces follow by induction on steps; host file behaviour not decided.',
   ref='DESIGN.md section 5, C02'),
 'C03': dict(
   technique='static analysis: symbolic evaluation of Verilator\'s elaborated XML netlist (processor+memory through hex.sv port maps) per instruction byte; next-state/write/syscall terms compared with the ISA by canonical form',
   text='Whole per-clock relation under the property\'s address-range protocol: for all 228 defined bytes the RTL next-state functions of pc/areg/breg/oreg, the memory write (enable,address,data) and the syscall request equal the ISA step as canonical terms; fetch byte lane and data read path through the real port maps; single posedge clocking; reset state. Covers all register/memory values symbolically; no passing test executes a clock.',
   note='Trusted: Verilator elaboration; ISA transcription; term normaliser. Protocol: pc mod 2^21, word addresses mod 2^19, LDAP as zext32(trunc21), OPR with oreg=0. Syscall effects are C06.',
   ref='DESIGN.md section 5, C03'),
 'C12': dict(
   technique='static analysis: constructor-initialisation audit of every scalar member (clang AST) with written-before-read proof on symbolic step paths; effect-set analysis of the trace functions; tracing-on vs tracing-off step summaries compared; nondeterminism-source scan with positive-control fixture',
   text='Structural whole: defined (zero) initial state of every member the run can read; trace functions write nothing architectural and never touch I/O; the run loop behaves identically with tracing on/off for all 240 bytes (registers, stores, I/O, cycle count, exit); loop exit only by running/cycle limit and run() returns the initialised exit status; no nondeterminism source. These are shape properties of one class, decided for all images/inputs/host states.',
   note='Trusted: clang AST; frozen exemption tables (instr/instrEnum written first - re-proved each run; debugInfoMap text-only). Assumes std streams deterministic.',
   ref='DESIGN.md section 5, C12'),
 'C16': dict(
   technique='static analysis: symbolic evaluation of Verilator XML for processor.sv, verilog/processor.v and synth/processor.v; all outputs and next-state functions compared by canonical term for all 256 bytes x reset',
   text='Whole property: 2 copies x 256 instruction bytes x reset x all outputs/next-states are identical canonical terms over symbolic registers and read data, plus interface/sensitivity agreement. Exhaustive over the byte grid and symbolic over state, so it covers every input and state; nothing in the build elaborates processor.v.',
   note='Trusted: Verilator elaboration; term normaliser. 2-state semantics (sv2v X constants must cancel).',
   ref='DESIGN.md section 5, C16'),
 'C04': dict(
   technique='static analysis: interval x bit-slice abstract interpretation (trace partitioning by dynamic interval splitting) of Parser::parseInteger, numNibbles, InstrImm::getSize and the instruction branch of CodeGen::emitProgramBin (clang AST); emitted bytes folded with the ISA prefix rule as bit vectors',
   text='Whole property: the int range is partitioned into value classes on which every branch of the sizing/encoding code is uniform (classes are split until it is); per class x 12 mnemonics the check shows no UB, a well-formed prefix chain of getSize() bytes with the right opcodes, and bit-for-bit reconstruction of the operand by the ISA prefix rule; both literal spellings are mapped onto int32 exactly, and the number branch of the lexer (interpreted with the result of strtoul as the partitioned input) delivers every literal 0..2^32-1 unchanged. The partition covers all 2^32 values, which the suite (a few hundred values) cannot.',
   note='Trusted: clang AST; the abstract interpreter (conditions must be uniform on a class else it is split; UB recorded per class); ISA prefix rule. Assumes two\'s complement and arithmetic >> on negative ints (true for the build compilers).',
   ref='DESIGN.md section 5, C04'),
 'C05': dict(
   technique='static analysis: abstract interpretation (intervals x low-bit congruence x affine forms) of CodeGen::resolveLabels / the CodeGen constructor / emitProgramBin on abstract directive sequences built by interpreting the directive constructors; a must-record CFG rule for the fixed-point exit; AST rule for the relative/absolute table',
   text='Clauses, each a necessary condition: (R1) the layout loop cannot be left while an operand may be stale (CFG must-record rule) plus a two-reference template over all gap classes; (R2) every InstrLabel construction classifies its mnemonic as the ISA does; (R3) absolute references yield the word address when aligned and are rejected otherwise, for all residues; (R4) a label before DATA names the aligned word; (R5) layout offsets == bytes emitted == emitter\'s running offset == recorded symbol offsets for every directive kind/sequence x start residue; (R6) header length word; (R7) relative references are self-consistent and survive their encoding for every forward/backward gap class up to 2^22; (R8) termination measure of the layout iteration: the continue-flag is set only from the size setter, the setter never shrinks and reports true only on growth, sizes are bounded by 8 bytes, so at most 7 x references + 1 passes; (R3g) alignment of an absolutely referenced label is judged on the final layout (template with a growing branch in front of the label); (R7) also demands that every directive starts where the previous one ends after the last pass; (R7b) a reference longer than its final operand needs is emitted with getSize() bytes that decode to the operand. Offsets are symbolic (start + constant), so each verdict covers all program sizes.',
   note='NOT decided: minimality of the layout; programs with more than two mutually dependent references are covered by the CFG rule R1 and the measure R8, not by templates. An unrecognised loop idiom is reported as undecided (exit 2), not as a violation. Trusted: clang AST, interpreter, pc-relative/absolute tables of the property.',
   ref='DESIGN.md section 5, C05'),
 'C15': dict(
   technique='static analysis: symbolic step summaries of Processor::run with tracing on (trace() interpreted, format-chain arguments compared as canonical terms per instruction byte); writer/reader I/O-sequence agreement over the AST; import of the layout==emission abstract interpretation for symbol offsets; lookupSymbol interpreted over the complete ordering domain of small tables',
   text='Clauses: (R1) for all 240 bytes and both layouts the trace prefix is formatted from (count, address, symbol+offset, mnemonic of the executed opcode, low nibble) with no truncating precision; (R2) symbol-table writer and reader agree element for element; (R3) each FUNC/PROC symbol is recorded with its layout offset for all directive sequences/start residues, one symbol per procedure; (R4) lookupSymbol is correct for every position of the address among 1..3 ascending offsets, also for two lookups in succession on a really constructed object (history independence); (R5) the offset printed is measured from exactly the symbol shown, for tables whose names are prefixes of one another; (R6) call statements are never elided (import of C01-R15), so every source call shows as an entry. The consequence "entry sequence = call sequence" additionally needs C01, which is not decided.',
   note='Trusted: clang AST; boost::format prints arguments in order. lookupSymbol with an empty table is only reached when debugInfo is non-empty (guarded in trace).',
   ref='DESIGN.md section 5, C15'),
 'C17': dict(
   technique='static analysis: abstract interpretation (affine offsets, abstract strings) of CodeGen::emitProgramText per directive kind; import of layout==emission (C05-R5) and of the value-class encoding check (C04) for the printed size/operand',
   text='Structural whole: each listing line prints the layout offset, the text and the same virtual getSize() that drives emission, the operand shown is getValue() (what emission encodes), offsets printed are the offsets at which bytes are written (all directive kinds/sequences x start residues), the listed size/operand is what the emitted prefix chain decodes to (all value classes), the offsets listed behind a reference that had to grow are those of the final layout and over-long references are emitted with the listed size (R5, import of C05-R7/R7b), the emitter never derives offsets from the stream position (R6), and both entry points print the object that would be emitted.',
   note='PADDING lines excluded (as in the property). The early-exit divergence described in the property text could not be reproduced on the pinned tree (listings described the - wrong - binary exactly); see DESIGN.md.',
   ref='DESIGN.md section 5, C17'),
 'C11': dict(
   technique='static analysis: constructor-initialisation audit of every scalar member of xcmp/hexasm/hexutil/hex (clang AST) with per-member read protocols verified by CFG dataflow (must-precede, must-call, guard dominance); nondeterminism-source and static-state scan with positive-control fixture',
   text='Structural whole: a member is either initialised by every constructor or exempted by a named protocol that is re-verified on every run (stream opened before the lexer is used, NUMBER-token guard on getNumber, token read first, frame set before code generation, stack offset assigned to every scoped symbol kind on all paths, val value read only under isConst); no unordered/pointer-keyed containers, pointer-to-integer casts, streamed pointers, getenv/rand/time/hash, no mutable static state. Determinism across heap states, environments and ASLR is exactly the absence of these shapes.',
   note='Not decided: reads of uninitialised *local* buffers / out-of-bounds reads (e.g. a memcpy past a std::string) - that is UB analysis (C09), and one seeded change of this kind is missed (DESIGN.md). Trusted: clang AST; frozen PROTOCOL table.',
   ref='DESIGN.md section 5, C11'),
 'C13': dict(
   technique='static analysis: Verilator-XML symbolic evaluation under reset for all 256 bytes (registers cleared, write enable false); abstract interpretation of hextb.cpp run() on its own clock/reset/time scalars with adversarial DUT outputs, yielding the exact (time, clk, rst) schedule of eval() and handleSyscall() calls',
   text='Clauses (necessary conditions for seed independence): under reset every architectural register is cleared and memory cannot be written for any instruction byte the power-on state may present; the testbench asserts reset at or before the first evaluated rising clock edge, evaluates inside reset, releases it, and services no system call before release; the image is loaded before the clock starts; the system-call shim stores a result on every READ path and sets the exit value on every EXIT path (nothing is left to power-on memory); the loader leaves no image word with power-on bytes (R6, import of C06-R3); with -t no design state is printed before reset release (R7).',
   note='Not decided: per-seed outcomes and Verilator\'s randomisation model. The repaired tree was additionally swept over 2000 seeds outside the check (0 deviations; 4 in 1500 before).',
   ref='DESIGN.md section 5, C13'),
 'C06': dict(
   technique='static analysis (compositional): symbolic effect summaries of hextb.cpp handleSyscall vs hexsim::Processor::syscall compared by canonical form; AST rules for the loader; abstract interpretation of run() (clock/reset/request schedule, exit-value flow)',
   text='Compositional clauses on top of C02 (hexsim == ISA) and C03 (RTL == ISA): the rules of C02 and C03 are run as part of this check (R1); the system-call shim has exactly the simulator\'s effects for EXIT/WRITE/READ (argument slots, 8-bit truncation, stream routing primitives, store, exit value) and rejects other numbers; the loader puts the image at word 0 with the header<<2 size rule and copies all bytes read (no clip bound below the memory size in bytes); after reset each requesting clock is serviced exactly once (also back-to-back), nothing is serviced without a request, EXIT ends the run and run() returns the exit value unchanged for all 32-bit values.',
   note='Not decided: end-to-end equality for concrete binaries/inputs (follows from the clauses only for programs that never read unwritten memory: hextb copies the symbol tables behind the image); stdout banner. Imports C02/C03 verdicts.',
   ref='DESIGN.md section 5, C06'),
 'C01': dict(
   technique='static analysis: abstract interpretation (intervals, affine frame offsets, abstract AST objects built by the real constructors) of ExprCodeGen/StmtCodeGen/CodeBuffer/OptimiseExpr/ConstProp over all operator x operand-kind shapes with sub-expression code as an opaque step; template analysis of the generated directive sequences; AST rules',
   text='Structural necessary conditions only (equivalence of source and binary for every program is not decidable statically here): R1 register-target discipline; R2 the tree survives code generation (no moved-from child); R3 label classification; R4 generated labels cannot be identifiers; R5 frame-offset balance of every call/operator template; R6 string packing incl. the empty string; R7 operator coverage; R8 spill-slot discipline (values read back after a sub-expression sit in reserved frame slots; outgoing actuals are protected from later temporaries, proved with symbolic frame-size lower bounds); R9/R10 the expression optimiser and the folder preserve the X meaning of every operator/operand-class shape on the ordering domain; R11 executing the generated instruction template of every operator x operand-kind pair (sub-expression code an opaque step) leaves the X meaning in areg for every ordering/zero-test combination; R12 the if/while templates execute exactly the X control flow (branch polarity, loop back-edge) for all skip/non-skip shapes; R4 every label operand is traced back to its origin (literal / source name / concatenation / format) and generated names cannot be X identifiers; R13 folding never deletes the evaluation of a call; R14 each actual of a call is stored through a freshly loaded stack pointer (breg does not survive non-leaf actuals); R15 no statement template overwrites a named variable before a later sub-expression that mentions it, and call statements are never elided; R16 array-element templates read/write mem[base + index] for index shapes x, c, x+-c, c-x (symbolic base); R17 rewriting keeps what is evaluated (short-circuit); R11 is repeated after the real peephole pass; actuals are taken through the real pass pipeline of Driver::run. Breaking any of them miscompiles or crashes on some program.',
   note='NOT decided: composition of the templates into whole programs (an induction over program structure that the check does not carry out), calling-convention slot numbers beyond R5/R8, peephole soundness on arbitrary directive streams, run-time recursion depth; hence a pass is not a proof of C01. Trusted: clang AST; interpreter; X operator table.',
   ref='DESIGN.md section 5, C01'),
 'C07': dict(
   technique='static analysis: abstract interpretation of ConstProp / OptimiseExpr / genConst on abstract AST objects over the complete ordering domain of operand values and over operand classes (variable, zero, constant, operator sub-tree); interval analysis for overflow; CFG guard rule for val propagation',
   text='Clauses: R1 the fold table equals the X operator table for every ordering/zero-test combination; R2 every rewrite (~=, >=, >, <=, unary minus, and anything else OptimiseExpr does to an operator over each operand class, unary operators over every operator below) preserves meaning on the ordering domain; R3 folding of + - unary- over all of int has no signed overflow and wraps; R4 folded constants are materialised in the requested register; R5 val names are propagated only when constant; R6 genConst loads the requested value into the requested register, immediate inside (-65536,65536), one pool word per value outside; R7 executing the instruction templates for operands of the shapes c, x+c, x-c, c-x leaves the X value (constants inside larger expressions); R8 folding with a non-constant operand happens only where X does not evaluate that operand (calls are effects; for variables the value must be independent of them); R9 every propagated val value is data-dependent on the scoped SymbolTable::lookup (a local may hide a global val); R10 the expression OptimiseExpr substitutes evaluates the same calls and array elements as the original for every leaf value (short-circuit of and/or preserved); R7 also holds after the directive-level peephole pass.',
   note='Comparison operators inspect operands only through their order, so the ordering domain is exact for them; agreement with the run-time code sequence where the subtraction inside < wraps is a documented gap (not decided).',
   ref='DESIGN.md section 5, C07'),
 'C08': dict(
   technique='static analysis: abstract interpretation of xcmp::LowerDirectives, CodeGen stub generation and the call templates with symbolic frame size / array space; a small affine executor of Hex instructions for the lowered prologue/epilogue; symbolic frame-size lower bounds for outgoing words',
   text='Clauses: R1 prologue/epilogue are exact inverses on the stack pointer for functions and procedures with S=0 and S>0, link/result slots are where the caller expects them, formal i == actual i, frame-base lowering is S+O-1; R2 the initial stack pointer keeps every word the exit stub and stop touch below the arrays and inside the 200000-word memory shared with the simulator; R3 each call/syscall/stop sequence sizes the frame for its outgoing words; R4 array placement from the top of memory; R5/R6 frame balance and spill/outgoing-actual discipline (import of C01-R5/R8); R7 generated labels cannot collide with user names (import of C01-R4: a collision sends a branch or call into the wrong code); R8 actuals are stored through a freshly loaded stack pointer (import of C01-R14: a stale breg stores anywhere); R9 a subscript the program guarded with and/or stays guarded (import of C07-R10).',
   note='NOT decided: per-access bounds of arbitrary executions, recursion depth vs. stack budget, array subscripts, unchecked array lengths. Trusted: clang AST; interpreter; ISA semantics of 12 instructions in the affine executor.',
   ref='DESIGN.md section 5, C08'),
 'C09': dict(
   technique='static analysis: AST/CFG rules over xcmp.cpp (thrown types, try containment, use-after-move dataflow, never-null lookup, checked downcasts with a frozen guard table), call-graph SCC analysis with depth-guard recognition, plus abstract interpretation of the lexer on the input class c.EOF* and imports of the moved-from-child, overflow and val-guard rules',
   text='Clauses (necessary conditions; "all byte strings" is a dynamic quantifier): R1 every throw derives from std::exception and the drivers run the compiler inside catching try blocks; R2 no read of the uninitialised val value; R3 no null child / moved-from dereference during code generation for all operator x operand shapes; R4 no signed overflow in folding; R5 no use of a unique_ptr variable after std::move; R6 SymbolTable::lookup never returns null; R7 every dereferenced dynamic_cast is null-tested or guard-recorded; R8 the lexer reaches END_OF_FILE or a diagnostic on c.EOF* for all 256 bytes (thorough: byte pairs/triples); R9 string packing never reads past the literal; R10 every recursive cycle of the resolved call graph reachable from main() (virtual calls fanned out to all overriders) passes through a depth guard (counter checked against a constant <= 2000, throwing, before recursing) or descends one syntax-tree level per call with the tree-building parser so guarded - stack exhaustion on nested input is otherwise a crash on a 36 kB source; R11 the directive peephole pass, interpreted on the streams the real code generator and lowering produce for the smallest programs (no procedure; one procedure), makes no out-of-range vector access; R12 nothing is rejected after the output file exists and only the designated writer opens it (import of C14-R4); R13 frame pointer / stack offset are assigned on every path before use (import of the C11 protocols).',
   note='NOT decided: out-of-bounds accesses in general, ctype on plain char, whether the accepted depth constant fits the stack of a given host (calibrated by measurement: crashes began at 9024 levels at -O0 / 8 MB). Trusted: clang AST; DOWNCAST_GUARDS table; control fixture fixtures/recursion.cpp re-analysed on every run.',
   ref='DESIGN.md section 5, C09'),
 'C10': dict(
   technique='static analysis: AST rules (thrown types, try containment, downcast guard table), call-graph SCC analysis + abstract interpretation of resolveLabels/CodeGen on degenerate and undefined-label programs, of the lexer on c.EOF* for all bytes, and imports of the UB-free sizing (C04-R1) and unaligned-reference (C05-R3) rules',
   text='Clauses: R1 exception discipline and containment in hexasm.cpp; R2 undefined labels are rejected with hexutil::Error for relative and absolute references without null dereference; R3 empty and label-only programs are laid out without UB; R4 the lexer terminates at end of input after any byte; R5 checked downcasts; R8 no UB while sizing/encoding immediates over the whole int range; R9 unaligned absolute references are rejected; R10 termination measure of the layout iteration (import of C05-R8); R11 no unbounded recursion reachable from main() (call-graph SCC rule, as C09-R10); R12 nothing is rejected after the output file has been opened (import of C14-R4; the construction-time validation that makes the remaining throws unreachable is re-verified each run).',
   note='NOT decided: ctype on plain char, arbitrary byte strings beyond the listed input classes (the clauses are necessary conditions).',
   ref='DESIGN.md section 5, C10'),
}

# clauses added after the fourth wave of seeded changes (appended to the level text of each property)
ADD = {
 "C01": " Wave-4 additions: R12 if-templates with structured conditions (constants, not, and, or, =, <) executed over the ordering domain; R18 scoped constant propagation.",
 "C04": " The radix of the literal conversion (must be 10) is checked before the lexer interpretation; an unmodelled lexer shape is reported as undecided for that rule only.",
 "C05": " R3d: a data word behind a reference that grows between passes is emitted at its final, word-aligned label value (image emitted from byte 0); R4 also for FUNC/PROC before DATA.",
 "C07": " R11: constants passed as call actuals (import of the call-template rule of C01).",
 "C08": " R10: subscript templates (import of C01-R16).",
 "C09": " R14: the frame report (--memory-info) is total on the no-procedure program and every integer division has a non-zero constant or tested divisor; R15: the hexutil::Error handler of Driver::runCatchExceptions is total (no exception leaves it, no out-of-range access) with the lexer in the end state of eight small sources and the error at any token location.",
 "C10": " R13: tokenEnumStr is total over the Token enumeration; R14: the hexutil::Error handler of main() is total on lexer end states (as C09-R15).",
 "C11": " Obligation: constValue is assigned only by ConstProp (the val guard protocol depends on it).",
 "C12": " R2c: no throwing call and only guarded symbol lookups inside the trace functions.",
 "C14": " R10: loader shapes (import of C02-R2); R11: in xrun the compile dominates the simulation.",
 "C15": " R7: every procedure reaches its prologue directive; R8: hexsim::Processor::load interpreted on well-formed binaries of 1, 3, 12 and 40 minimal procedures keeps exactly the written (name, offset) list.",
 "C16": " Copies that mention SYNTHESIS are also elaborated with +define+SYNTHESIS and compared (interface and sampled bytes).",
 "C17": " R5 also imports C05-R3d (data word behind a growing reference); encodings written with write(data,size) of a character-built string are decoded like put().",
}

NOT_YET = 'engine not finished yet in this round (DESIGN.md section 7 build order); no check is registered, nothing is claimed'

def main():
    commits = subprocess.run(['git', '-C', '/repo', 'log', '--format=%h %s', 'e8d73ac..HEAD'], capture_output=True, text=True).stdout.strip().splitlines()
    checks = []
    for pid in ALL:
        if pid not in CLAIMED:
            continue
        c = CLAIMED[pid]
        checks.append({
            'property_id': pid,
            'quick_cmd': 'python3 -m hexsa.check %s --tier quick' % pid,
            'thorough_cmd': 'python3 -m hexsa.check %s --tier thorough' % pid,
            'evidence_file': '/verif/evidence/%s.json' % pid,
            'replay_cmd_template': 'python3 -m hexsa.check --replay {path}',
            'engine': 'hexsa',
            'technique': c['technique'],
            'level_claimed': {'category': 'other', 'text': c['text'] + ADD.get(pid, ''), 'design_ref': c['ref']},
            'level_note': c['note'],
        })
    m = {
        'version': 1,
        'setup_cmd': 'python3 -m hexsa.setup',
        'hooks': {'guard': 'HEX_VERIF', 'enable': 'none needed: the checks analyse the unmodified sources (no hooks are compiled in)',
                  'baseline_off_cmd': 'cmake -G Ninja -S /repo -B /repo/_build -DCMAKE_BUILD_TYPE=RelWithDebInfo -DCMAKE_CXX_FLAGS=-Wno-error && cmake --build /repo/_build && ctest --test-dir /repo/_build -j8 --timeout 900',
                  'source_commits': [], 'add_only': True},
        'engines': [{'name': 'hexsa', 'path': '/verif/hexsa', 'serves_properties': sorted(CLAIMED),
                     'kind_free_text': 'repository-specific static analysis in Python over clang\'s JSON AST (via a small clang plugin) and Verilator\'s XML AST: CFG/dataflow rules, call-graph SCC and value-origin (backward slice) analyses, symbolic effect summaries compared by canonical form, interval/bit-slice abstract interpretation'}],
        'checks': checks,
        'not_applicable': [{'property_id': p, 'reason': NOT_YET} for p in ALL if p not in CLAIMED],
        'notes': 'exit codes: 0 held / 1 VIOLATION / 2 analysis broken. known_findings.json lists repaired (fixed:) and recorded (known) genuine defects. fix commits in /repo: ' + '; '.join(commits),
    }
    json.dump(m, open(os.path.join(V, 'MANIFEST.json'), 'w'), indent=1)
    print('wrote MANIFEST.json with', len(checks), 'checks')

if __name__ == '__main__':
    main()
