#!/usr/bin/env python3
"""Regenerate /verif/MANIFEST.json from the table below (kept next to the code so it stays valid)."""
import json, os, subprocess
V = os.path.dirname(os.path.dirname(os.path.abspath(__file__)))
ALL = ['C%02d' % i for i in range(1, 18)]

CLAIMED = {
 'C14': dict(
   technique='static analysis: path-sensitive dataflow over the statement CFG of the five main()s and xcmp::Driver (clang AST) + interprocedural parameter-binding trace + who-may-open / reachable-throw call-graph rules',
   text='Decides the property structurally: every catch handler diagnoses to stderr and returns non-zero on all paths; the -o operand reaches the output std::fstream by positional binding (default "a.out"); run()\'s value reaches main\'s return on every path; a failed compile in xrun is non-zero; output files are opened only in the designated writers and nothing can reject after the open; option order independence. These are all shape properties of six small functions, so the static verdict covers every input and argument order; tests never start an executable.',
   note='Trusted: clang 14 AST; frozen tables of allowed writers / accepted internal-invariant throws (named symbols with reasons). Not decided: behaviour of the host file system (failed opens are not diagnosed by the tools at all), std::exit paths of --help.',
   ref='DESIGN.md section 5, C14'),
}

NOT_YET = 'engine not finished yet in this round (DESIGN.md section 7 build order); no check is registered, nothing is claimed'

def main():
    commits = subprocess.run(['git', '-C', '/repo', 'log', '--format=%h %s', 'e8d73ac..HEAD'], capture_output=True, text=True).stdout.strip().splitlines()
    checks = []
    for pid in ALL:
        if pid not in CLAIMED:
            continue
        c = CLAIMED[pid]
        checks.append({
            'property_id': pid,
            'quick_cmd': 'python3 -m hexsa.check %s --tier quick' % pid,
            'thorough_cmd': 'python3 -m hexsa.check %s --tier thorough' % pid,
            'evidence_file': '/verif/evidence/%s.json' % pid,
            'replay_cmd_template': 'python3 -m hexsa.check --replay {path}',
            'engine': 'hexsa',
            'technique': c['technique'],
            'level_claimed': {'category': 'other', 'text': c['text'], 'design_ref': c['ref']},
            'level_note': c['note'],
        })
    m = {
        'version': 1,
        'setup_cmd': 'python3 -m hexsa.setup',
        'hooks': {'guard': 'HEX_VERIF', 'enable': 'none needed: the checks analyse the unmodified sources (no hooks are compiled in)',
                  'baseline_off_cmd': 'cmake -G Ninja -S /repo -B /repo/_build -DCMAKE_BUILD_TYPE=RelWithDebInfo -DCMAKE_CXX_FLAGS=-Wno-error && cmake --build /repo/_build && ctest --test-dir /repo/_build -j8 --timeout 900',
                  'source_commits': [], 'add_only': True},
        'engines': [{'name': 'hexsa', 'path': '/verif/hexsa', 'serves_properties': sorted(CLAIMED),
                     'kind_free_text': 'repository-specific static analysis in Python over clang\'s JSON AST (via a small clang plugin) and Verilator\'s XML AST: CFG/dataflow rules, symbolic effect summaries compared by canonical form, interval/bit-slice abstract interpretation'}],
        'checks': checks,
        'not_applicable': [{'property_id': p, 'reason': NOT_YET} for p in ALL if p not in CLAIMED],
        'notes': 'exit codes: 0 held / 1 VIOLATION / 2 analysis broken. known_findings.json lists repaired (fixed:) and recorded (known) genuine defects. fix commits in /repo: ' + '; '.join(commits),
    }
    json.dump(m, open(os.path.join(V, 'MANIFEST.json'), 'w'), indent=1)
    print('wrote MANIFEST.json with', len(checks), 'checks')

if __name__ == '__main__':
    main()
