#!/bin/bash
# usage: seedtest.sh <patch.diff> <Cxx> [Cyy ...]   -- apply a seeded change to a scratch copy of /repo HEAD and run checks on it
set -e
patch="$1"; shift
d=$(mktemp -d /tmp/seedtest.XXXXXX)
git -C /repo archive HEAD | tar -x -C "$d"
if ! git -C "$d" apply --unsafe-paths --directory="$d" "$patch" 2>/dev/null; then
  (cd "$d" && patch -p1 -s < "$patch") || { echo "PATCH DOES NOT APPLY: $patch"; rm -rf "$d"; exit 3; }
fi
for c in "$@"; do
  out=$(cd /verif && HEXSA_REPO="$d" HEXSA_EVIDENCE_DIR="$d/.ev" python3 -m hexsa.check "$c" 2>&1 || true)
  echo "$out" | grep -v '^VIOLATION' | cut -c1-600 | head -${SEEDTEST_LINES:-4}
  echo "$out" | tail -1
done
rm -rf "$d"
