#!/bin/bash
# usage: confirm_seed.sh <Cxx> <A|B>  -- independently confirm a seeded change produced by a sub-agent:
#   in a scratch worktree of /repo HEAD: demo passes without the patch; with the patch: builds, 129 unit tests pass, demo fails.
# On success copies patch + demo + meta.json to /verif/seeded/<Cxx>-<A|B>/ .  The scratch worktree is kept at /tmp/confirm for reuse
# (incremental builds) and must be removed with `git -C /repo worktree remove --force /tmp/confirm` at the end of a session.
id="$1"; v="$2"; src=${SEEDSRC:-/tmp/wt/out}/$id/$v; wt=/tmp/confirm
log=/tmp/confirm-$id-$v.log; : > $log
if [ ! -d $wt ]; then git -C /repo worktree add --detach $wt HEAD >>$log 2>&1; fi
git -C $wt checkout -q --detach $(git -C /repo rev-parse HEAD) >>$log 2>&1; git -C $wt checkout -- . ; git -C $wt clean -fdq -e _build
build(){ (cd $wt && cmake -G Ninja -B _build -DCMAKE_BUILD_TYPE=RelWithDebInfo -DCMAKE_CXX_FLAGS=-Wno-error >/dev/null 2>&1 && cmake --build _build -j16 >>$log 2>&1); }
arg=$wt
demo(){ d=$(ls $src/demo.* | grep -v '\.log$' | grep -v '\.cpp$' | head -1); case "$d" in *.py) python3 $d $arg >>$log 2>&1;; *.sh) bash $d $arg >>$log 2>&1;; esac; }
build || { echo "$id/$v: BASELINE BUILD FAILED"; exit 1; }
demo; r0=$?
if [ $r0 -ne 0 ]; then arg=$wt/_build; demo; r0=$?; fi
if ! git -C $wt apply $src/patch.diff 2>>$log; then (cd $wt && patch -p1 -s < $src/patch.diff >>$log 2>&1) || { echo "$id/$v: PATCH DOES NOT APPLY on HEAD"; git -C $wt checkout -- .; exit 1; }; fi
if build; then b=ok; else b=FAIL; fi
t=$(cd $wt/_build/tests/unit && ./UnitTests --color_output=no 2>&1 | grep -a -E "No errors detected|failure|error" | tail -1)
demo; r1=$?
git -C $wt checkout -- . ; git -C $wt clean -fdq -e _build
echo "$id/$v: demo-without-patch rc=$r0 | build-with-patch=$b | tests: $t | demo-with-patch rc=$r1"
if [ $r0 -eq 0 ] && [ "$b" = ok ] && [ $r1 -ne 0 ] && echo "$t" | grep -q "No errors detected"; then
  out=/verif/seeded/$id-$v; mkdir -p $out; cp $src/patch.diff $out/; for f in $src/demo.* $src/*.cpp $src/NOTES.md; do [ -f "$f" ] && case "$f" in *.log) ;; *) cp "$f" $out/;; esac; done
  echo CONFIRMED
else echo NOT-CONFIRMED; fi
