"""Engine V: Verilator's elaborated XML AST -> the term algebra (demand-driven, hierarchical)."""
import re
import xml.etree.ElementTree as ET
from .terms import *
from .frontend import AnalysisBroken, verilator_xml

STMT = {'assign', 'assigndly', 'contassign', 'case', 'if', 'begin', 'display', 'dumpctl', 'comment', 'stop', 'finish'}


def parse_const(s):
    m = re.match(r"(\d+)'(s?)([hbdo])([0-9a-fA-FxXzZ_?]+)$", s)
    if not m:
        raise AnalysisBroken('unsupported Verilog constant ' + s)
    w = int(m.group(1))
    digs = m.group(4).replace('_', '')
    if any(c in 'xXzZ?' for c in digs):
        return w, None
    base_ = {'h': 16, 'b': 2, 'd': 10, 'o': 8}[m.group(3)]
    return w, int(digs, base_)


class Module:
    def __init__(self, design, node):
        self.d = design
        self.node = node
        self.name = node.get('name')
        self.vars = {v.get('name'): v for v in node.findall('var')}
        self.funcs = {f.get('name'): f for f in node.findall('func')}
        self.cont = {}
        self.cont_partial = {}
        self.comb = []
        self.ff = []
        self.initial = node.findall('initial')
        self.instances = {i.get('name'): i for i in node.findall('instance')}
        self.cont_elem = {}
        direct = set(id(c) for c in node.findall('contassign'))
        for c in node.iter('contassign'):
            lhs = c[1]
            if lhs.tag == 'varref' and id(c) in direct:
                self.cont[lhs.get('name')] = c[0]
            elif lhs.tag == 'varref':
                # inside a generate block: same meaning as at module level
                self.cont[lhs.get('name')] = c[0]
            elif lhs.tag == 'arraysel' and lhs[0].tag == 'varref' and lhs[1].tag == 'const':
                # element of a combinational (unpacked) array, e.g. from a generate loop:  assign bytes[i] = word[8*i +: 8]
                k_ = parse_const(lhs[1].get('name'))[1]
                self.cont_elem.setdefault(lhs[0].get('name'), {})[k_] = c[0]
            else:
                raise AnalysisBroken('continuous assignment to a non-simple target in module %s (%s)' % (self.name, lhs.tag))
        for a in node.findall('always'):
            (self.ff if a.find('sentree') is not None else self.comb).append(a)
        self.combdrv = {}
        for a in self.comb:
            for n in lhs_names(a):
                self.combdrv[n] = a
        self.ffdrv = {}
        for a in self.ff:
            for n in lhs_names(a):
                self.ffdrv[n] = a
        # nets driven by an instance output port
        self.instdrv = {}
        for iname, inst in self.instances.items():
            for p in inst.findall('port'):
                if p.get('direction') == 'out' and len(p) and p[0].tag == 'varref':
                    self.instdrv[p[0].get('name')] = (iname, p.get('name'))

    def loc(self, node):
        l = (node.get('loc') or '').split(',')
        if len(l) >= 2:
            return '%s:%s' % (self.d.files.get(l[0], l[0]), l[1])
        return '?'


def lhs_names(node):
    out = set()
    for e in node.iter():
        if e.tag in ('assign', 'assigndly'):
            l = e[1]
            while l.tag != 'varref':
                l = l[0]
            out.add(l.get('name'))
    return out


class Design:
    def __init__(self, xml_text):
        self.root = ET.fromstring(xml_text)
        self.types = {}
        tt = self.root.find('.//typetable')
        for d in tt:
            self.types[d.get('id')] = d
        self.files = {}
        for f in self.root.iter('file'):
            fn = f.get('filename') or ''
            self.files[f.get('id')] = fn.split('/verilog/')[-1] if '/verilog/' in fn else fn.split('/')[-1]
            if '/verilog/' in fn:
                self.files[f.get('id')] = 'verilog/' + fn.split('/verilog/')[-1]
            elif '/synth/' in fn:
                self.files[f.get('id')] = 'synth/' + fn.split('/synth/')[-1]
        self.modules = {m.get('name'): Module(self, m) for m in self.root.iter('module')}
        self.top = next((m.get('name') for m in self.root.iter('module') if m.get('topModule') == '1'), None)

    def width(self, dt):
        d = self.types[dt]
        if d.tag == 'basicdtype':
            if d.get('left') is None:
                return 1
            return abs(int(d.get('left')) - int(d.get('right'))) + 1
        if d.tag in ('refdtype', 'enumdtype'):
            return self.width(d.get('sub_dtype_id'))
        if d.tag == 'structdtype':
            return sum(self.width(m.get('sub_dtype_id')) for m in d)
        if d.tag == 'unpackarraydtype':
            return self.width(d.get('sub_dtype_id'))
        raise AnalysisBroken('unsupported Verilog type ' + d.tag)

    def is_array(self, dt):
        return self.types[dt].tag == 'unpackarraydtype'

    def array_depth(self, dt):
        d = self.types[dt]
        r = d.find('range')
        if r is None:
            return None
        vals = [parse_const(c.get('name'))[1] for c in r.findall('const')]
        return abs(vals[0] - vals[1]) + 1 if len(vals) == 2 else None

    def signed(self, dt):
        d = self.types[dt]
        if d.tag == 'basicdtype':
            return d.get('signed') == 'true'
        if d.tag in ('refdtype', 'enumdtype'):
            return self.signed(d.get('sub_dtype_id'))
        return False


class Scope:
    def __init__(self, design, modname, path, parent=None, inst=None):
        self.d = design
        if modname not in design.modules:
            raise AnalysisBroken('module %s not found in the elaborated design' % modname)
        self.m = design.modules[modname]
        self.path = path
        self.parent = parent
        self.ports = {}
        if inst is not None:
            for p in inst.findall('port'):
                self.ports[p.get('name')] = (p.get('direction'), p[0] if len(p) else None)
        self.children = {}

    def child(self, iname):
        if iname not in self.children:
            inst = self.m.instances[iname]
            self.children[iname] = Scope(self.d, inst.get('defName'), self.path + '.' + iname, self, inst)
        return self.children[iname]


class Eval:
    """Demand-driven evaluation of nets.  `overrides` maps hierarchical net names to terms (inputs, assumed
    values, cut points); state elements and free inputs default to a variable named by `namer`."""

    def __init__(self, design, top=None, overrides=None, namer=None):
        self.d = design
        self.root = Scope(design, top or design.top, top or design.top)
        self.ov = dict(overrides or {})
        self.cache = {}
        self.busy = set()
        self.namer = namer or (lambda full, w: var(full, w))
        self.used_free = {}

    def scope(self, path):
        parts = path.split('.')
        s = self.root
        assert parts[0] == s.path, (path, s.path)
        for p in parts[1:]:
            s = s.child(p)
        return s

    # -- nets ------------------------------------------------------------------------------------
    def net(self, sc, name):
        full = sc.path + '.' + name
        if full in self.ov:
            return self.ov[full]
        if full in self.cache:
            return self.cache[full]
        if full in self.busy:
            raise AnalysisBroken('combinational loop through ' + full)
        self.busy.add(full)
        try:
            m = sc.m
            if name not in m.vars:
                raise AnalysisBroken('unknown net ' + full)
            w = self.d.width(m.vars[name].get('dtype_id'))
            if name in m.cont:
                v = self.fit(self.expr(m.cont[name], sc, {}), w)
            elif name in m.combdrv:
                env = {}
                self.block(m.combdrv[name], sc, env, T, [])
                for k, val in env.items():
                    self.cache[sc.path + '.' + k] = val
                if name not in env:
                    raise AnalysisBroken('net %s not assigned on every path of its always_comb' % full)
                v = env[name]
            elif name in m.instdrv:
                iname, port = m.instdrv[name]
                v = self.fit(self.net(sc.child(iname), port), w)
            elif name in m.ffdrv:
                v = self.free(full, w)
            elif m.vars[name].get('dir') == 'input' and sc.parent is not None:
                d_, e = sc.ports.get(name, (None, None))
                if e is None:
                    v = self.free(full, w)
                else:
                    v = self.fit(self.expr(e, sc.parent, {}), w)
            else:
                var_ = m.vars[name]
                if len(var_) and var_[0].tag == 'const':
                    v = self.expr(var_[0], sc, {})
                else:
                    v = self.free(full, w)
            self.cache[full] = v
            return v
        finally:
            self.busy.discard(full)

    def free(self, full, w):
        v = self.namer(full, w)
        self.used_free[full] = w
        return v

    def fit(self, v, w, signed=False):
        if v.w == w:
            return v
        if v.w > w:
            return trunc(v, w)
        return sext(v, w) if signed else zext(v, w)

    # -- statements ------------------------------------------------------------------------------
    def block(self, node, sc, env, guard, writes):
        for s in node:
            self.stmt(s, sc, env, guard, writes)

    def assign(self, lhs, val, sc, env, guard, writes):
        if lhs.tag == 'varref':
            name = lhs.get('name')
            w = self.d.width(lhs.get('dtype_id'))
            env[name] = self.fit(val, w)
        elif lhs.tag == 'arraysel':
            idx = self.expr(lhs[1], sc, env)
            arr = lhs[0]
            if arr.tag != 'varref':
                raise AnalysisBroken('unsupported array write target')
            writes.append((sc.path + '.' + arr.get('name'), guard, idx, val))
        elif lhs.tag == 'sel':
            # partial assignment x[lo +: w] = v
            tgt = lhs[0]
            if tgt.tag != 'varref':
                raise AnalysisBroken('unsupported part-select target')
            name = tgt.get('name')
            lo = self.expr(lhs[1], sc, env)
            wd = self.expr(lhs[2], sc, env)
            if not (lo.isconst() and wd.isconst()):
                raise AnalysisBroken('dynamic part-select assignment')
            old = env[name] if name in env else self._old(sc, name)
            ob = bitsof(old)
            nb = bitsof(self.fit(val, wd.c))
            env[name] = from_bits(ob[:lo.c] + nb + ob[lo.c + wd.c:])
        else:
            raise AnalysisBroken('unsupported assignment target ' + lhs.tag)

    def _old(self, sc, name):
        if name in sc.m.ffdrv:
            return self.net(sc, name)
        raise AnalysisBroken('latch inferred for %s.%s (not assigned on every path)' % (sc.path, name))

    def _merge(self, c, et, ef, sc, env):
        for name in sorted(set(et) | set(ef)):
            vt = et.get(name)
            vf = ef.get(name)
            if vt is None:
                vt = env[name] if name in env else self._old(sc, name)
            if vf is None:
                vf = env[name] if name in env else self._old(sc, name)
            env[name] = ite(c, vt, vf)

    def _branch(self, c, then_stmts, else_fn, sc, env, guard, writes):
        """if (c) then_stmts else else_fn()  with branch-local environments merged by ite."""
        if c == T:
            for st in then_stmts:
                self.stmt(st, sc, env, guard, writes)
            return
        if c == F:
            else_fn(env, guard)
            return
        et = _Overlay(env)
        for st in then_stmts:
            self.stmt(st, sc, et, p_and(guard, c), writes)
        ef = _Overlay(env)
        else_fn(ef, p_and(guard, p_not(c)))
        self._merge(c, et.new, ef.new, sc, env)

    def stmt(self, s, sc, env, guard, writes):
        t = s.tag
        if t in ('sentree', 'comment', 'dumpctl'):
            return
        if t in ('stop', 'finish', 'display'):
            # $stop / $finish / $error / $display in a clocked block: an effect outside the design state (simulation ends, text on
            # stdout); recorded as a write to a pseudo store named after the task, enabled by the path condition
            writes.append(('$' + t, guard, const(1, 0), const(1, 0)))
            return
        if t in ('assign', 'assigndly'):
            self.assign(s[1], self.expr(s[0], sc, env), sc, env, guard, writes)
        elif t == 'begin':
            self.block(s, sc, env, guard, writes)
        elif t == 'if':
            c = v_to_pred(self.expr(s[0], sc, env))
            els = [s[2]] if len(s) > 2 else []

            def else_fn(e, g):
                for st in els:
                    self.stmt(st, sc, e, g, writes)
            self._branch(c, [s[1]], else_fn, sc, env, guard, writes)
        elif t == 'case':
            sel_ = self.expr(s[0], sc, env)
            items = []
            for item in s[1:]:
                conds = [c for c in item if c.tag not in STMT]
                stmts = [c for c in item if c.tag in STMT]
                if conds:
                    m = F
                    for c in conds:
                        m = p_or(m, p_eq(sel_, self.fit(self.expr(c, sc, env), sel_.w)))
                else:
                    m = T
                items.append((m, stmts))

            def chain(i, e, g):
                if i >= len(items):
                    return
                m, stmts = items[i]
                self._branch(m, stmts, lambda e2, g2: chain(i + 1, e2, g2), sc, e, g, writes)
            chain(0, env, guard)
        else:
            raise AnalysisBroken('unsupported Verilog statement <%s> at %s' % (t, sc.m.loc(s)))

    # -- expressions -----------------------------------------------------------------------------
    def expr(self, e, sc, env):
        t = e.tag
        d = self.d
        w = d.width(e.get('dtype_id')) if e.get('dtype_id') else None
        if t == 'const':
            cw, n = parse_const(e.get('name'))
            if n is None:
                return app('X', cw)
            return const(cw, n)
        if t == 'varref':
            n = e.get('name')
            if n in env:
                return env[n]
            return self.net(sc, n)
        if t == 'funcref':
            f = sc.m.funcs.get(e.get('name'))
            if f is None:
                raise AnalysisBroken('unknown function ' + e.get('name'))
            fvars = [v for v in f.findall('var')]
            out = fvars[0].get('name')
            ins = fvars[1:]
            args = [self.expr(a[0], sc, env) for a in e.findall('arg')]
            fenv = {}
            for v_, a in zip(ins, args):
                fenv[v_.get('name')] = self.fit(a, d.width(v_.get('dtype_id')))
            for s in f:
                if s.tag in STMT:
                    self.stmt(s, sc, fenv, T, [])
            return fenv[out]
        if t == 'arraysel':
            arr = e[0]
            idx = self.expr(e[1], sc, env)
            if arr.tag != 'varref':
                raise AnalysisBroken('unsupported array read')
            full = sc.path + '.' + arr.get('name')
            if full in self.ov and callable(self.ov[full]):
                return self.ov[full](idx)
            elems = sc.m.cont_elem.get(arr.get('name'))
            if elems:
                # a combinational array: the element the index selects
                ks = sorted(elems)
                vals = {k_: self.expr(elems[k_], sc, env) for k_ in ks}
                if idx.isconst():
                    if idx.c not in vals:
                        raise AnalysisBroken('read of undriven element %d of %s' % (idx.c, full))
                    return vals[idx.c]
                res = vals[ks[-1]]
                for k_ in reversed(ks[:-1]):
                    res = ite(p_eq(idx, const(idx.w, k_)), vals[k_], res)
                return res
            if arr.get('name') not in sc.m.ffdrv and arr.get('name') not in getattr(sc.m, 'memories', ()) and not any(
                    arr.get('name') == n_ for n_ in sc.m.ffdrv):
                drivers = [a for a in sc.m.comb if arr.get('name') in lhs_names(a)]
                if drivers:
                    raise AnalysisBroken('array net %s is driven by a combinational block: not modelled' % full)
            return mem(full, idx)
        ch = [self.expr(c, sc, env) for c in e]
        if t == 'sel':
            a, lo, wd = ch
            if not wd.isconst():
                raise AnalysisBroken('non-constant select width')
            if lo.isconst():
                return sel(a, lo.c, wd.c)
            return dyn_extract(a, lo, wd.c)
        if t == 'extend':
            return zext(ch[0], w)
        if t == 'extends':
            return sext(ch[0], w)
        if t in ('add', 'sub'):
            a, b = [self.fit(x, w) for x in ch]
            return add(a, b) if t == 'add' else sub(a, b)
        if t == 'negate':
            return neg(self.fit(ch[0], w))
        if t in ('and', 'or', 'xor'):
            a, b = ch
            if a.w == 1 and b.w == 1 and not (a.isconst() and b.isconst()) and t != 'xor':
                if not _has_x(a) and not _has_x(b):
                    pa, pb = v_to_pred(a), v_to_pred(b)
                    return pred_to_v(p_and(pa, pb) if t == 'and' else p_or(pa, pb))
            a, b = self.fit(a, w), self.fit(b, w)
            return bitop(t, a, b)
        if t in ('logand', 'logor'):
            pa, pb = v_to_pred(ch[0]), v_to_pred(ch[1])
            return pred_to_v(p_and(pa, pb) if t == 'logand' else p_or(pa, pb))
        if t in ('eq', 'eqcase', 'eqwild'):
            a, b = ch
            ww = max(a.w, b.w)
            return pred_to_v(p_eq(self.fit(a, ww), self.fit(b, ww)))
        if t in ('neq', 'neqcase', 'neqwild'):
            a, b = ch
            ww = max(a.w, b.w)
            return pred_to_v(p_not(p_eq(self.fit(a, ww), self.fit(b, ww))))
        if t in ('gts', 'lts', 'gtes', 'ltes'):
            a, b = ch
            if t == 'gts' and a.isconst() and a.c == 0:      # 0 > x
                return pred_to_v(p_slt0(b))
            if t == 'lts' and b.isconst() and b.c == 0:      # x < 0
                return pred_to_v(p_slt0(a))
            if t == 'gtes' and b.isconst() and b.c == 0:     # x >= 0
                return pred_to_v(p_not(p_slt0(a)))
            if t == 'ltes' and a.isconst() and a.c == 0:     # 0 <= x
                return pred_to_v(p_not(p_slt0(b)))
            return app(t, 1, a, b)
        if t in ('gt', 'lt', 'gte', 'lte'):
            a, b = ch
            ww = max(a.w, b.w)
            return app(t, 1, self.fit(a, ww), self.fit(b, ww))
        if t == 'cond':
            c, a, b = ch
            return ite(v_to_pred(c), self.fit(a, w), self.fit(b, w))
        if t == 'shiftl':
            a, n = ch
            if not n.isconst():
                return app('dynshl', w, self.fit(a, w), n)
            return shl(self.fit(a, w), n.c)
        if t == 'shiftr':
            a, n = ch
            if not n.isconst():
                return dyn_extract(self.fit(a, w), n, w)
            return shr(self.fit(a, w), n.c)
        if t == 'shiftrs':
            a, n = ch
            if not n.isconst():
                return app('dynashr', w, a, n)
            return ashr(self.fit(a, w), n.c)
        if t == 'not':
            return bnot(self.fit(ch[0], w))
        if t == 'lognot':
            return pred_to_v(p_not(v_to_pred(ch[0])))
        if t == 'redor':
            return pred_to_v(p_not(p_eq(ch[0], const(ch[0].w, 0))))
        if t == 'redand':
            return pred_to_v(p_eq(ch[0], const(ch[0].w, (1 << ch[0].w) - 1)))
        if t == 'concat':
            return concat(ch[0], ch[1])
        if t == 'replicate':
            a, n = ch
            if not n.isconst():
                raise AnalysisBroken('non-constant replication')
            out = a
            for _ in range(n.c - 1):
                out = concat(out, a)
            return out
        if t in ('ccast', 'cast'):
            return self.fit(ch[0], w)
        if t in ('testplusargs', 'time', 'sformatf'):
            return app(t, w or 1)
        raise AnalysisBroken('unsupported Verilog expression <%s> at %s' % (t, sc.m.loc(e)))

    # -- clocked behaviour -----------------------------------------------------------------------
    def next_state(self, sc):
        """({register name: next value}, [(array, guard, index, value)], {register: block}) of scope sc."""
        nxt = {}
        writes = []
        for ff in sc.m.ff:
            env = {}
            self.block(ff, sc, env, T, writes)
            for k, v in env.items():
                nxt[k] = v
        return nxt, writes


class _Overlay(dict):
    """Branch-local environment: reads fall through to the parent, writes are recorded in .new"""

    def __init__(self, parent):
        dict.__init__(self)
        self.parent = parent
        self.new = {}

    def __contains__(self, k):
        return k in self.new or k in self.parent

    def __getitem__(self, k):
        if k in self.new:
            return self.new[k]
        return self.parent[k]

    def __setitem__(self, k, v):
        self.new[k] = v

    def get(self, k, d=None):
        return self[k] if k in self else d

    def items(self):
        ks = {}
        p = self
        while isinstance(p, _Overlay):
            for k, v in p.new.items():
                ks.setdefault(k, v)
            p = p.parent
        for k, v in p.items():
            ks.setdefault(k, v)
        return ks.items()


def _has_x(v):
    return any(a[1][0] == 'app' and a[1][1] == 'X' for a in v.terms)


def load(files, top, defines=()):
    return Design(verilator_xml(files, top, defines))
