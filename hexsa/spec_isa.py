"""The Hex architecture definition as data, in the term algebra.

Source: docs/PDFs/hexb.pdf (D. May, "The Hex Architecture", reference simulator pp. 7-10):

    inst = pmem[pc]; pc = pc + 1; oreg = oreg | (inst & 0xf);
    switch ((inst >> 4) & 0xf) {
      ldam: areg = mem[oreg]; oreg = 0;      ldbm: breg = mem[oreg]; oreg = 0;   stam: mem[oreg] = areg; oreg = 0;
      ldac: areg = oreg; oreg = 0;           ldbc: breg = oreg; oreg = 0;        ldap: areg = pc + oreg; oreg = 0;
      ldai: areg = mem[areg+oreg]; oreg = 0; ldbi: breg = mem[breg+oreg]; oreg = 0; stai: mem[breg+oreg] = areg; oreg = 0;
      br: pc = pc + oreg; oreg = 0;          brz: if (areg == 0) pc = pc + oreg; oreg = 0;
      brn: if ((int)areg < 0) pc = pc + oreg; oreg = 0;
      pfix: oreg = oreg << 4;                nfix: oreg = 0xFFFFFF00 | (oreg << 4);
      opr: switch (oreg) { brb: pc = breg; add: areg = areg + breg; sub: areg = areg - breg; svc: svc(); } oreg = 0;
    }
    svc(): sp = mem[1]; switch (areg) { 0: running = false; 1: simout(mem[sp+2], mem[sp+3]);
                                        2: mem[sp+1] = simin(mem[sp+2]) & 0xFF; }
    simout(b, s): s < 256 ? putchar(b) : file (s>>8)&7, opened once;   simin likewise.
    load(): length word (little-endian) << 2 bytes copied to pmem[0..].

hexsim's documented extension (README, hexsim.hpp): the exit value of the run is mem[sp+2].
Undefined by the ISA and excluded from every comparison: opcode 0xC, OPR operands above 3, svc above 2.
"""
from .terms import *

OPCODES = {'LDAM': 0, 'LDBM': 1, 'STAM': 2, 'LDAC': 3, 'LDBC': 4, 'LDAP': 5, 'LDAI': 6, 'LDBI': 7, 'STAI': 8,
           'BR': 9, 'BRZ': 10, 'BRN': 11, 'OPR': 13, 'PFIX': 14, 'NFIX': 15}
OPR = {'BRB': 0, 'ADD': 1, 'SUB': 2, 'SVC': 3}
SYSCALL = {'EXIT': 0, 'WRITE': 1, 'READ': 2}
PC_RELATIVE = {'BR', 'BRZ', 'BRN', 'LDAP', 'LDAI', 'LDBI', 'STAI'}
ABSOLUTE = {'LDAM', 'LDBM', 'STAM', 'LDAC', 'LDBC'}
IMMEDIATE_MNEMONICS = ['LDAM', 'LDBM', 'STAM', 'LDAC', 'LDBC', 'LDAP', 'LDAI', 'LDBI', 'STAI', 'BR', 'BRZ', 'BRN']
MNEMONIC_OF = {v: k for k, v in OPCODES.items()}


def defined(byte):
    opc = byte >> 4
    if opc == 12:
        return False
    return True


class Leaf:
    """One ISA outcome of a step: condition + successor state + effects."""

    def __init__(self, cond, **kw):
        self.cond = cond
        self.pc = kw.get('pc')
        self.areg = kw.get('areg')
        self.breg = kw.get('breg')
        self.oreg = kw.get('oreg')
        self.stores = kw.get('stores', [])
        self.events = kw.get('events', [])
        self.running = kw.get('running', True)
        self.exit = kw.get('exit')
        self.undefined = kw.get('undefined', False)
        self.what = kw.get('what', '')


def step(byte, PC=None, A=None, B=None, O=None, M=None, inval=None):
    """ISA leaves for instruction byte `byte` from the symbolic pre-state.  M(addr) reads data memory."""
    PC = var('PC', 32) if PC is None else PC
    A = var('A', 32) if A is None else A
    B = var('B', 32) if B is None else B
    O = var('O', 32) if O is None else O
    M = M or (lambda a: mem('MEM', a))
    pc1 = add(PC, const(32, 1))
    o1 = bitop('or', O, const(32, byte & 15))
    opc = byte >> 4
    Z = const(32, 0)
    leaves = []

    def leaf(c=T, **kw):
        d = dict(pc=pc1, areg=A, breg=B, oreg=Z)
        d.update(kw)
        leaves.append(Leaf(c, **d))
    if opc == 0:
        leaf(areg=M(o1), what='LDAM')
    elif opc == 1:
        leaf(breg=M(o1), what='LDBM')
    elif opc == 2:
        leaf(stores=[(o1, A)], what='STAM')
    elif opc == 3:
        leaf(areg=o1, what='LDAC')
    elif opc == 4:
        leaf(breg=o1, what='LDBC')
    elif opc == 5:
        leaf(areg=add(pc1, o1), what='LDAP')
    elif opc == 6:
        leaf(areg=M(add(A, o1)), what='LDAI')
    elif opc == 7:
        leaf(breg=M(add(B, o1)), what='LDBI')
    elif opc == 8:
        leaf(stores=[(add(B, o1), A)], what='STAI')
    elif opc == 9:
        leaf(pc=add(pc1, o1), what='BR')
    elif opc == 10:
        z = p_eq(A, Z)
        leaf(z, pc=add(pc1, o1), what='BRZ taken')
        leaf(p_not(z), what='BRZ not taken')
    elif opc == 11:
        ng = p_slt0(A)
        leaf(ng, pc=add(pc1, o1), what='BRN taken')
        leaf(p_not(ng), what='BRN not taken')
    elif opc == 14:
        leaf(oreg=shl(o1, 4), what='PFIX')
    elif opc == 15:
        leaf(oreg=bitop('or', const(32, 0xFFFFFF00), shl(o1, 4)), what='NFIX')
    elif opc == 13:
        def e(k):
            return p_eq(o1, const(32, k))
        leaf(e(0), pc=B, what='OPR BRB')
        leaf(e(1), areg=add(A, B), what='OPR ADD')
        leaf(e(2), areg=sub(A, B), what='OPR SUB')
        sp = M(const(32, 1))
        s3 = e(3)

        def a(k):
            return p_and(s3, p_eq(A, const(32, k)))
        leaf(a(0), running=False, exit=M(add(sp, const(32, 2))), what='SVC EXIT')
        leaf(a(1), events=[('output', trunc(M(add(sp, const(32, 2))), 8), M(add(sp, const(32, 3))))], what='SVC WRITE')
        i1 = inval if inval is not None else var('IN1', 8)
        leaf(a(2), events=[('input', M(add(sp, const(32, 2))))], stores=[(add(sp, const(32, 1)), zext(i1, 32))], what='SVC READ')
        undef = p_not(p_or(p_or(e(0), e(1)), p_or(e(2), s3)))
        leaf(undef, undefined=True, what='OPR operand > 3 (undefined)')
        ua = p_and(s3, p_not(p_or(p_or(p_eq(A, Z), p_eq(A, const(32, 1))), p_eq(A, const(32, 2)))))
        leaf(ua, undefined=True, what='SVC number > 2 (undefined)')
    elif opc == 12:
        leaf(undefined=True, what='opcode 0xC (undefined)')
    return leaves


def fetch_byte(word, pc):
    """Byte `pc & 3` of the little-endian word: the canonical form both implementations must produce."""
    return app('bytesel', 8, word, sel(pc, 0, 2))


def decode_prefix_chain(byte_terms):
    """Fold a sequence of instruction bytes (each: (opcode int, 4-bit operand term)) with the ISA prefix rule from
    oreg = 0.  Returns (oreg term presented to the last instruction, list of opcodes)."""
    o = const(32, 0)
    for i, (opc, opr) in enumerate(byte_terms):
        o1 = bitop('or', o, zext(opr, 32))
        if i == len(byte_terms) - 1:
            return o1
        if opc == 14:
            o = shl(o1, 4)
        elif opc == 15:
            o = bitop('or', const(32, 0xFFFFFF00), shl(o1, 4))
        else:
            o = const(32, 0)
    return o


# size of the simulated memory (hexsim.hpp MEMORY_SIZE_WORDS = 200000 words): addresses at or beyond it are outside every property
MEMORY_WORDS = 200000
MEMORY_BYTES = 4 * MEMORY_WORDS
