"""Structured control-flow analysis over clang's statement AST.

The repository has no goto (a GotoStmt makes the analysis fail), so the control-flow graph is implied by
the statement structure.  `Flow.run` pushes *sets of abstract states* through a statement and returns
the states per way of leaving it (fall through, break, continue, return, throw).  Loops are iterated to
a fixed point, so the client domain must be finite.  Clients supply the transfer functions.
"""
from .cast import children, strip_noncast
from .frontend import AnalysisBroken


class Out:
    __slots__ = ('normal', 'brk', 'cont', 'ret', 'thr')

    def __init__(self):
        self.normal = set()
        self.brk = set()
        self.cont = set()
        self.ret = set()    # (state, id(return stmt)) pairs
        self.thr = set()    # (state, thrown type string) pairs

    def absorb(self, o, normal=False):
        if normal:
            self.normal |= o.normal
        self.brk |= o.brk
        self.cont |= o.cont
        self.ret |= o.ret
        self.thr |= o.thr


class Client:
    """Default transfer functions: everything is the identity."""

    def expr(self, e, s):
        """States after evaluating full-expression e in state s (iterable)."""
        return [s]

    def cond(self, e, s):
        """(states if true, states if false)."""
        r = list(self.expr(e, s))
        return r, r

    def decl(self, d, s):
        """VarDecl with optional initialiser."""
        out = [s]
        for c in children(d):
            if c.get('kind') not in (None, 'ParmVarDecl') and 'kind' in c:
                nxt = []
                for x in out:
                    nxt += list(self.expr(c, x))
                out = nxt
        return out

    def ret(self, stmt, s):
        """States at a return statement (after evaluating its operand)."""
        ch = children(stmt)
        if ch:
            return list(self.expr(ch[0], s))
        return [s]

    def throws(self, e, s):
        """Exceptions an expression may raise in state s: iterable of (state, type)."""
        return []

    def case(self, switch_expr, values, s):
        """States entering a case label (values = list of ints, or None for default/implicit)."""
        return [s]

    def catches(self, handler_type, thrown_type):
        """Does a handler of `handler_type` (None = catch-all) catch `thrown_type`?"""
        return True

    def enter_catch(self, catch_stmt, s):
        return [s]

    def loop_back(self, s):
        return s

    def loop_back_node(self, n, s):
        """State on the back edge of loop statement n (default: loop_back)."""
        return self.loop_back(s)

    def enter(self, n, s):
        """Called when control enters statement n in state s; returns the states to continue with."""
        return [s]


class Flow:
    def __init__(self, client, idx=None, max_iter=200):
        self.c = client
        self.idx = idx
        self.max_iter = max_iter
        self.returns = {}

    # -- helpers ---------------------------------------------------------------------------
    def _expr_states(self, e, states, out):
        res = set()
        for s in states:
            for (s2, t) in self.c.throws(e, s):
                out.thr.add((s2, t))
            for s2 in self.c.expr(e, s):
                res.add(s2)
        return res

    def _cond_states(self, e, states, out):
        ts, fs = set(), set()
        for s in states:
            for (s2, t) in self.c.throws(e, s):
                out.thr.add((s2, t))
            a, b = self.c.cond(e, s)
            ts |= set(a)
            fs |= set(b)
        return ts, fs

    def run(self, n, states):
        out = Out()
        states = set(states)
        if not n or 'kind' not in n:
            out.normal = states
            return out
        if not states:
            return out
        ent = set()
        for s_ in states:
            ent |= set(self.c.enter(n, s_))
        states = ent
        k = n['kind']
        ch = children(n)
        if k == 'CompoundStmt':
            cur = states
            for c in ch:
                o = self.run(c, cur)
                out.absorb(o)
                cur = o.normal
                if not cur:
                    break
            out.normal = cur
            return out
        if k == 'NullStmt':
            out.normal = states
            return out
        if k == 'DeclStmt':
            cur = states
            for d in ch:
                if d['kind'] == 'VarDecl':
                    nxt = set()
                    for s in cur:
                        for c in children(d):
                            if 'kind' in c:
                                for (s2, t) in self.c.throws(c, s):
                                    out.thr.add((s2, t))
                        nxt |= set(self.c.decl(d, s))
                    cur = nxt
            out.normal = cur
            return out
        if k == 'IfStmt':
            i = 0
            cur = states
            if n.get('hasInit'):
                o = self.run(ch[i], cur)
                out.absorb(o)
                cur = o.normal
                i += 1
            var_decl = None
            if n.get('hasVar'):
                o = self.run(ch[i], cur)
                out.absorb(o)
                cur = o.normal
                var_decl = ch[i]
                i += 1
            # `if (auto v = init)`: the condition proper is just `v`; clients that ask for it are shown the declaration (with init)
            cnode = var_decl if (var_decl is not None and getattr(self.c, 'cond_sees_var_init', False)) else ch[i]
            ts, fs = self._cond_states(cnode, cur, out)
            o = self.run(ch[i + 1], ts)
            out.absorb(o, True)
            if len(ch) > i + 2:
                o = self.run(ch[i + 2], fs)
                out.absorb(o, True)
            else:
                out.normal |= fs
            return out
        if k in ('WhileStmt', 'ForStmt', 'DoStmt', 'CXXForRangeStmt'):
            return self._loop(n, states)
        if k == 'SwitchStmt':
            return self._switch(n, states)
        if k == 'BreakStmt':
            out.brk = states
            return out
        if k == 'ContinueStmt':
            out.cont = states
            return out
        if k == 'ReturnStmt':
            for s in states:
                if ch:
                    for (s2, t) in self.c.throws(ch[0], s):
                        out.thr.add((s2, t))
                for s2 in self.c.ret(n, s):
                    out.ret.add((s2, n['id']))
                    self.returns[n['id']] = n
            return out
        if k == 'CXXTryStmt':
            body = ch[0]
            o = self.run(body, states)
            out.normal |= o.normal
            out.brk |= o.brk
            out.cont |= o.cont
            out.ret |= o.ret
            pending = set(o.thr)
            for h in ch[1:]:
                hch = children(h)
                var = hch[0] if hch and hch[0].get('kind') == 'VarDecl' else None
                htype = var.get('type', {}).get('qualType') if var else None
                hbody = hch[-1]
                caught = {(s, t) for (s, t) in pending if self.c.catches(htype, t)}
                pending -= {(s, t) for (s, t) in caught if t != '*'}
                entry = set()
                for (s, t) in caught:
                    entry |= set(self.c.enter_catch(h, s))
                ho = self.run(hbody, entry)
                out.absorb(ho, True)
            out.thr |= pending
            return out
        if k in ('GotoStmt', 'LabelStmt', 'IndirectGotoStmt'):
            raise AnalysisBroken('goto/label in analysed function (unsupported construct)')
        if k in ('CaseStmt', 'DefaultStmt'):
            # reached only outside _switch flattening
            return self.run(ch[-1], states)
        # expression statement
        out.normal = self._expr_states(n, states, out)
        return out

    def _loop(self, n, states):
        out = Out()
        k = n['kind']
        ch = n.get('inner', [])
        cur = states
        cond = inc = body = None
        if k == 'WhileStmt':
            cc = children(n)
            if n.get('hasVar'):
                cc = cc[1:]
            cond, body = cc[0], cc[1]
        elif k == 'DoStmt':
            cc = children(n)
            body, cond = cc[0], cc[1]
        elif k == 'ForStmt':
            init, _var, cond, inc, body = (ch + [None] * 5)[:5]
            if init and 'kind' in init:
                o = self.run(init, cur)
                out.absorb(o)
                cur = o.normal
        else:  # CXXForRangeStmt: [init?, range, begin, end, cond, inc, loopvar, body]
            body = ch[-1]
            cond = None
            for pre in ch[:-1]:
                if pre and pre.get('kind') == 'DeclStmt':
                    pass
        head = set(cur)
        exits = set()
        first = True
        for _ in range(self.max_iter):
            if k == 'DoStmt' and first:
                ts = set(head)
            elif cond is not None and 'kind' in cond:
                ts, fs = self._cond_states(cond, head, out)
                exits |= fs
            else:
                ts = set(head)
                if k == 'CXXForRangeStmt':
                    exits |= head
            first = False
            o = self.run(body, ts)
            out.ret |= o.ret
            out.thr |= o.thr
            exits |= o.brk
            back = o.normal | o.cont
            if k == 'DoStmt':
                ts2, fs2 = self._cond_states(cond, back, out)
                exits |= fs2
                back = ts2
            if inc is not None and 'kind' in inc:
                back = self._expr_states(inc, back, out)
            back = {self.c.loop_back_node(n, s) for s in back}
            new = head | back
            if new == head:
                break
            head = new
        else:
            raise AnalysisBroken('loop did not stabilise within %d abstract iterations' % self.max_iter)
        out.normal = exits
        return out

    def _switch(self, n, states):
        out = Out()
        ch = children(n)
        i = 0
        cur = states
        if n.get('hasInit'):
            o = self.run(ch[0], cur)
            out.absorb(o)
            cur = o.normal
            i = 1
        if n.get('hasVar'):
            i += 1
        sw = ch[i]
        cur = self._expr_states(sw, cur, out)
        body = ch[i + 1]
        items = []

        def flat(c):
            if c['kind'] == 'CaseStmt':
                cc = children(c)
                items.append(('case', cc[0]))
                flat(cc[-1])
            elif c['kind'] == 'DefaultStmt':
                items.append(('default', None))
                flat(children(c)[-1])
            else:
                items.append(('stmt', c))
        for c in (children(body) if body['kind'] == 'CompoundStmt' else [body]):
            flat(c)
        from .cast import const_int
        allvals = []
        has_default = any(t == 'default' for t, _ in items)
        fall = set()
        for t, x in items:
            if t == 'case':
                v = const_int(x, self.idx)
                allvals.append(v)
                ent = set()
                for s in cur:
                    ent |= set(self.c.case(sw, [v], s))
                fall |= ent
            elif t == 'default':
                ent = set()
                for s in cur:
                    ent |= set(self.c.case(sw, None, s))
                fall |= ent
            else:
                o = self.run(x, fall)
                out.ret |= o.ret
                out.thr |= o.thr
                out.cont |= o.cont
                out.normal |= o.brk
                fall = o.normal
        out.normal |= fall
        if not has_default:
            for s in cur:
                out.normal |= set(self.c.case(sw, ('nomatch', allvals), s))
        return out


def function_paths(func, client, idx=None, init_state=None):
    """Run a function body; returns Out (normal = fell off the end)."""
    fl = Flow(client, idx)
    o = fl.run(func.body, {init_state})
    o.returns = fl.returns
    return o
