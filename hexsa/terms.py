"""Term algebra of DESIGN.md section 3.1: a value of width w is a linear form modulo 2^w over *slice atoms*.

  V(w, {slice-atom: coeff}, const)      slice-atom = ('sl', base, lo, len)
  base atoms:  ('var', name, width) | ('mem', space, addrV) | ('mod', V) | ('app', op, width, args)

Predicates are canonical too (T, F, ('eq0', V) sign-normalised, ('bit', base, i), ('not', p), ('and', ...)).
Equality of canonical forms is the *pass* criterion of engines S and V; `evaluate` gives the concrete
value of a term under an assignment and is used only to exhibit a distinguishing state when two forms
differ (refutation / diagnosability), never to pass anything.
"""
import hashlib

MEMW = 32


class V:
    __slots__ = ('w', 'terms', 'c', '_k', '_r')

    def __init__(self, w, terms, c):
        m = (1 << w) - 1
        t = {}
        for a, k in terms.items():
            k &= m
            if k:
                t[a] = k
        self.w = w
        self.terms = t
        self.c = c & m
        self._k = None
        self._r = None

    def key(self):
        if self._k is None:
            self._k = (self.w, tuple(sorted(((repr(a), k) for a, k in self.terms.items()))), self.c)
        return self._k

    def __eq__(s, o):
        return isinstance(o, V) and s.key() == o.key()

    def __ne__(s, o):
        return not s.__eq__(o)

    def __hash__(s):
        return hash(s.key())

    def isconst(s):
        return not s.terms

    def __repr__(s):
        if s._r is None:
            if s.isconst():
                s._r = "%d'h%x" % (s.w, s.c)
            else:
                parts = []
                for a, k in sorted(s.terms.items(), key=lambda kv: repr(kv[0])):
                    parts.append(("%#x*" % k if k != 1 else "") + fmt_atom(a))
                if s.c:
                    parts.append("%#x" % s.c)
                s._r = "[%d](" % s.w + " + ".join(parts) + ")"
        return s._r


def fmt_atom(a):
    _, base_, lo, ln = a
    bw = base_width(base_)
    if lo == 0 and ln == bw:
        return fmt_base(base_)
    return "%s[%d:%d]" % (fmt_base(base_), lo + ln - 1, lo)


def fmt_base(b):
    if b[0] == 'var':
        return b[1]
    if b[0] == 'mem':
        return "%s[%r]" % (b[1], b[2])
    if b[0] == 'mod':
        return "mod(%r)" % (b[1],)
    if b[0] == 'app':
        return "%s(%s)" % (b[1], ', '.join(map(repr, b[3])))
    return repr(b)


def base_width(b):
    if b[0] == 'var':
        return b[2]
    if b[0] == 'mem':
        return MEMW
    if b[0] == 'mod':
        return b[1].w
    if b[0] == 'app':
        return b[2]
    raise ValueError(b)


def const(w, n):
    return V(w, {}, n)


def var(name, w):
    return V(w, {('sl', ('var', name, w), 0, w): 1}, 0)


def base(b):
    w = base_width(b)
    return V(w, {('sl', b, 0, w): 1}, 0)


def mem(space, addr):
    return base(('mem', space, addr))


def app(op, w, *args):
    return base(('app', op, w, tuple(args)))


def v2(k):
    n = 0
    while k % 2 == 0:
        k //= 2
        n += 1
    return n


def norm(v):
    """Trim slices to the bits that matter under the modulus; expand mod(X) where only low bits matter."""
    t = {}
    cacc = 0
    for a, k in v.terms.items():
        _, b, lo, ln = a
        need = v.w - v2(k)
        if need <= 0:
            continue
        if ln > need:
            a = ('sl', b, lo, need)
            ln = need
        if b[0] == 'app' and b[1] == 'ite' and (lo != 0 or ln != b[2]):
            # a slice of an if-then-else is the if-then-else of the slices
            p_, x_, y_ = b[3]
            inner = ite(p_, sel(x_, lo, ln), sel(y_, lo, ln))
            e = norm(V(v.w, {x: c * k for x, c in zext(inner, v.w).terms.items()} if inner.w < v.w else
                       {x: c * k for x, c in inner.terms.items()}, (zext(inner, v.w).c if inner.w < v.w else inner.c) * k))
            for x, c in e.terms.items():
                t[x] = t.get(x, 0) + c
            cacc += e.c
            continue
        if b[0] == 'app' and b[1] == 'dynshr' and lo == 0 and ln <= 8:
            # low byte of (word >> 8*K) is byte lane K of the word
            word_, sh_ = b[3]
            if sh_.c % 8 == 0 and all(kk % 8 == 0 for kk in sh_.terms.values()) and not sh_.isconst():
                bs = dyn_extract(word_, sh_, 8)
                (a2, k2), = bs.terms.items()
                a = ('sl', a2[1], 0, ln)
                b = a2[1]
        if b[0] == 'mod' and lo == 0 and need <= b[1].w and ln >= min(need, b[1].w):
            X = b[1]
            extra = V(v.w, {x: c * k for x, c in X.terms.items()}, X.c * k)
            e = norm(extra)
            for x, c in e.terms.items():
                t[x] = t.get(x, 0) + c
            cacc += e.c
            continue
        t[a] = t.get(a, 0) + k
    return V(v.w, t, v.c + cacc)


def add(a, b):
    assert a.w == b.w, (a, b)
    t = dict(a.terms)
    for k, c in b.terms.items():
        t[k] = t.get(k, 0) + c
    return norm(V(a.w, t, a.c + b.c))


def neg(a):
    return norm(V(a.w, {k: -c for k, c in a.terms.items()}, -a.c))


def sub(a, b):
    return add(a, neg(b))


def mulc(a, k):
    return norm(V(a.w, {x: c * k for x, c in a.terms.items()}, a.c * k))


def trunc(a, w):
    assert w <= a.w, (a, w)
    if w == a.w:
        return a
    return norm(V(w, dict(a.terms), a.c))


def zext(a, w):
    if w == a.w:
        return a
    assert w > a.w
    bits = to_bits(a)
    if bits is not None:
        return from_bits(bits + [0] * (w - a.w))
    return zext(base(('mod', a)), w)


def to_bits(a):
    """Bit list (LSB first) with entries 0 / 1 / (base, i); None if the form may carry between terms."""
    bits = [0] * a.w
    for i in range(a.w):
        if (a.c >> i) & 1:
            bits[i] = 1
    for (tag, b, lo, ln), k in a.terms.items():
        if ln == 1 and k & (k - 1):
            # a single bit replicated at every set position of the coefficient (sign extension)
            for p_ in range(a.w):
                if (k >> p_) & 1:
                    if bits[p_] != 0:
                        return None
                    bits[p_] = (b, lo)
            continue
        if k & (k - 1):
            return None
        sh = v2(k)
        for j in range(ln):
            p = sh + j
            if p >= a.w:
                break
            if bits[p] != 0:
                return None
            bits[p] = (b, lo + j)
    return bits


def from_bits(bits):
    w = len(bits)
    c = 0
    t = {}
    i = 0
    while i < w:
        b = bits[i]
        if b == 1:
            c |= 1 << i
            i += 1
        elif b == 0:
            i += 1
        else:
            bs, lo = b
            j = i + 1
            while j < w and isinstance(bits[j], tuple) and bits[j][0] == bs and bits[j][1] == lo + (j - i):
                j += 1
            a = ('sl', bs, lo, j - i)
            t[a] = t.get(a, 0) + (1 << i)
            i = j
    return norm(V(w, t, c))


def bitsof(a):
    b = to_bits(a)
    if b is None:
        a = base(('mod', a))
        b = to_bits(a)
    return b


def shl(a, n):
    return mulc(a, 1 << n)


def shr(a, n):
    b = bitsof(a)
    return from_bits(b[n:] + [0] * min(n, a.w))


def ashr(a, n):
    b = bitsof(a)
    return from_bits(b[n:] + [b[-1]] * min(n, a.w))


def sel(a, lo, w):
    if lo == 0:
        return trunc(a, w) if w <= a.w else zext(a, w)
    b = bitsof(a)
    out = b[lo:lo + w]
    out += [0] * (w - len(out))
    return from_bits(out)


def sext(a, w):
    if w == a.w:
        return a
    b = bitsof(a)
    return from_bits(b + [b[-1]] * (w - a.w))


def concat(hi, lo):
    return from_bits(bitsof(lo) + bitsof(hi))


def bitop(op, a, b):
    assert a.w == b.w, (op, a, b)
    x = bitsof(a)
    y = bitsof(b)
    out = []
    for p, q in zip(x, y):
        if op == 'and':
            r = 0 if (p == 0 or q == 0) else q if p == 1 else p if q == 1 else (p if p == q else None)
        elif op == 'or':
            r = 1 if (p == 1 or q == 1) else q if p == 0 else p if q == 0 else (p if p == q else None)
        else:
            if p == 0:
                r = q
            elif q == 0:
                r = p
            elif p == q:
                r = 0
            else:
                r = None
        if r is None:
            args = tuple(sorted([a, b], key=repr))
            return base(('app', op, a.w, args))
        out.append(r)
    return from_bits(out)


def bnot(a):
    return sub(const(a.w, (1 << a.w) - 1), a)


def dyn_extract(word, shamt, width):
    """`(word >> shamt)[width-1:0]` for a symbolic shift amount.  Byte-lane selection (shift = 8*K,
    width 8) gets the canonical form bytesel(word, K) so that C++ and Verilog spellings meet."""
    if shamt.isconst():
        return sel(word, shamt.c, width)
    if width == 8:
        # shamt == 8*K  <=> all terms have coefficient multiple of 8 and constant multiple of 8
        if shamt.c % 8 == 0 and all(k % 8 == 0 for k in shamt.terms.values()):
            kbits = bitsof(shamt)
            hi = [b for b in kbits[3:] if b != 0]
            K = from_bits(kbits[3:3 + max(1, len(hi))]) if hi else const(1, 0)
            # drop leading zero bits of K
            kb = bitsof(K)
            while len(kb) > 1 and kb[-1] == 0:
                kb = kb[:-1]
            K = from_bits(kb)
            return app('bytesel', 8, word, K)
    return app('dynshr', width, word, shamt if shamt.w >= 32 else zext(shamt, 32))


# ------------------------------------------------------------------------------------------------
# predicates
# ------------------------------------------------------------------------------------------------
T = ('T',)
F = ('F',)


def p_eq(a, b):
    if a.w != b.w:
        w = max(a.w, b.w)
        a, b = zext(a, w), zext(b, w)
    d = sub(a, b)
    if d.isconst():
        return T if d.c == 0 else F
    # X == 0 is impossible when the constant is not divisible by the common power of two of the coefficients,
    # or when the form is bit-structured with a constant 1 bit
    kmin = min(v2(k) for k in d.terms.values())
    if d.c % (1 << kmin):
        return F
    bv = to_bits(d)
    if bv is not None and any(x == 1 for x in bv):
        return F
    if bv is not None:
        live = [x for x in bv if x != 0]
        if len(live) == 1:
            return p_not(('bit', live[0]))        # a single possibly-set bit: `x & 0x80000000` == 0  <=>  not bit 31
    n = neg(d)
    if repr(n) < repr(d):
        d = n
    return ('eq0', d)


def p_slt0(a):
    b = bitsof(a)[-1]
    if b == 0:
        return F
    if b == 1:
        return T
    return ('bit', b)


def p_not(p):
    if p == T:
        return F
    if p == F:
        return T
    if p[0] == 'not':
        return p[1]
    return ('not', p)


def _conj(p):
    return list(p[1:]) if p[0] == 'and' else [p]


def p_and(p, q):
    if p == F or q == F:
        return F
    if p == T:
        return q
    if q == T:
        return p
    items = []
    for x in _conj(p) + _conj(q):
        if x not in items:
            items.append(x)
    for x in items:
        if p_not(x) in items:
            return F
    # two equalities of the same linear form with different constants exclude each other
    eqs = [x for x in items if x[0] == 'eq0']
    for i in range(len(eqs)):
        for j in range(i + 1, len(eqs)):
            a, b = eqs[i][1], eqs[j][1]
            if a.w == b.w and a.terms == b.terms and a.c != b.c:
                return F
            nb = neg(b)
            if a.w == b.w and a.terms == nb.terms and a.c != nb.c:
                return F
    # not(eq0 X+c1) is implied by eq0 X+c2, c1 != c2: drop it
    keep = []
    for x in items:
        if x[0] == 'not' and x[1][0] == 'eq0':
            a = x[1][1]
            implied = False
            for e in eqs:
                b = e[1]
                for bb in (b, neg(b)):
                    if a.w == bb.w and a.terms == bb.terms and a.c != bb.c:
                        implied = True
            if implied:
                continue
        keep.append(x)
    items = keep
    if not items:
        return T
    if len(items) == 1:
        return items[0]
    return ('and',) + tuple(sorted(items, key=repr))


def p_or(p, q):
    return p_not(p_and(p_not(p), p_not(q)))


def ite(p, a, b):
    if p == T:
        return a
    if p == F:
        return b
    if a == b:
        return a
    if p[0] == 'not':
        return ite(p[1], b, a)
    return base(('app', 'ite', a.w, (p, a, b)))


def pred_to_v(p):
    if p == T:
        return const(1, 1)
    if p == F:
        return const(1, 0)
    return base(('app', 'pred', 1, (p,)))


def v_to_pred(v):
    if v.isconst():
        return T if v.c else F
    if len(v.terms) == 1 and v.c == 0:
        (a, k), = v.terms.items()
        if k == 1 and a[1][0] == 'app' and a[1][1] == 'pred' and a[2] == 0:
            return a[1][3][0]
        if k == 1 and a[3] == 1:
            return ('bit', (a[1], a[2]))
    return p_not(('eq0', _signnorm(v)))


def _signnorm(d):
    n = neg(d)
    return n if repr(n) < repr(d) else d


# ------------------------------------------------------------------------------------------------
# concrete evaluation (refutation only)
# ------------------------------------------------------------------------------------------------

class Env:
    """Assignment of base variables; memory spaces are pseudo-random functions of the address."""

    def __init__(self, vals, salt=0, memvals=None):
        self.vals = vals
        self.salt = salt
        self.memvals = memvals or {}

    def memread(self, space, addr):
        if (space, addr) in self.memvals:
            return self.memvals[(space, addr)]
        h = hashlib.sha256(('%s|%d|%d' % (space, addr, self.salt)).encode()).digest()
        return int.from_bytes(h[:4], 'little')


def eval_base(b, env):
    if b[0] == 'var':
        if b[1] not in env.vals:
            h = hashlib.sha256(('%s|%d' % (b[1], env.salt)).encode()).digest()
            return int.from_bytes(h[:8], 'little') & ((1 << b[2]) - 1)
        return env.vals[b[1]] & ((1 << b[2]) - 1)
    if b[0] == 'mem':
        return env.memread(b[1], evaluate(b[2], env))
    if b[0] == 'mod':
        return evaluate(b[1], env)
    if b[0] == 'app':
        op, w, args = b[1], b[2], b[3]
        m = (1 << w) - 1
        if op == 'ite':
            return evaluate(args[1], env) if eval_pred(args[0], env) else evaluate(args[2], env)
        if op == 'pred':
            return 1 if eval_pred(args[0], env) else 0
        if op == 'bytesel':
            return (evaluate(args[0], env) >> (8 * evaluate(args[1], env))) & 0xFF
        if op == 'dynshr':
            return (evaluate(args[0], env) >> evaluate(args[1], env)) & m
        if op in ('and', 'or', 'xor'):
            x, y = evaluate(args[0], env), evaluate(args[1], env)
            return {'and': x & y, 'or': x | y, 'xor': x ^ y}[op] & m
        if op == 'X':
            return 0
        h = hashlib.sha256((repr(b) + '|%d' % env.salt).encode()).digest()
        return int.from_bytes(h[:8], 'little') & m
    raise ValueError(b)


def evaluate(v, env):
    tot = v.c
    for (tag, b, lo, ln), k in v.terms.items():
        x = (eval_base(b, env) >> lo) & ((1 << ln) - 1)
        tot += k * x
    return tot & ((1 << v.w) - 1)


def eval_pred(p, env):
    if p == T:
        return True
    if p == F:
        return False
    if p[0] == 'eq0':
        return evaluate(p[1], env) == 0
    if p[0] == 'bit':
        b, i = p[1]
        return bool((eval_base(b, env) >> i) & 1)
    if p[0] == 'not':
        return not eval_pred(p[1], env)
    if p[0] == 'and':
        return all(eval_pred(x, env) for x in p[1:])
    if p[0] == 'opaque':
        h = hashlib.sha256((repr(p) + '|%d' % env.salt).encode()).digest()
        return bool(h[0] & 1)
    raise ValueError(p)


def vars_of(x, acc=None):
    """Names of base variables occurring in a term / predicate / tuple structure."""
    if acc is None:
        acc = {}
    if isinstance(x, V):
        for (tag, b, lo, ln) in x.terms:
            _vars_base(b, acc)
    elif isinstance(x, tuple):
        if x and x[0] == 'bit':
            _vars_base(x[1][0], acc)
        else:
            for y in x:
                if isinstance(y, (V, tuple)):
                    vars_of(y, acc)
    return acc


def _vars_base(b, acc):
    if b[0] == 'var':
        acc[b[1]] = b[2]
    elif b[0] == 'mem':
        vars_of(b[2], acc)
    elif b[0] == 'mod':
        vars_of(b[1], acc)
    elif b[0] == 'app':
        for y in b[3]:
            if isinstance(y, (V, tuple)):
                vars_of(y, acc)


def _consts_of(x, acc):
    if isinstance(x, V):
        if x.c:
            acc.add(x.c)
            acc.add((-x.c) & ((1 << x.w) - 1))
        for (tag, b, lo, ln) in x.terms:
            if b[0] == 'mem':
                _consts_of(b[2], acc)
            elif b[0] == 'mod':
                _consts_of(b[1], acc)
            elif b[0] == 'app':
                for y in b[3]:
                    _consts_of(y, acc)
    elif isinstance(x, tuple):
        for y in x:
            if isinstance(y, (V, tuple)):
                _consts_of(y, acc)


CORNERS = [0, 1, 2, 3, 4, 0xF, 0x10, 0xFF, 0x100, 0x7FFFFFFF, 0x80000000, 0xFFFFFFFF, 0xFFFFFFFE, 0xFFFFFF00,
           0x1FFFFF, 0x200000, 0x7FFFF, 0x80000, 199999, 200000]


def distinguish(a, b, seed=0, tries=400, fixed=None, is_pred=False):
    """Search an assignment under which the two terms (or predicates) evaluate differently.
    Returns (assignment dict, value a, value b) or None."""
    import random
    rnd = random.Random(seed)
    names = {}
    vars_of(a, names)
    vars_of(b, names)
    names = sorted(names.items())
    consts = set()
    _consts_of(a, consts)
    _consts_of(b, consts)
    pool = list(CORNERS)
    for c in sorted(consts):
        for d in (c, -c, c + 1, c - 1, -c - 1, -c + 1):
            pool.append(d & 0xFFFFFFFFFFFFFFFF)
    for t in range(tries):
        vals = dict(fixed or {})
        for n, w in names:
            if n in vals:
                continue
            if (t < 40 and rnd.random() < 0.7) or (t % 3 == 0 and rnd.random() < 0.6):
                vals[n] = rnd.choice(pool) & ((1 << w) - 1)
            else:
                vals[n] = rnd.getrandbits(w)
        env = Env(vals, salt=t)
        if is_pred:
            x, y = eval_pred(a, env), eval_pred(b, env)
        else:
            x, y = evaluate(a, env), evaluate(b, env)
        if x != y:
            return ({n: vals[n] for n, _ in names}, x, y)
    return None
