"""Call graph over the repository's functions of one translation unit (resolved callee declarations, virtual calls fanned out to
every override), its strongly connected components, and the decision whether every recursive cycle is depth-bounded.

Rule (C09/C10 "never crashes ... on any byte string"): a cycle of the call graph that is reachable from the tool's entry point
recurses once per nesting level of the input.  Without a bound the stack is exhausted by a small input (a few 10 kB of '(').
Each cycle must therefore pass through a function that
  (G) carries a *depth guard*: it increments a counter, compares it with an integer constant and throws when it is exceeded,
      before it makes any call that stays inside the cycle; or
  (S) is *structural*: it descends one level of the syntax tree per call (the cycle passes through an `accept` method of the
      tree or a visitor callback) -- bounded by the depth of the tree, which is bounded as soon as every cycle of the functions
      that build the tree (the parser) is of kind (G).
A cycle that is neither is reported with the functions on it and the call sites that close it."""
from . import cast
from .cast import children, walk, pos, callee_of, qt, dqt


def _fid(idx, f):
    """Canonical function: the one that has the body."""
    if f.body is None and getattr(f, 'defn', None):
        return f.defn
    return f


def overriders(idx, f):
    """All methods (with a body) that a virtual call of f may dispatch to."""
    out = [f]
    if not f.cls or not (f.node.get('virtual') or f.node.get('pure') or _overrides_something(idx, f)):
        return out
    sig = [qt(p) for p in f.params]
    for qn, rec in idx.records.items():
        if qn == f.cls:
            continue
        if f.cls in idx.bases_of(qn) or qn in idx.bases_of(f.cls):
            for m in rec.methods:
                if m.name == f.name and [qt(p) for p in m.params] == sig:
                    out.append(m)
    return out


def _overrides_something(idx, f):
    sig = [qt(p) for p in f.params]
    for b in idx.bases_of(f.cls):
        rec = idx.records.get(b)
        for m in (rec.methods if rec else []):
            if m.name == f.name and [qt(p) for p in m.params] == sig and (m.node.get('virtual') or m.node.get('pure')):
                return True
    return False


def ctor_of(idx, n):
    """The constructor a CXXConstructExpr / CXXTemporaryObjectExpr runs (clang's JSON gives its type, not its declaration)."""
    import re
    tq = re.sub(r'^(const |class |struct )+', '', (n.get('type') or {}).get('qualType', '')).strip()
    rec = idx.records.get(tq) or idx.records.get(idx._resolve_record_name(tq.split('::')[-1], tq) or '')
    if rec is None:
        return None
    want = (n.get('ctorType') or {}).get('qualType')
    c = [x for x in rec.ctors if (x.node.get('type') or {}).get('qualType') == want]
    return c[0] if len(c) == 1 else None


class CallGraph:
    def __init__(self, idx):
        self.idx = idx
        self.nodes = {}      # id -> Func (with body)
        self.edges = {}      # id -> {callee id: [call site nodes]}
        for f in idx.all_funcs():
            g = _fid(idx, f)
            if g.body is None:
                continue
            self.nodes[g.id] = g
        for fid, f in self.nodes.items():
            e = self.edges.setdefault(fid, {})
            roots = [f.body] + [c for c in children(f.node) if c.get('kind') == 'CXXCtorInitializer']
            for r in roots:
                for n in walk(r):
                    k = n.get('kind')
                    targets = []
                    if k in ('CallExpr', 'CXXMemberCallExpr', 'CXXOperatorCallExpr'):
                        kind, name, did, obj = callee_of(n)
                        t = idx.func_by_id.get(did) if did else None
                        if t is not None:
                            virt = kind == 'method' and (t.node.get('virtual') or t.node.get('pure') or _overrides_something(idx, t))
                            # a qualified call (Base::f()) is not dispatched
                            targets = overriders(idx, t) if virt else [t]
                    elif k in ('CXXConstructExpr', 'CXXTemporaryObjectExpr'):
                        t = ctor_of(idx, n)
                        if t is not None:
                            targets = [t]
                    for t in targets:
                        t = _fid(idx, t)
                        if t.body is not None and t.id in self.nodes:
                            e.setdefault(t.id, []).append(n)

    def reachable(self, roots):
        seen = set()
        todo = [r.id for r in roots]
        while todo:
            x = todo.pop()
            if x in seen or x not in self.nodes:
                continue
            seen.add(x)
            todo.extend(self.edges.get(x, {}).keys())
        return seen

    def sccs(self, within=None, removed=(), drop_edge=None):
        """Tarjan, iterative.  Returns the components that contain a cycle (size > 1 or a self loop).
        drop_edge(u, v) -> True removes the edge u -> v from the graph that is searched."""
        nodes = [n for n in self.nodes if (within is None or n in within) and n not in removed]
        ok = set(nodes)
        if drop_edge is None:
            succ = lambda u: sorted(k for k in self.edges.get(u, {}) if k in ok)
        else:
            succ = lambda u: sorted(k for k in self.edges.get(u, {}) if k in ok and not drop_edge(u, k))
        index = {}
        low = {}
        onstack = set()
        stack = []
        out = []
        counter = [0]
        for root in nodes:
            if root in index:
                continue
            work = [(root, iter(succ(root)))]
            index[root] = low[root] = counter[0]
            counter[0] += 1
            stack.append(root)
            onstack.add(root)
            while work:
                v, it = work[-1]
                adv = False
                for w in it:
                    if w not in index:
                        index[w] = low[w] = counter[0]
                        counter[0] += 1
                        stack.append(w)
                        onstack.add(w)
                        work.append((w, iter(succ(w))))
                        adv = True
                        break
                    elif w in onstack:
                        low[v] = min(low[v], index[w])
                if adv:
                    continue
                work.pop()
                if work:
                    u = work[-1][0]
                    low[u] = min(low[u], low[v])
                if low[v] == index[v]:
                    comp = []
                    while True:
                        w = stack.pop()
                        onstack.discard(w)
                        comp.append(w)
                        if w == v:
                            break
                    if len(comp) > 1 or v in succ(v):
                        out.append(sorted(comp))
        return out

    def a_cycle(self, comp, drop_edge=None):
        """One concrete cycle inside a component, as [(caller Func, call site node, callee Func)]."""
        comp = set(comp)
        start = sorted(comp)[0]
        # BFS back to start
        prev = {}
        todo = [start]
        seen = set()
        while todo:
            x = todo.pop(0)
            for y, sites in sorted(self.edges.get(x, {}).items()):
                if y not in comp or (drop_edge is not None and drop_edge(x, y)):
                    continue
                if y == start:
                    path = [(x, sites[0], y)]
                    while x != start:
                        px, s = prev[x]
                        path.append((px, s, x))
                        x = px
                    return [(self.nodes[a], s, self.nodes[b]) for a, s, b in reversed(path)]
                if y not in seen:
                    seen.add(y)
                    prev[y] = (x, sites[0])
                    todo.append(y)
        return []


# ----------------------------------------------------------------------------------------------------------------------
# depth guards
# ----------------------------------------------------------------------------------------------------------------------
def _counter_of(n):
    """Identity of the lvalue an expression names: ('member', decl id) | ('var', decl id)."""
    n = cast.strip(n)
    if n.get('kind') == 'MemberExpr':
        return ('member', n.get('referencedMemberDecl'))
    if n.get('kind') == 'DeclRefExpr':
        return ('var', (n.get('referencedDecl') or {}).get('id'))
    return None


def _increments(root):
    out = []
    for n in walk(root):
        if n.get('kind') == 'UnaryOperator' and n.get('opcode') == '++':
            c = _counter_of(children(n)[0])
            if c:
                out.append((c, n))
        if n.get('kind') == 'CompoundAssignOperator' and n.get('opcode') == '+=':
            c = _counter_of(children(n)[0])
            if c:
                out.append((c, n))
    return out


def _guard_ifs(root, idx):
    """if (<counter> >|>= <integer constant>) ... throw ...   (either operand order; the counter may be the ++ expression itself)."""
    out = []
    for n in walk(root):
        if n.get('kind') != 'IfStmt':
            continue
        ch = children(n)
        if len(ch) < 2:
            continue
        cond = cast.strip(ch[0])
        if cond.get('kind') != 'BinaryOperator' or cond.get('opcode') not in ('>', '>=', '<', '<=', '==', '!='):
            continue
        if not any(x.get('kind') == 'CXXThrowExpr' for x in walk(ch[1])):
            continue
        a, b = children(cond)
        for x, y in ((a, b), (b, a)):
            cv = cast.const_int(y, idx)
            if cv is None:
                continue
            xs = cast.strip(x)
            if xs.get('kind') == 'UnaryOperator' and xs.get('opcode') == '++':
                xs = cast.strip(children(xs)[0])
            c = _counter_of(xs)
            if c:
                out.append((c, cv, n))
    return out


def depth_guard(idx, f):
    """(counter, bound, where, anchor) if f establishes a depth guard, else None.  The guard may sit in f itself or in a small
    function / constructor that f calls directly (a scope-guard object, a helper such as enterNesting()).
    `anchor` is the node of f's body at which the guard takes effect."""
    bodies = [(f, f.body, None)]
    for n in walk(f.body):
        t = None
        if n.get('kind') in ('CXXConstructExpr', 'CXXTemporaryObjectExpr'):
            t = ctor_of(idx, n)
        elif n.get('kind') in ('CallExpr', 'CXXMemberCallExpr'):
            kind, name, did, obj = callee_of(n)
            t = idx.func_by_id.get(did) if did else None
        if t is not None:
            t = _fid(idx, t)
            if t.body is not None and t is not f and sum(1 for _ in walk(t.body)) < 150:
                bodies.append((t, t.body, n))
    for g, body, via in bodies:
        incs = _increments(body)
        for c, bound, ifn in _guard_ifs(body, idx):
            if any(ic == c for ic, _ in incs):
                return (c, bound, pos(ifn) + ' ' + g.qname, via if via is not None else ifn)
    return None


def receiver_root(idx, f, call, tree_base=None):
    """Where does the object of a member call come from?  'self' (this or a member of this), 'param' (a parameter of f, possibly
    through getters / members / smart-pointer access and through locals initialised that way), or 'other' (a table lookup, a cast
    of something fetched elsewhere ...)."""
    kind, name, did, obj = callee_of(call)
    if obj is None:
        return 'other'
    inits = {d['id']: children(d)[-1] for d in walk(f.body) if d.get('kind') == 'VarDecl' and children(d)} if f.body is not None else {}
    params = {p_['id'] for p_ in f.params}

    def root(e, d=0):
        e = cast.strip(e)
        k = e.get('kind')
        if d > 12:
            return 'other'
        if k == 'CXXThisExpr':
            return 'self'
        if k == 'MemberExpr':
            ch = children(e)
            return root(ch[0], d + 1) if ch else 'self'
        if k == 'CXXMemberCallExpr':
            k2, n2, d2, o2 = callee_of(e)
            if n2 in ('lookup', 'find', 'at'):
                return 'other'
            return root(o2, d + 1) if o2 is not None else 'other'
        if k == 'CXXOperatorCallExpr':
            n2 = callee_of(e)[1]
            a = call_args_(e)
            if n2 in ('operator->', 'operator*') and a:
                return root(a[0], d + 1)
            if n2 == 'operator[]' and a:
                return root(a[0], d + 1)
            return 'other'
        if k == 'UnaryOperator' and e.get('opcode') in ('*', '&'):
            return root(children(e)[0], d + 1)
        if k in ('CXXDynamicCastExpr', 'CXXStaticCastExpr', 'CXXConstCastExpr'):
            return root(children(e)[0], d + 1)
        if k == 'DeclRefExpr':
            r = e.get('referencedDecl') or {}
            if r.get('id') in params:
                if tree_base is None:
                    return 'param'
                # only a parameter that *is* a tree node (pointer, reference, smart pointer to a class derived from the tree base)
                import re
                t = (r.get('type') or {}).get('qualType', '')
                resolved = False
                for tn in re.findall(r'[A-Za-z_][\w:]*', t):
                    q = tn if tn in idx.records else idx._resolve_record_name(tn.split('::')[-1], f.cls or f.qname)
                    if q and idx.derives_from(q, tree_base):
                        return 'param'
                    resolved = resolved or bool(q)
                # a parameter whose type names no class of the repository at all (a template parameter, a container of one): cannot tell
                return 'other' if resolved else 'unknown'
            if r.get('kind') == 'VarDecl' and r.get('id') in inits:
                return root(inits[r['id']], d + 1)
            if r.get('kind') == 'ParmVarDecl':
                # the parameter of a lambda inside f (an element handed in by an algorithm): where it comes from is not modelled
                return 'unknown'
            return 'other'
        if k == 'CallExpr':
            return 'other'
        return 'other'
    return root(obj)


def child_argument_descent(idx, fu, site, fv, tree_base):
    """A (mutually) recursive function that walks the tree by hand: at this call site every tree-node argument of the callee is a *child*
    of a tree-node parameter of the caller (reached from it through at least one member getter, possibly via dynamic_cast / smart
    pointer access / a local initialised that way).  One call = one level down, so the depth is bounded by the depth of the tree."""
    import re
    if tree_base is None or fu.body is None:
        return False

    def is_node_type(t, ctx):
        for tn in re.findall(r'[A-Za-z_][\w:]*', t):
            q = tn if tn in idx.records else idx._resolve_record_name(tn.split('::')[-1], ctx)
            if q and idx.derives_from(q, tree_base):
                return True
        return False
    node_params = [i for i, p_ in enumerate(fv.params) if is_node_type(qt(p_), fv.cls or fv.qname)]
    if not node_params:
        return False
    args = call_args_(site)
    inits = {d['id']: children(d)[-1] for d in walk(fu.body) if d.get('kind') == 'VarDecl' and children(d)}
    params = {p_['id'] for p_ in fu.params if is_node_type(qt(p_), fu.cls or fu.qname)}

    def chain(e, d=0, getters=0):
        """Number of member getters between e and a tree-node parameter of the caller, or None."""
        e = cast.strip(e)
        k = e.get('kind')
        if d > 14:
            return None
        if k in ('ImplicitCastExpr', 'ParenExpr', 'MaterializeTemporaryExpr', 'CXXBindTemporaryExpr', 'ExprWithCleanups') and children(e):
            return chain(children(e)[0], d + 1, getters)
        if k == 'CXXMemberCallExpr':
            k2, n2, d2, o2 = callee_of(e)
            if n2 in ('lookup', 'find', 'at') or o2 is None:
                return None
            smart = 'unique_ptr' in (qt(o2) + dqt(o2)) or 'shared_ptr' in (qt(o2) + dqt(o2))
            return chain(o2, d + 1, getters + (0 if smart and n2 == 'get' else 1))
        if k == 'CXXOperatorCallExpr':
            n2 = callee_of(e)[1]
            a = call_args_(e)
            if n2 in ('operator->', 'operator*') and a:
                return chain(a[0], d + 1, getters)
            return None
        if k == 'UnaryOperator' and e.get('opcode') in ('*', '&') and children(e):
            return chain(children(e)[0], d + 1, getters)
        if k in ('CXXDynamicCastExpr', 'CXXStaticCastExpr', 'CXXConstCastExpr') and children(e):
            return chain(children(e)[0], d + 1, getters)
        if k == 'MemberExpr' and children(e):
            return chain(children(e)[0], d + 1, getters)
        if k == 'DeclRefExpr':
            r = e.get('referencedDecl') or {}
            if r.get('id') in params:
                return getters
            if r.get('kind') == 'VarDecl' and r.get('id') in inits:
                return chain(inits[r['id']], d + 1, getters)
        return None
    for i in node_params:
        if i >= len(args):
            return False
        g = chain(args[i])
        if g is None or g < 1:
            return False
    return True


def call_args_(n):
    from .cast import call_args
    return call_args(n)


def decide_cycles(idx, cg, within, structural=(), tree_base=None):
    """For every recursive component inside `within`: {'names', 'kind': guarded|structural|unbounded, 'detail', 'where', 'bounds'}."""
    out = []
    structural = set(structural)
    for comp in cg.sccs(within=within):
        cset = set(comp)
        names = sorted({cg.nodes[c].qname for c in comp})
        guards = {}
        for c in comp:
            f = cg.nodes[c]
            g = depth_guard(idx, f)
            if not g:
                continue
            order = {id(n): k for k, n in enumerate(walk(f.body))}
            first_rec = min([order.get(id(site), 1 << 30) for callee, sites in cg.edges.get(c, {}).items() if callee in cset for site in sites]
                            or [1 << 30])
            if order.get(id(g[3]), 1 << 30) < first_rec:
                guards[c] = g
        rest = cg.sccs(within=cset, removed=set(guards))
        bounds = sorted({g[1] for g in guards.values()})
        gtxt = '; '.join('%s guards with bound %d at %s' % (cg.nodes[c].qname, g[1], g[2]) for c, g in sorted(guards.items()))
        if not rest:
            out.append({'names': names, 'kind': 'guarded', 'detail': gtxt, 'where': guards[sorted(guards)[0]][2], 'bounds': bounds})
            continue
        def descent_edge(u, v, cg=cg, structural=structural):
            # an edge into a tree-descent method counts as descent only if every call site applies it to a node reached from the
            # caller's own object or parameters (a child); applying it to a node fetched from a table may revisit the same node
            if v not in structural:
                # a function that descends by hand: every call site passes a child of the caller's own node
                sites_ = cg.edges.get(u, {}).get(v, [])
                return bool(sites_) and all(child_argument_descent(idx, cg.nodes[u], site, cg.nodes[v], tree_base) for site in sites_)
            return all(receiver_root(idx, cg.nodes[u], site, tree_base) in ('self', 'param') for site in cg.edges.get(u, {}).get(v, []))
        # (1) a call that applies a tree-descent method to a node that is *not* reached from the caller's own node (fetched from a table,
        #     say) can revisit a node: such an edge on a cycle makes the recursion unbounded whatever else the cycle does
        jumps = []
        unknown = []
        for comp_r in rest:
            cr = set(comp_r)
            for u in comp_r:
                for v, sites in cg.edges.get(u, {}).items():
                    if v in cr and v in structural and not descent_edge(u, v):
                        roots = [receiver_root(idx, cg.nodes[u], site, tree_base) for site in sites]
                        if 'other' in roots:
                            jumps.append((u, v, sites[roots.index('other')]))
                        else:
                            unknown.append((u, v, sites[roots.index('unknown')] if 'unknown' in roots else sites[0]))
        if not jumps and unknown:
            u, v, site = unknown[0]
            out.append({'names': names, 'kind': 'undecided', 'bounds': bounds, 'where': pos(site),
                        'detail': '%s applies the tree-descent method %s at %s to a node handed in through a lambda / template parameter; whether '
                                  'that is a child of the node being visited is not modelled' % (cg.nodes[u].qname, cg.nodes[v].qname, pos(site))})
            continue
        if jumps:
            u, v, site = jumps[0]
            out.append({'names': names, 'kind': 'unbounded', 'bounds': bounds, 'where': pos(site),
                        'detail': 'recursion with no depth bound: %s applies the tree-descent method %s at %s to a node that is not a child of the '
                                  'node being visited (it comes from a lookup / cast of something fetched elsewhere), and that call is on a cycle '
                                  '(%d functions): the same node can be entered again' % (cg.nodes[u].qname, cg.nodes[v].qname, pos(site), len(names))})
            continue
        # (2) what remains after the genuine descents are taken out must be acyclic
        rest2 = cg.sccs(within=cset, removed=set(guards), drop_edge=descent_edge)
        if not rest2:
            through = sorted({cg.nodes[c].qname for c in cset & structural})
            out.append({'names': names, 'kind': 'structural', 'bounds': bounds, 'where': pos(cg.nodes[comp[0]].node),
                        'detail': 'every cycle passes through a call of one of %d tree-descent methods (%s ...) on a child of the node being '
                                  'visited: depth <= depth of the syntax tree' % (len(through), ', '.join(through[:3]))})
            continue
        cyc = []
        for r in rest2:
            path = cg.a_cycle(r, descent_edge)
            cyc.append(' -> '.join('%s (calls at %s)' % (a.qname, pos(s)) for a, s, b in path) + ' -> ' + (path[0][0].qname if path else '?'))
        first = cg.a_cycle(rest2[0], descent_edge)
        out.append({'names': names, 'kind': 'unbounded', 'bounds': bounds, 'where': pos(first[0][1]) if first else '?',
                    'detail': 'recursion with no depth bound: ' + ' | '.join(cyc) + ((' [guards elsewhere in the component: %s]' % gtxt) if gtxt else '')})
    return out
