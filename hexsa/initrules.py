"""Initialisation discipline (C11-R1, C12-R1): every scalar data member is initialised by every user-provided
constructor (member initialiser, default member initialiser, or an unconditional assignment at the top level of the
constructor body) -- or is listed in a frozen protocol table whose guard is verified by the caller."""
import re
from . import cast
from .cast import children, walk, qt, dqt, pos

SCALAR_RE = re.compile(r'^(const )?(unsigned |signed )?(int|char|long|short|bool|float|double|size_t|std::size_t|unsigned|'
                       r'uint\d+_t|int\d+_t|long long|unsigned long|unsigned int|unsigned char|unsigned short)( const)?$')


def is_scalar_type(t, dt, idx):
    for s in (t, dt):
        if not s:
            continue
        s = s.strip()
        if s.endswith('&'):
            return False          # references must be bound by the constructor (compiler enforced)
        if s.endswith('*') or s.endswith('*const'):
            return True
        if SCALAR_RE.match(s):
            return True
        s2 = s[5:] if s.startswith('enum ') else s
        if s2 in idx.enums or any(q.endswith('::' + s2) for q in idx.enums):
            return True
        m = re.match(r'^std::array<(.+), [^,]+>$', s)
        if m and is_scalar_type(m.group(1).strip(), None, idx):
            return True
    return False


def scalar_fields(idx, rec):
    out = []
    for f in rec.fields:
        t = (f.get('type') or {})
        if is_scalar_type(t.get('qualType'), t.get('desugaredQualType'), idx):
            out.append(f)
    return out


def ctor_initialised(idx, ctor, field, _depth=0):
    """How (or None) a constructor initialises the field."""
    for ini in ctor.inits:
        if ini.get('delegatingInit') and _depth < 4:
            # a delegating constructor: the target constructor initialises the members
            ce = next((x for x in walk(ini) if x.get('kind') == 'CXXConstructExpr'), None)
            ct = ((ce or {}).get('ctorType') or {}).get('qualType', '').strip()
            rec = idx.records.get(ctor.cls) if getattr(ctor, 'cls', None) else None
            for c2 in (rec.ctors if rec is not None else []):
                if c2 is not ctor and c2.type.strip() == ct:
                    return ctor_initialised(idx, c2, field, _depth + 1)
    for ini in ctor.inits:
        a = ini.get('anyInit') or {}
        if a.get('id') == field['id'] or (a.get('kind') == 'FieldDecl' and a.get('name') == field['name']):
            ch = children(ini)
            if len(ch) == 1 and ch[0]['kind'] == 'CXXConstructExpr' and not ch[0].get('zeroing') and not children(ch[0]):
                break       # implicit default-initialisation of an aggregate (std::array): elements stay indeterminate
            return ('mem-init', ini)
    if field.get('hasInClassInitializer'):
        return ('default-member-init', field)
    if ctor.body is not None:
        for st in children(ctor.body):
            x = cast.strip(st)
            if x['kind'] == 'BinaryOperator' and x.get('opcode') == '=':
                m = cast.member_ref(children(x)[0])
                if m and m[0] == field['name'] and cast.is_this_member(children(x)[0]):
                    return ('body-assignment', x)
            if x['kind'] == 'CXXMemberCallExpr':
                kind, name, did, obj = cast.callee_of(x)
                if name == 'fill' and obj is not None:
                    m = cast.member_ref(obj)
                    if m and m[0] == field['name']:
                        return ('body-fill', x)
    return None


def is_zero_init(how):
    """Is the initialisation a zero / value initialisation?"""
    if how is None:
        return False
    kind, node = how
    if kind == 'body-fill':
        a = cast.call_args(node)
        return bool(a) and cast.const_int(a[0]) == 0
    for x in walk(node):
        if x['kind'] == 'ImplicitValueInitExpr':
            return True
        if x['kind'] == 'InitListExpr' and not [c for c in children(x) if c.get('kind') != 'ImplicitValueInitExpr']:
            return True
        if x['kind'] == 'CXXConstructExpr' and x.get('zeroing'):
            return True
    ch = [c for c in children(node)] if kind == 'mem-init' else []
    if ch and cast.const_int(ch[0]) == 0:
        return True
    return False


def _real_ctor(c):
    n = c.node
    if n.get('explicitlyDeleted') or n.get('isDeleted'):
        return False
    if n.get('explicitlyDefaulted') in ('default', True) or n.get('isDefaulted'):
        return False            # = default: members are copied / value-initialised by the language rules
    return True


def user_ctors(rec):
    cs = [c for c in rec.ctors if not c.node.get('isImplicit') and _real_ctor(c)]
    return cs


def aggregate_sites(idx, qn):
    """For a class without user-provided constructors: how its objects come into being.  Returns (ok sites, bad sites): brace
    initialisation (missing trailing members are value-initialised) and value-initialisation leave no member indeterminate;
    default-initialisation (`T x;`, `new T`) does."""
    import re
    short = qn.split('::')[-1]
    good, bad = 0, []

    def is_t(n):
        for raw in (qt(n), dqt(n)):
            t = re.sub(r'^(const )?(class |struct )?', '', raw or '').replace('constexpr ', '').strip()
            t = re.sub(r'\[[^\]]*\]$', '', t).strip()
            if t and (t == qn or t.split('::')[-1] == short and (t == short or qn.endswith(t))):
                return True
        return False
    roots = []
    for f in idx.all_funcs():
        if f.body is not None:
            roots.append(f.body)
        roots += list(f.inits)
    for nid, n in idx.by_id.items():
        if isinstance(n, dict) and n.get('kind') in ('VarDecl', 'FieldDecl') and children(n):
            roots.append(n)
    seen = set()
    for r in roots:
        for x in walk(r):
            if id(x) in seen:
                continue
            seen.add(id(x))
            k = x.get('kind')
            if k == 'InitListExpr' and is_t(x):
                good += 1
            elif k in ('CXXConstructExpr', 'CXXTemporaryObjectExpr') and is_t(x):
                real = [c for c in children(x) if c.get('kind') != 'CXXDefaultArgExpr']
                if real:
                    good += 1          # copy / move from an existing object
                elif x.get('zeroing') or x.get('requiresZeroInitialization'):
                    good += 1
                else:
                    bad.append(pos(x))
            elif k == 'CXXScalarValueInitExpr' and is_t(x):
                good += 1
            elif k == 'CXXNewExpr' and is_t(x) and not any(c.get('kind') in ('InitListExpr', 'CXXConstructExpr') for c in children(x)):
                bad.append(pos(x))
    return good, bad


def audit(idx, namespaces):
    """Yield (record qname, field node, [(ctor, how)]) for every scalar field of every class in the namespaces."""
    for qn, rec in sorted(idx.records.items()):
        if not any(qn.startswith(ns + '::') for ns in namespaces):
            continue
        sf = scalar_fields(idx, rec)
        if not sf:
            continue
        cs = user_ctors(rec)
        for f in sf:
            if not cs:
                if f.get('hasInClassInitializer'):
                    yield qn, f, [(None, ('default-member-init', f))]
                    continue
                good, bad = aggregate_sites(idx, qn)
                # an aggregate whose every object is brace- or value-initialised has no indeterminate member
                yield qn, f, [(None, ('aggregate: %d brace/value-initialised site(s)' % good, f) if good and not bad else None)]
            else:
                yield qn, f, [(c, ctor_initialised(idx, c, f)) for c in cs]
