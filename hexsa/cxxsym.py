"""Engine S: effect summaries of C++ functions by abstract interpretation of clang's AST over the term algebra.

A *path* carries a path condition, the values of the fields of `this`, locals, the list of memory
stores (per array-like field = memory space), a list of externally visible events and a status.
Conditions that the algebra cannot decide fork the path (trace partitioning).  Calls to functions whose
bodies are in the index are inlined (bounded depth); everything else goes through client hooks, and an
unmodelled construct raises AnalysisBroken (exit 2), never a guess.
"""
import re
from .terms import *
from .cast import children, strip_noncast, qt, dqt, pos, callee_of, call_args
from .frontend import AnalysisBroken

INT_TYPES = {
    'unsigned int': (32, False), 'uint32_t': (32, False), 'int': (32, True), 'bool': (1, False),
    'char': (8, True), 'signed char': (8, True), 'unsigned char': (8, False), 'uint8_t': (8, False),
    'unsigned long': (64, False), 'size_t': (64, False), 'long': (64, True), 'uint64_t': (64, False),
    'std::size_t': (64, False), 'unsigned short': (16, False), 'short': (16, True), 'long long': (64, True),
    'unsigned long long': (64, False), 'std::streamsize': (64, True), 'int32_t': (32, True), 'int64_t': (64, True),
    'unsigned': (32, False), 'std::array::size_type': (64, False), 'std::vector::size_type': (64, False),
    'vluint64_t': (64, False), 'CData': (8, False), 'IData': (32, False), 'QData': (64, False), 'SData': (16, False),
}


def tinfo(node_or_str, idx=None):
    """(width, signed) of an integer-like clang type, or None."""
    if isinstance(node_or_str, dict):
        t = node_or_str.get('type') or {}
        for s in (t.get('desugaredQualType'), t.get('qualType')):
            r = tinfo(s, idx) if s else None
            if r:
                return r
        return None
    s = node_or_str
    if s is None:
        return None
    s = s.replace('const ', '').replace('volatile ', '').replace(' &', '').replace('&', '').strip()
    if s in INT_TYPES:
        return INT_TYPES[s]
    if s.startswith('enum '):
        s = s[5:]
    if idx is not None and s in idx.enums:
        return (32, False)
    if re.match(r'^(hex|hexasm|xcmp)::\w+$', s) and idx is not None and s in idx.enums:
        return (32, False)
    if s.endswith('::value_type') or s.endswith('::reference') or s.endswith('::const_reference'):
        return (32, False)
    if s.endswith('::size_type'):
        return (64, False)
    return None


class StrV:
    """A string-like value (string literal, formatted text, opaque std::string)."""

    def __init__(self, kind, *args):
        self.kind = kind
        self.args = args

    def key(self):
        return (self.kind,) + tuple(repr(a) for a in self.args)

    def __eq__(self, o):
        return isinstance(o, StrV) and self.key() == o.key()

    def __hash__(self):
        return hash(self.key())

    def __repr__(self):
        return '%s(%s)' % (self.kind, ', '.join(map(repr, self.args)))


class Ref:
    """Reference to a non-integer object (stream, sub-object, pointer...)."""

    def __init__(self, what, data=None):
        self.what = what
        self.data = data

    def __eq__(self, o):
        return isinstance(o, Ref) and self.what == o.what and repr(self.data) == repr(o.data)

    def __hash__(self):
        return hash((self.what, repr(self.data)))

    def __repr__(self):
        return 'Ref(%s%s)' % (self.what, '' if self.data is None else ':%r' % (self.data,))


class _Alias:
    """Value of a local of reference type: the lvalue it is bound to."""
    def __init__(self, lv):
        self.lv = lv


class Path:
    def __init__(self, fields, pc=T):
        self.fields = fields
        self.pc = pc
        self.stores = []      # (space, addr term, value term)
        self.events = []      # tuples
        self.locals = {}
        self.status = 'run'   # run | throw | exit
        self.thrown = None
        self.nin = 0
        self.written = set()  # names of fields written
        self.read_before_write = set()
        self.ub = []

    def fork(self):
        p = Path(dict(self.fields), self.pc)
        p.stores = list(self.stores)
        p.events = list(self.events)
        p.locals = dict(self.locals)
        p.status = self.status
        p.thrown = self.thrown
        p.nin = self.nin
        p.written = set(self.written)
        p.read_before_write = set(self.read_before_write)
        p.ub = list(self.ub)
        return p


class Hooks:
    """Client hooks; return None to let the interpreter proceed by default."""

    def member_call(self, I, node, name, obj, args_nodes, p):
        return None

    def free_call(self, I, node, name, args_nodes, p):
        return None

    def array_space(self, field_name):
        """memory-space name if the field is an array-like store indexed with operator[]."""
        return None

    def initial_field(self, name, w):
        return var(name, w)


class Interp:
    def __init__(self, idx, cls=None, hooks=None, max_depth=8, max_unroll=70):
        self.idx = idx
        self.cls = cls
        self.h = hooks or Hooks()
        if hasattr(self.h, 'attach'):
            self.h.attach(idx)
        self.max_depth = max_depth
        self.max_unroll = max_unroll
        self.depth = 0
        self.inlined = set()
        self.prefix = ''

    # ---------------------------------------------------------------------------------------
    def seq(self, nodes, paths):
        """Returns list of (path, flow, retval); flow in None/'break'/'continue'/'return'."""
        out = []
        cur = [(p, None, None) for p in paths]
        for n in nodes:
            nxt = []
            for p, f, rv in cur:
                if f is not None or p.status != 'run':
                    out.append((p, f, rv))
                    continue
                nxt += self.stmt(n, p)
            cur = nxt
        return out + cur

    def stmt(self, n, p):
        k = n.get('kind')
        if k is None:
            return [(p, None, None)]
        if k == 'CompoundStmt':
            return self.seq(children(n), [p])
        if k == 'NullStmt':
            return [(p, None, None)]
        if k == 'BreakStmt':
            return [(p, 'break', None)]
        if k == 'ContinueStmt':
            return [(p, 'continue', None)]
        if k == 'ReturnStmt':
            ch = children(n)
            if not ch:
                return [(p, 'return', None)]
            if getattr(self, '_ret_lval', None) and self._ret_lval[-1]:
                # inside a function that returns a reference: the returned object, not its value
                return [(q, 'return', _LVal(lv)) for q, lv in self.lval(ch[0], p)]
            return [(q, 'return', v) for q, v in self.expr(ch[0], p)]
        if k == 'DeclStmt':
            res = [p]
            for d in children(n):
                if d['kind'] != 'VarDecl':
                    continue
                init = [c for c in children(d) if 'kind' in c]
                new = []
                for q in res:
                    if not init:
                        ti = tinfo(d, self.idx)
                        q.locals[d['id']] = app('uninit:' + d.get('name', ''), ti[0]) if ti else Ref('uninit', d.get('name'))
                        new.append(q)
                        continue
                    if qt(d).rstrip().endswith('&') and not qt(d).rstrip().endswith('&&'):
                        # T &name = <lvalue>: the name is an alias of that storage
                        try:
                            lvs = self.lval(init[-1], q)
                        except AnalysisBroken:
                            lvs = None
                        if lvs is not None and all(lv[0] in ('field', 'deref', 'mem') for _, lv in lvs):
                            for q2, lv in lvs:
                                q2.locals[d['id']] = _Alias(lv)
                                new.append(q2)
                            continue
                    for q2, v in self.expr(init[-1], q):
                        q2.locals[d['id']] = self.convert(v, init[-1], d)
                        new.append(q2)
                res = new
            return [(q, None, None) for q in res]
        if k == 'IfStmt':
            ch = children(n)
            i = 0
            pre = [p]
            if n.get('hasInit') or n.get('hasVar'):
                r = self.stmt(ch[0], p)
                pre = [q for q, f, _ in r]
                i = 1
            out = []
            for p0 in pre:
                cnode, th = ch[i], ch[i + 1]
                el = ch[i + 2] if len(ch) > i + 2 else None
                if n.get('hasVar'):
                    # condition is the declared variable
                    vd = [d for d in children(ch[0]) if d['kind'] == 'VarDecl'][0]
                    val = p0.locals[vd['id']]
                    conds = [(p0, self.truth(val))]
                else:
                    conds = self.cond(cnode, p0)
                for q, pr in conds:
                    if q.status != 'run':
                        out.append((q, None, None))
                        continue
                    if pr != F:
                        a = q.fork() if pr != T else q
                        a.pc = p_and(a.pc, pr)
                        if a.pc != F:
                            out += self.stmt(th, a)
                    if pr != T:
                        b = q if pr == F else q.fork()
                        b.pc = p_and(b.pc, p_not(pr))
                        if b.pc != F:
                            out += self.stmt(el, b) if el else [(b, None, None)]
            return out
        if k == 'SwitchStmt':
            return self.switch(n, p)
        if k in ('WhileStmt', 'ForStmt', 'DoStmt'):
            return self.loop(n, p)
        if k == 'CXXForRangeStmt':
            raise AnalysisBroken('range-for in a symbolically interpreted function (%s)' % pos(n))
        if k == 'CXXTryStmt':
            return self.stmt(children(n)[0], p)
        return [(q, None, None) for q, _ in self.expr(n, p)]

    def switch(self, n, p):
        out = []
        ch = children(n)
        for q, v in self.expr(ch[0], p):
            if q.status != 'run':
                out.append((q, None, None))
                continue
            body = children(ch[1]) if ch[1]['kind'] == 'CompoundStmt' else [ch[1]]
            items = []

            def flat(c):
                if c['kind'] == 'CaseStmt':
                    cc = children(c)
                    from .cast import const_int
                    val = const_int(cc[0], self.idx)
                    if val is None:
                        raise AnalysisBroken('non-constant case label at %s' % pos(c))
                    items.append(('case', val))
                    flat(cc[-1])
                elif c['kind'] == 'DefaultStmt':
                    items.append(('default', None))
                    flat(children(c)[-1])
                else:
                    items.append(('stmt', c))
            for c in body:
                flat(c)
            labels = [i for i, (t, _) in enumerate(items) if t in ('case', 'default')]
            seen = F
            targets = []
            for i in labels:
                t, val = items[i]
                if t == 'case':
                    pr = p_eq(v, const(v.w, val))
                    g = p_and(pr, p_not(seen))
                    seen = p_or(seen, pr)
                    targets.append((i, g))
            dflt = [i for i in labels if items[i][0] == 'default']
            targets.append((dflt[0] if dflt else None, p_not(seen)))
            for i, g in targets:
                if g == F:
                    continue
                r = q.fork()
                r.pc = p_and(r.pc, g)
                if r.pc == F:
                    continue
                if i is None:
                    out.append((r, None, None))
                    continue
                seqs = [x for t, x in items[i:] if t == 'stmt']
                for r2, f, rv in self.seq(seqs, [r]):
                    out.append((r2, None if f == 'break' else f, rv))
        return out

    def loop(self, n, p):
        k = n['kind']
        ch = n.get('inner', [])
        out = []
        if k == 'ForStmt':
            init, _v, cnode, inc, body = (ch + [{}] * 5)[:5]
            cur = [q for q, f, _ in self.stmt(init, p)] if init and 'kind' in init else [p]
        elif k == 'WhileStmt':
            cc = children(n)
            cnode, body, inc = cc[0], cc[1], None
            cur = [p]
        else:
            cc = children(n)
            body, cnode, inc = cc[0], cc[1], None
            cur = [p]
        first = (k == 'DoStmt')
        for it in range(self.max_unroll):
            nxt = []
            for q in cur:
                if q.status != 'run':
                    out.append((q, None, None))
                    continue
                if first:
                    conds = [(q, T)]
                elif cnode and 'kind' in cnode:
                    conds = self.cond(cnode, q)
                else:
                    conds = [(q, T)]
                for q2, pr in conds:
                    if pr != T:
                        b = q2 if pr == F else q2.fork()
                        b.pc = p_and(b.pc, p_not(pr))
                        if b.pc != F:
                            out.append((b, None, None))
                    if pr != F:
                        a = q2 if pr == T else q2.fork()
                        a.pc = p_and(a.pc, pr)
                        if a.pc == F:
                            continue
                        for r, f, rv in self.stmt(body, a):
                            if f == 'break':
                                out.append((r, None, None))
                            elif f == 'return':
                                out.append((r, f, rv))
                            elif r.status != 'run':
                                out.append((r, None, None))
                            else:
                                if inc and 'kind' in inc:
                                    for r2, _ in self.expr(inc, r):
                                        nxt.append(r2)
                                else:
                                    nxt.append(r)
            first = False
            cur = nxt
            if not cur:
                return out
        raise AnalysisBroken('loop at %s not finished after %d unrollings' % (pos(n), self.max_unroll))

    # ---------------------------------------------------------------------------------------
    def truth(self, v):
        if isinstance(v, V):
            return v_to_pred(v)
        if isinstance(v, Ref):
            if v.what == 'nullptr':
                return F
            return ('opaque', 'nonnull', repr(v))
        if isinstance(v, StrV):
            return T
        raise AnalysisBroken('truth value of %r' % (v,))

    def cond(self, n, p):
        return [(q, self.truth(v) if q.status == 'run' else F) for q, v in self.expr(n, p)]

    def conv(self, v, w, signed_src):
        if not isinstance(v, V):
            return v
        if v.w == w:
            return v
        if v.w > w:
            return trunc(v, w)
        return sext(v, w) if signed_src else zext(v, w)

    def convert(self, v, src_node, dst_node):
        """Convert value of src_node's type to dst_node's type (integers only)."""
        if not isinstance(v, V):
            return v
        td = tinfo(dst_node, self.idx)
        ts = tinfo(src_node, self.idx)
        if td is None:
            return v
        return self.conv(v, td[0], ts[1] if ts else False)

    # -- lvalues ----------------------------------------------------------------------------
    def lval(self, n, p):
        n = strip_noncast(n)
        k = n['kind']
        if k == 'MemberExpr':
            base_ = strip_noncast(children(n)[0]) if children(n) else None
            if base_ is not None and base_['kind'] == 'CXXThisExpr':
                return [(p, ('field', self.prefix + n['name'], n))]
            if base_ is not None and base_['kind'] == 'ImplicitCastExpr' and base_.get('castKind') == 'LValueToRValue':
                # p->m where p is itself a pointer-valued lvalue
                out = []
                for q, lv in self.lval(children(base_)[0], p):
                    if lv[0] in ('field', 'deref'):
                        out.append((q, ('field', lv[1] + '->' + n['name'], n)))
                    elif lv[0] == 'local':
                        val = q.locals.get(lv[1])
                        nm = val.data if isinstance(val, Ref) and val.what == 'object' else lv[2].get('referencedDecl', {}).get('name', 'ptr')
                        out.append((q, ('field', str(nm) + '->' + n['name'], n)))
                    else:
                        raise AnalysisBroken('unsupported pointer base %r at %s' % (lv[0], pos(n)))
                return out
            if base_ is not None:
                # member of a sub-object / of a referenced object: hierarchical field name
                out = []
                for q, lv in self.lval(base_, p):
                    if lv[0] == 'field':
                        out.append((q, ('field', lv[1] + '.' + n['name'], n)))
                    elif lv[0] == 'deref':
                        out.append((q, ('field', lv[1] + '->' + n['name'], n)))
                    elif lv[0] == 'mem' and str(lv[1]).startswith('ARRAY:'):
                        # member of an element of an array of structs: one store per member, indexed like the array
                        out.append((q, ('mem', self.h.array_space(lv[1][len('ARRAY:'):] + '.' + n['name']), lv[2], n)))
                    else:
                        raise AnalysisBroken('unsupported member access base %r at %s' % (lv[0], pos(n)))
                return out
        if k == 'DeclRefExpr':
            r = n.get('referencedDecl', {})
            if r.get('kind') in ('VarDecl', 'ParmVarDecl', 'BindingDecl'):
                al = p.locals.get(r['id'])
                if isinstance(al, _Alias):
                    return [(p, al.lv)]
                return [(p, ('local', r['id'], n))]
            raise AnalysisBroken('unsupported reference %s at %s' % (r.get('kind'), pos(n)))
        if k == 'CXXMemberCallExpr':
            kind, name, did, obj = callee_of(n)
            f = self.idx.func_by_id.get(did)
            o = strip_noncast(obj) if obj else None
            while o is not None and o['kind'] == 'ImplicitCastExpr' and o.get('castKind') == 'NoOp' and children(o):
                o = strip_noncast(children(o)[0])
            if f is not None and (f.body is not None or getattr(f, 'defn', None)) and o is not None and o['kind'] == 'CXXThisExpr' \
                    and '&' in f.type.split('(')[0]:
                # a member function that hands out a reference to one of the object's members (e.g. the stream a number selects)
                self.__dict__.setdefault('_ret_lval', []).append(True)
                try:
                    res = self.inline(f, call_args(n), p, n)
                finally:
                    self._ret_lval.pop()
                out = []
                for q, rv in res:
                    if not isinstance(rv, _LVal):
                        raise AnalysisBroken('%s does not return an object on every path (%s)' % (f.qname, pos(n)))
                    out.append((q, rv.lv))
                return out
        if k == 'CXXOperatorCallExpr':
            kind, name, did, obj = callee_of(n)
            ch = children(n)
            hr = self.h.member_call(self, n, name, ch[1] if len(ch) > 1 else None, ch[2:], p)
            if hr is not None:
                return [(q, ('val', v)) for q, v in hr]
            if name == 'operator[]':
                out = []
                for q, alv in self.lval(ch[1], p):
                    if alv[0] not in ('field', 'deref'):
                        raise AnalysisBroken('operator[] on unsupported object at %s' % pos(n))
                    space = self.h.array_space(alv[1])
                    if space is None:
                        raise AnalysisBroken('operator[] on field %s which is not a modelled array (%s)' % (alv[1], pos(n)))
                    for q2, v in self.expr(ch[2], q):
                        out.append((q2, ('mem', space, v, n)))
                return out
            if name in ('operator->', 'operator*'):
                out = []
                for q, lv in self.lval(ch[1], p):
                    if lv[0] == 'local':
                        val = q.locals.get(lv[1])
                        if isinstance(val, Ref) and val.what == 'object':
                            out.append((q, ('deref', val.data, n)))
                            continue
                    if lv[0] in ('field', 'deref'):
                        out.append((q, ('deref', lv[1], n)))
                        continue
                    raise AnalysisBroken('unsupported smart-pointer dereference at %s' % pos(n))
                return out
        if k == 'ArraySubscriptExpr':
            ch = children(n)
            out = []
            for q, alv in self.lval(strip_noncast_casts(ch[0]), p):
                if alv[0] not in ('field', 'deref'):
                    raise AnalysisBroken('subscript of unsupported object at %s' % pos(n))
                space = self.h.array_space(alv[1])
                if space is None:
                    raise AnalysisBroken('subscript of field %s which is not a modelled array (%s)' % (alv[1], pos(n)))
                for q2, v in self.expr(ch[1], q):
                    out.append((q2, ('mem', space, v, n)))
            return out
        if k == 'UnaryOperator' and n.get('opcode') == '*':
            return self.lval(children(n)[0], p)
        if k in ('ImplicitCastExpr', 'CXXStaticCastExpr', 'CStyleCastExpr') and n.get('castKind') in ('NoOp', 'DerivedToBase', 'UncheckedDerivedToBase'):
            return self.lval(children(n)[0], p)
        raise AnalysisBroken('unsupported lvalue %s at %s' % (k, pos(n)))

    def load(self, p, lv):
        if lv[0] == 'val':
            return lv[1]
        if lv[0] in ('field', 'deref'):
            name = lv[1]
            if name not in p.fields:
                ti = tinfo(lv[2], self.idx) if len(lv) > 2 else None
                if ti is None:
                    return Ref('field', name)
                p.fields[name] = self.h.initial_field(name, ti[0])
            if name not in p.written:
                p.read_before_write.add(name)
            return p.fields[name]
        if lv[0] == 'local':
            if lv[1] not in p.locals:
                ti = tinfo(lv[2], self.idx)
                nm = lv[2].get('referencedDecl', {}).get('name', lv[1])
                if ti is None:
                    return Ref('param', nm)
                p.locals[lv[1]] = var('arg:' + nm, ti[0])
            return p.locals[lv[1]]
        if lv[0] == 'mem':
            space, addr = lv[1], lv[2]
            addr = self.addr_norm(addr)
            for s, a, v in reversed(p.stores):
                if s != space:
                    continue
                if a == addr:
                    return v
                # a store to a possibly-equal address: only proceed if provably different
                d = sub(a, addr) if a.w == addr.w else None
                if d is None or not (d.isconst() and d.c != 0):
                    raise AnalysisBroken('read of %s[%r] after a store to a possibly aliasing address %r' % (space, addr, a))
            return mem(space, addr)
        raise AnalysisBroken('load from %r' % (lv[0],))

    def addr_norm(self, a):
        return a

    def store(self, p, lv, v):
        if lv[0] in ('field', 'deref'):
            p.fields[lv[1]] = v
            p.written.add(lv[1])
        elif lv[0] == 'local':
            p.locals[lv[1]] = v
        elif lv[0] == 'mem':
            p.stores.append((lv[1], self.addr_norm(lv[2]), v))
        else:
            raise AnalysisBroken('store to %r' % (lv[0],))

    # -- expressions ------------------------------------------------------------------------
    def expr(self, n, p):
        if p.status != 'run':
            return [(p, const(1, 0))]
        k = n['kind']
        ch = children(n)
        if k in ('ParenExpr', 'ExprWithCleanups', 'MaterializeTemporaryExpr', 'CXXBindTemporaryExpr', 'ConstantExpr',
                 'CXXDefaultArgExpr', 'SubstNonTypeTemplateParmExpr'):
            if k == 'ConstantExpr' and 'value' in n and tinfo(n, self.idx):
                return [(p, const(tinfo(n, self.idx)[0], int(n['value'])))]
            if not ch:
                return [(p, Ref('default-arg'))]
            return self.expr(ch[0], p)
        if k == 'IntegerLiteral':
            w, _ = tinfo(n, self.idx) or (32, True)
            return [(p, const(w, int(n['value'])))]
        if k == 'CharacterLiteral':
            return [(p, const(8, int(n['value'])))]
        if k == 'CXXBoolLiteralExpr':
            return [(p, const(1, 1 if n['value'] else 0))]
        if k == 'CXXNullPtrLiteralExpr':
            return [(p, Ref('nullptr'))]
        if k == 'StringLiteral':
            from .cast import string_lit
            return [(p, StrV('lit', string_lit(n)))]
        if k == 'CXXThisExpr':
            return [(p, Ref('this'))]
        if k == 'UnaryExprOrTypeTraitExpr':
            at = (n.get('argType') or {}).get('qualType')
            ti = tinfo(at, self.idx) if at else None
            if n.get('name') == 'sizeof' and ti:
                return [(p, const(64, ti[0] // 8))]
            raise AnalysisBroken('unsupported sizeof/alignof at %s' % pos(n))
        if k in ('ImplicitCastExpr', 'CStyleCastExpr', 'CXXStaticCastExpr', 'CXXFunctionalCastExpr', 'CXXReinterpretCastExpr', 'CXXConstCastExpr'):
            ck = n.get('castKind')
            sub_ = ch[-1] if k != 'CXXFunctionalCastExpr' else ch[0]
            if ck == 'LValueToRValue':
                return [(q, self.load(q, lv)) for q, lv in self.lval(sub_, p)]
            if ck in ('IntegralCast', 'NoOp', 'BooleanToSignedIntegral'):
                ti = tinfo(n, self.idx)
                ts = tinfo(sub_, self.idx)
                out = []
                for q, v in self.expr(sub_, p):
                    if ti and isinstance(v, V):
                        v = self.conv(v, ti[0], ts[1] if ts else False)
                    out.append((q, v))
                return out
            if ck == 'IntegralToBoolean':
                return [(q, pred_to_v(p_not(p_eq(v, const(v.w, 0))))) for q, v in self.expr(sub_, p)]
            if ck == 'PointerToBoolean':
                return [(q, pred_to_v(self.truth(v))) for q, v in self.expr(sub_, p)]
            if ck in ('ArrayToPointerDecay', 'FunctionToPointerDecay', 'ConstructorConversion', 'UserDefinedConversion',
                      'DerivedToBase', 'UncheckedDerivedToBase', 'BitCast', 'NullToPointer', 'ToVoid'):
                if sub_['kind'] in ('DeclRefExpr', 'MemberExpr') and ck in ('ArrayToPointerDecay', 'DerivedToBase', 'UncheckedDerivedToBase', 'BitCast'):
                    try:
                        return [(q, Ref('lvalue', lv[:2])) for q, lv in self.lval(sub_, p)]
                    except AnalysisBroken:
                        pass
                return self.expr(sub_, p)
            raise AnalysisBroken('unsupported cast %s at %s' % (ck, pos(n)))
        if k == 'MemberExpr' or k == 'DeclRefExpr' or k == 'ArraySubscriptExpr':
            if k == 'DeclRefExpr':
                r = n.get('referencedDecl', {})
                if r.get('kind') == 'EnumConstantDecl':
                    ec = self.idx.enum_consts.get(r.get('id'))
                    if ec is None:
                        raise AnalysisBroken('unknown enumerator %s' % r.get('name'))
                    return [(p, const(32, ec[2]))]
                if r.get('kind') == 'VarDecl' and r.get('id') not in p.locals:
                    from .cast import const_int
                    d = self.idx.by_id.get(r.get('id'))
                    cv = const_int(n, self.idx)
                    if cv is not None:
                        ti = tinfo(n, self.idx) or (32, True)
                        return [(p, const(ti[0], cv))]
                    return [(p, Ref('global', r.get('name')))]
                if r.get('kind') in ('FunctionDecl', 'CXXMethodDecl'):
                    return [(p, Ref('function', r.get('name')))]
            lvs = self.lval(n, p)
            return [(q, self.load(q, lv)) for q, lv in lvs]
        if k == 'UnaryOperator':
            op = n['opcode']
            if op in ('++', '--'):
                out = []
                for q, lv in self.lval(ch[0], p):
                    v = self.load(q, lv)
                    nv = add(v, const(v.w, 1)) if op == '++' else sub(v, const(v.w, 1))
                    self.store(q, lv, nv)
                    out.append((q, v if n.get('isPostfix') else nv))
                return out
            if op == '!':
                return [(q, pred_to_v(p_not(self.truth(v)))) for q, v in self.expr(ch[0], p)]
            if op == '-':
                return [(q, neg(v)) for q, v in self.expr(ch[0], p)]
            if op == '~':
                return [(q, bnot(v)) for q, v in self.expr(ch[0], p)]
            if op == '+':
                return self.expr(ch[0], p)
            if op == '&':
                return [(q, Ref('addr', lv[:3] if lv[0] == 'mem' else lv[:2])) for q, lv in self.lval(ch[0], p)]
            if op == '*':
                return [(q, self.load(q, lv)) for q, lv in self.lval(n, p)]
            raise AnalysisBroken('unsupported unary operator %s at %s' % (op, pos(n)))
        if k == 'ConditionalOperator':
            out = []
            for q, pr in self.cond(ch[0], p):
                if pr == T:
                    out += self.expr(ch[1], q)
                elif pr == F:
                    out += self.expr(ch[2], q)
                else:
                    # both arms must be effect free to merge; otherwise fork
                    if _pure(ch[1]) and _pure(ch[2]):
                        for q2, a in self.expr(ch[1], q):
                            for q3, b in self.expr(ch[2], q2):
                                if isinstance(a, V) and isinstance(b, V):
                                    out.append((q3, ite(pr, a, b)))
                                else:
                                    raise AnalysisBroken('non-integer conditional at %s' % pos(n))
                    else:
                        a = q.fork()
                        a.pc = p_and(a.pc, pr)
                        out += self.expr(ch[1], a)
                        b = q
                        b.pc = p_and(b.pc, p_not(pr))
                        out += self.expr(ch[2], b)
            return out
        if k == 'CompoundAssignOperator':
            op = n['opcode'][:-1]
            out = []
            for q, b in self.expr(ch[1], p):
                for q2, lv in self.lval(ch[0], q):
                    a = self.load(q2, lv)
                    tl = tinfo(ch[0], self.idx)
                    tc = tinfo(n.get('computeResultType', {}).get('qualType'), self.idx) if n.get('computeResultType') else None
                    w = (tc or tl or (a.w, False))[0]
                    r = self.binop(op, self.conv(a, w, tl[1] if tl else False), self.conv(b, w, (tinfo(ch[1], self.idx) or (0, False))[1]),
                                   (tc or tl or (0, False))[1], n)
                    r = self.conv(r, a.w, False)
                    self.store(q2, lv, r)
                    out.append((q2, r))
            return out
        if k == 'BinaryOperator':
            op = n['opcode']
            L, R = ch
            if op == '=':
                out = []
                for q, v in self.expr(R, p):
                    for q2, lv in self.lval(L, q):
                        v2 = self.convert(v, R, L)
                        self.store(q2, lv, v2)
                        out.append((q2, v2))
                return out
            if op == ',':
                out = []
                for q, _ in self.expr(L, p):
                    out += self.expr(R, q)
                return out
            if op in ('&&', '||'):
                out = []
                for q, a in self.cond(L, p):
                    if (op == '&&' and a == F) or (op == '||' and a == T):
                        out.append((q, pred_to_v(a)))
                        continue
                    if _pure(R):
                        for q2, b in self.cond(R, q):
                            out.append((q2, pred_to_v(p_and(a, b) if op == '&&' else p_or(a, b))))
                    else:
                        # the right operand has effects: it is evaluated only on the sub-path on which the left operand does not decide
                        decided = a if op == '||' else p_not(a)
                        qd = q.fork()
                        qd.pc = p_and(qd.pc, decided)
                        if qd.pc != F:
                            out.append((qd, pred_to_v(T if op == '||' else F)))
                        q.pc = p_and(q.pc, p_not(decided))
                        if q.pc != F:
                            for q2, b in self.cond(R, q):
                                out.append((q2, pred_to_v(b)))
                return out
            out = []
            tl = tinfo(L, self.idx)
            for q, a in self.expr(L, p):
                for q2, b in self.expr(R, q):
                    out.append((q2, self.binop(op, a, b, tl[1] if tl else False, n)))
            return out
        if k == 'CXXThrowExpr':
            p.status = 'throw'
            p.thrown = qt(ch[0]) if ch else '(rethrow)'
            return [(p, const(1, 0))]
        if k in ('CXXMemberCallExpr', 'CallExpr', 'CXXOperatorCallExpr'):
            return self.call(n, p)
        if k in ('CXXConstructExpr', 'CXXTemporaryObjectExpr'):
            real = [c for c in ch if c['kind'] != 'CXXDefaultArgExpr']
            t = dqt(n)
            if 'basic_format' in t or 'boost::format' in qt(n):
                out = []
                for q, v in self.expr(real[0], p):
                    out.append((q, StrV('format', v.args[0] if isinstance(v, StrV) and v.kind == 'lit' else v)))
                return out
            if 'basic_string' in t:
                if not real:
                    return [(p, StrV('lit', ''))]
                out = []
                for q, v in self.expr(real[0], p):
                    out.append((q, v if isinstance(v, StrV) else StrV('string', v)))
                return out
            if len(real) == 1:
                return self.expr(real[0], p)
            raise AnalysisBroken('unsupported construction of %s at %s' % (qt(n), pos(n)))
        if k == 'CXXDynamicCastExpr':
            return self.expr(ch[0], p)
        if k == 'InitListExpr':
            return [(p, Ref('initlist'))]
        raise AnalysisBroken('unsupported expression %s at %s' % (k, pos(n)))

    def binop(self, op, a, b, signed, n=None):
        if not (isinstance(a, V) and isinstance(b, V)):
            if op in ('==', '!=') and isinstance(a, Ref) and isinstance(b, Ref):
                if a.what == 'nullptr' or b.what == 'nullptr':
                    o = a if b.what == 'nullptr' else b
                    pr = F if o.what == 'nullptr' else ('opaque', 'nonnull', repr(o))
                    pr = p_not(pr) if o.what != 'nullptr' else T
                    return pred_to_v(pr if op == '==' else p_not(pr))
            if op == '+' and (isinstance(a, StrV) or isinstance(b, StrV)):
                return StrV('concat', a, b)
            raise AnalysisBroken('binary %s on non-integer values (%r, %r) at %s' % (op, a, b, pos(n) if n else '?'))
        if op in ('+', '-', '|', '&', '^', '*'):
            w = max(a.w, b.w)
            a = self.conv(a, w, False)
            b = self.conv(b, w, False)
            if op == '+':
                return add(a, b)
            if op == '-':
                return sub(a, b)
            if op == '*':
                if b.isconst():
                    return mulc(a, b.c)
                if a.isconst():
                    return mulc(b, a.c)
                return app('mul', w, *sorted([a, b], key=repr))
            return bitop({'|': 'or', '&': 'and', '^': 'xor'}[op], a, b)
        if op == '<<':
            if b.isconst():
                return shl(a, b.c)
            return app('dynshl', a.w, a, zext(b, 32) if b.w < 32 else b)
        if op == '>>':
            if b.isconst():
                return ashr(a, b.c) if signed else shr(a, b.c)
            if signed:
                return app('dynashr', a.w, a, b)
            return dyn_extract(a, b, a.w)
        if op in ('==', '!='):
            w = max(a.w, b.w)
            pr = p_eq(self.conv(a, w, False), self.conv(b, w, False))
            return pred_to_v(pr if op == '==' else p_not(pr))
        if op in ('<', '<=', '>', '>='):
            w = max(a.w, b.w)
            a = self.conv(a, w, signed)
            b = self.conv(b, w, signed)
            if a.isconst() and b.isconst():
                x, y = a.c, b.c
                if signed:
                    x = x - (1 << w) if x >> (w - 1) else x
                    y = y - (1 << w) if y >> (w - 1) else y
                return const(1, int({'<': x < y, '<=': x <= y, '>': x > y, '>=': x >= y}[op]))
            if signed and b.isconst() and b.c == 0:
                if op == '<':
                    return pred_to_v(p_slt0(a))
                if op == '>=':
                    return pred_to_v(p_not(p_slt0(a)))
            if not signed and b.isconst():
                # unsigned comparison with a constant decided by the bit view when possible
                d = _ucmp_const(a, op, b.c)
                if d is not None:
                    return const(1, int(d))
            # canonical form: only the strict order is an atom; a <= b is not (b < a), so complementary tests meet
            lt = 'slt' if signed else 'ult'
            if op == '<':
                return app(lt, 1, a, b)
            if op == '>':
                return app(lt, 1, b, a)
            if op == '<=':
                return pred_to_v(p_not(self.truth(app(lt, 1, b, a))))
            return pred_to_v(p_not(self.truth(app(lt, 1, a, b))))
        if op in ('/', '%'):
            if b.isconst() and b.c and (b.c & (b.c - 1)) == 0 and not signed:
                sh = b.c.bit_length() - 1
                return shr(a, sh) if op == '/' else zext(trunc(a, sh), a.w) if sh else const(a.w, 0)
            if a.isconst() and b.isconst() and b.c:
                return const(a.w, a.c // b.c if op == '/' else a.c % b.c)
            return app('div' if op == '/' else 'rem', a.w, a, b)
        raise AnalysisBroken('unsupported binary operator %s' % op)

    # -- calls ------------------------------------------------------------------------------
    def eval_args(self, nodes, p):
        res = [(p, [])]
        for a in nodes:
            res = [(q2, args + [v]) for q, args in res for q2, v in self.expr(a, q)]
        return res

    def call(self, n, p):
        kind, name, did, obj = callee_of(n)
        args = call_args(n)
        if n['kind'] == 'CXXOperatorCallExpr':
            r = self.h.member_call(self, n, name, args[0] if args else None, args[1:], p)
            if r is not None:
                return r
            if name == 'operator[]':
                return [(q, self.load(q, lv)) for q, lv in self.lval(n, p)]
            if name in ('operator<<', 'operator%'):
                out = []
                for q, vals in self.eval_args(args, p):
                    l, r_ = vals[0], vals[1]
                    if name == 'operator%':
                        out.append((q, StrV('format', *(list(l.args) if isinstance(l, StrV) and l.kind == 'format' else [l]) + [r_])))
                    else:
                        stream = l
                        if isinstance(l, StrV) and l.kind == 'stream':
                            stream = l
                        q.events.append(('print', _stream_name(stream), r_))
                        out.append((q, stream))
                return out
            if name == 'operator+' and len(args) == 2:
                return [(q, StrV('concat', vals[0], vals[1])) for q, vals in self.eval_args(args, p)]
            if name in ('operator->', 'operator*'):
                return [(q, Ref('object', lv[1])) for q, lv in self.lval(n, p)]
            if name == 'operator=' and len(args) == 2:
                out = []
                for q, v in self.expr(args[1], p):
                    for q2, lv in self.lval(args[0], q):
                        self.store(q2, lv, v)
                        out.append((q2, v))
                return out
            if name == 'operator+=' and len(args) == 2:
                out = []
                for q, v in self.expr(args[1], p):
                    for q2, lv in self.lval(args[0], q):
                        old = self.load(q2, lv)
                        nv = StrV('concat', old, v)
                        self.store(q2, lv, nv)
                        out.append((q2, nv))
                return out
            if name in ('operator|', 'operator&') and len(args) == 2:
                # flag enumerations with overloaded bit operators (std::ios_base::openmode)
                out = []
                for q, vals in self.eval_args(args, p):
                    a_, b_ = vals
                    if isinstance(a_, Ref) and isinstance(b_, Ref) and a_.what == b_.what and a_.what in ('global', 'param') and name == 'operator|':
                        # named flag constants: the set of names; std::ios::binary has no effect on POSIX hosts and is dropped
                        names = sorted(set(str(a_.data).split('|') + str(b_.data).split('|')) - {'binary'})
                        out.append((q, Ref(a_.what, '|'.join(names)) if names else Ref(a_.what, 'binary')))
                        continue
                    if not (isinstance(a_, V) and isinstance(b_, V)):
                        raise AnalysisBroken('unsupported operands of %s at %s' % (name, pos(n)))
                    out.append((q, bitop('or' if name == 'operator|' else 'and', a_, b_)))
                return out
            raise AnalysisBroken('unsupported operator call %s at %s' % (name, pos(n)))
        if kind == 'method':
            o = strip_noncast(obj) if obj else None
            while o is not None and o['kind'] == 'ImplicitCastExpr' and o.get('castKind') == 'NoOp' and children(o):
                o = strip_noncast(children(o)[0])      # this -> const T* for a call of a const member
            if o is not None and o['kind'] == 'CXXThisExpr':
                f = self.idx.func_by_id.get(did)
                r = self.h.member_call(self, n, name, obj, args, p)
                if r is not None:
                    return r
                if f is None or (f.body is None and not getattr(f, 'defn', None)):
                    raise AnalysisBroken('call of method %s without a body at %s' % (name, pos(n)))
                return self.inline(f, args, p, n)
            r = self.h.member_call(self, n, name, obj, args, p)
            if r is not None:
                return r
            f = self.idx.func_by_id.get(did)
            if f is not None and (f.body is not None or getattr(f, 'defn', None)) and o is not None and o['kind'] == 'DeclRefExpr' \
                    and o.get('referencedDecl', {}).get('kind') == 'VarDecl' and o['referencedDecl'].get('id') not in p.locals:
                # method of a namespace-scope object: its fields are named <object>.<field>
                saved = self.prefix
                self.prefix = o['referencedDecl'].get('name', 'global') + '.'
                try:
                    return self.inline(f, args, p, n, arg_prefix=saved)
                finally:
                    self.prefix = saved
            if f is not None and (f.body is not None or getattr(f, 'defn', None)) and o is not None and o['kind'] == 'MemberExpr':
                # method of a member sub-object: inline with a field-name prefix
                out = []
                for q, lv in self.lval(o, p):
                    if lv[0] != 'field':
                        raise AnalysisBroken('call on unsupported object at %s' % pos(n))
                    saved = self.prefix
                    self.prefix = lv[1] + '.'
                    try:
                        out += self.inline(f, args, q, n, arg_prefix=saved)
                    finally:
                        self.prefix = saved
                return out
            if name in ('eof', 'fail', 'good', 'bad', 'is_open') and o is not None and ('basic_ios' in qt(o) + dqt(o) or 'stream' in qt(o) + dqt(o)):
                # state of a host stream: an unknown of the environment, distinct per query point (number of inputs consumed so far)
                who = (o.get('referencedDecl') or {}).get('name') or o.get('name') or 'stream'
                return [(p, var('%s(%s)@%d' % (name, who, p.nin), 1))]
            raise AnalysisBroken('unmodelled member call %s on %s at %s' % (name, qt(o) if o else '?', pos(n)))
        if kind == 'function':
            r = self.h.free_call(self, n, name, args, p)
            if r is not None:
                return r
            f = self.idx.func_by_id.get(did)
            if f is not None and (f.body is not None or getattr(f, 'defn', None)):
                return self.inline(f, args, p, n)
            if name in ('to_string',):
                return [(q, StrV('to_string', vals[0])) for q, vals in self.eval_args(args, p)]
            if name == 'eof' and not args:
                return [(p, const(32, 0xFFFFFFFF))]          # std::char_traits<char>::eof() == EOF == -1
            raise AnalysisBroken('unmodelled call of %s at %s' % (name, pos(n)))
        raise AnalysisBroken('unresolved call at %s' % pos(n))

    def inline(self, f, arg_nodes, p, n, arg_prefix=None):
        if getattr(f, 'defn', None) and f.body is None:
            f = f.defn
        if self.depth >= self.max_depth:
            raise AnalysisBroken('inlining depth exceeded at %s' % f.qname)
        self.inlined.add(f.qname)
        out = []
        if arg_prefix is not None:
            cur = self.prefix
            self.prefix = arg_prefix
            try:
                evald = self.eval_args(arg_nodes, p)
            finally:
                self.prefix = cur
        else:
            evald = self.eval_args(arg_nodes, p)
        for q, vals in evald:
            saved = q.locals
            q.locals = dict(saved)
            for prm, v, an in zip(f.params, vals, arg_nodes):
                q.locals[prm['id']] = self.convert(v, an, prm)
            self.depth += 1
            rl = self.__dict__.setdefault('_ret_lval', [])
            want_ref = bool(rl) and rl[-1] and getattr(self, '_ret_lval_depth', None) is None
            if want_ref:
                self._ret_lval_depth = self.depth
            else:
                rl.append(False)
            try:
                res = self.stmt(f.body, q)
            finally:
                self.depth -= 1
                if want_ref:
                    self._ret_lval_depth = None
                else:
                    rl.pop()
            for r, fl, rv in res:
                r.locals = dict(saved) if r is q else {k: v for k, v in r.locals.items() if k in saved}
                rt = tinfo(f.node.get('type', {}).get('qualType', '').split('(')[0].strip(), self.idx)
                if isinstance(rv, _LVal):
                    pass
                elif rv is None:
                    rv = const(1, 0)
                elif rt and isinstance(rv, V):
                    rv = self.conv(rv, rt[0], False)
                out.append((r, rv))
        return out

    def run_function(self, f, p, args=None):
        """Interpret a function body from path p with parameters bound to `args` (dict name -> value)."""
        for prm in f.params:
            if args and prm.get('name') in args:
                p.locals[prm['id']] = args[prm['name']]
        return self.stmt(f.body, p)


class _LVal:
    """An object (lvalue) returned by reference from an inlined member function."""

    def __init__(self, lv):
        self.lv = lv


def strip_noncast_casts(n):
    while n.get('kind') in ('ImplicitCastExpr', 'ParenExpr') and n.get('castKind') in (None, 'ArrayToPointerDecay', 'NoOp'):
        n = children(n)[0]
    return n


def _stream_name(v):
    if isinstance(v, Ref):
        return v.what + (':' + str(v.data) if v.data is not None else '')
    return repr(v)


def _pure(n):
    from .cast import walk
    for x in walk(n):
        k = x['kind']
        if k in ('CXXMemberCallExpr', 'CallExpr', 'CXXThrowExpr', 'CompoundAssignOperator', 'CXXConstructExpr'):
            return False
        if k == 'CXXOperatorCallExpr':
            nm = callee_of(x)[1]
            if nm not in ('operator[]', 'operator->', 'operator*'):
                return False
        if k == 'BinaryOperator' and x.get('opcode') == '=':
            return False
        if k == 'UnaryOperator' and x.get('opcode') in ('++', '--'):
            return False
    return True


def _ucmp_const(a, op, c):
    """Decide an unsigned comparison of a bit-structured term with a constant, if the known bits suffice."""
    bits = to_bits(a)
    if bits is None:
        return None
    lo = sum((1 << i) for i, b in enumerate(bits) if b == 1)
    hi = sum((1 << i) for i, b in enumerate(bits) if b != 0)
    tests = {'<': (hi < c, lo >= c), '<=': (hi <= c, lo > c), '>': (lo > c, hi <= c), '>=': (lo >= c, hi < c)}
    t, f = tests[op]
    if t:
        return True
    if f:
        return False
    return None
