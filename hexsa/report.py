"""Evidence files, VIOLATION / KNOWN-FINDING lines, replay files, instance floors."""
import json, os, sys, time
from .frontend import VERIF, AnalysisBroken

EVID_DIR = os.environ.get('HEXSA_EVIDENCE_DIR') or os.path.join(VERIF, 'evidence')
REPLAY_DIR = os.path.join(EVID_DIR, 'replay')
KNOWN = os.path.join(VERIF, 'known_findings.json')


def load_known():
    if not os.path.exists(KNOWN):
        return []
    with open(KNOWN) as fh:
        return json.load(fh).get('findings', [])


class Instance:
    """One decided rule instance."""
    __slots__ = ('rule', 'key', 'ok', 'where', 'detail', 'nontrivial', 'data')

    def __init__(self, rule, key, ok, where='', detail='', nontrivial=True, data=None):
        self.rule = rule
        self.key = key          # line-independent semantic instance id
        self.ok = ok
        self.where = where      # file:line (for humans) + qualified function
        self.detail = detail
        self.nontrivial = nontrivial
        self.data = data


class Report:
    def __init__(self, prop, tier, seed):
        self.prop = prop
        self.tier = tier
        self.seed = seed
        self.t0 = time.time()
        self.instances = []
        self.floors = {}        # rule -> (minimum instance count, reason)
        self.rules = {}         # rule -> description
        self.units = set()
        self.functions = set()
        self.assumptions = []
        self.trusted = []
        self.explanation = ''
        self.exhaustive = None
        self.extra = {}
        self.notes = []
        self.broken = []

    # ---------------------------------------------------------------------------------------
    def rule(self, rid, text, floor=0, floor_reason=''):
        self.rules[rid] = text
        if floor:
            self.floors[rid] = (floor, floor_reason)

    def add(self, rule, key, ok, where='', detail='', nontrivial=True, data=None):
        self.instances.append(Instance(rule, key, bool(ok), where, detail, nontrivial, data))
        return bool(ok)

    def analysed(self, func=None, unit=None):
        if func:
            self.functions.add(func)
        if unit:
            self.units.add(unit)

    def note(self, s):
        self.notes.append(s)

    def undecided(self, rule, key, why, where=''):
        self.broken.append('%s [%s] %s %s' % (rule, key, where, why))

    # ---------------------------------------------------------------------------------------
    def finish(self):
        """Writes evidence, prints verdict lines; returns the exit code."""
        known = [k for k in load_known() if k.get('property') == self.prop]
        viol = []
        matched_known = []
        for inst in self.instances:
            if inst.ok:
                continue
            k = next((k for k in known if k.get('status') == 'known' and k.get('rule') == inst.rule
                      and k.get('instance') == inst.key), None)
            if k is not None:
                matched_known.append((inst, k))
            else:
                viol.append(inst)
        # floors: a rule that matched fewer instances than confirmed by hand is analysis-broken
        counts = {}
        for inst in self.instances:
            counts[inst.rule] = counts.get(inst.rule, 0) + 1
        for rid, (floor, why) in self.floors.items():
            if counts.get(rid, 0) < floor:
                self.broken.append('rule %s matched %d instances, confirmed floor is %d (%s)'
                                   % (rid, counts.get(rid, 0), floor, why))
        os.makedirs(REPLAY_DIR, exist_ok=True)
        lines = []
        for n, inst in enumerate(viol):
            rp = os.path.join(REPLAY_DIR, '%s-%s-%d.json' % (self.prop, inst.rule.replace('/', '_'), n))
            with open(rp, 'w') as fh:
                json.dump({'property': self.prop, 'rule': inst.rule, 'instance': inst.key,
                           'where': inst.where, 'detail': inst.detail, 'data': inst.data}, fh, indent=1, default=str)
            lines.append('VIOLATION property=%s replay=%s' % (self.prop, rp))
            sys.stdout.write('  %s %s [%s] at %s: %s\n' % (self.prop, inst.rule, inst.key, inst.where, inst.detail))
        for inst, k in matched_known:
            sys.stdout.write('KNOWN-FINDING: property=%s %s [%s] %s -- %s\n'
                             % (self.prop, inst.rule, inst.key, inst.where, k.get('what', inst.detail)))
        for l in lines:
            sys.stdout.write(l + '\n')
        for b in self.broken:
            sys.stdout.write('ANALYSIS-BROKEN property=%s %s\n' % (self.prop, b))
        dump = os.environ.get('HEXSA_DUMP_VIOLATIONS')
        if dump:
            with open(dump, 'w') as fh:
                json.dump([{'property': self.prop, 'rule': i.rule, 'instance': i.key, 'where': i.where, 'detail': i.detail}
                           for i in viol], fh, indent=1)
        n_ok = sum(1 for i in self.instances if i.ok)
        nontriv = len({(i.rule, i.key) for i in self.instances if i.nontrivial})
        samples = []
        per_rule = {}
        for inst in self.instances:
            per_rule.setdefault(inst.rule, []).append(inst)
        import random
        rnd = random.Random(self.seed)
        for rid, insts in sorted(per_rule.items()):
            pick = insts if len(insts) <= 3 else rnd.sample(insts, 3)
            for i in pick:
                samples.append({'rule': rid, 'instance': i.key, 'where': i.where, 'held': i.ok,
                                'detail': (i.detail or '')[:400]})
        ev = {
            'property_id': self.prop,
            'tier': self.tier,
            'seed': self.seed,
            'level': 'other',
            'coverage': {
                'explanation': self.explanation or ('static analysis of the current /repo tree; rules: ' + '; '.join(
                    '%s: %s' % (r, t) for r, t in sorted(self.rules.items()))),
                'rules': {r: {'text': t, 'instances': counts.get(r, 0),
                              'held': sum(1 for i in per_rule.get(r, []) if i.ok),
                              'floor': self.floors.get(r, (0, ''))[0]} for r, t in sorted(self.rules.items())},
                'obligations': len(self.instances),
                'discharged': n_ok,
                'evaluations': max(1, len(self.instances)),
                'distinct_nontrivial': nontriv,
                'rule': 'one evaluation = one rule instance decided on the current source (instance keys are '
                        'line-independent: rule + qualified function + semantic id); non-trivial = the instance '
                        'needed analysis of a function body / term comparison rather than a table lookup',
                'samples': samples,
                'units': sorted(self.units),
                'functions_analysed': sorted(self.functions),
                'known_findings_matched': [{'rule': i.rule, 'instance': i.key} for i, _ in matched_known],
                'undecided': list(self.broken),
                'trusted_base': self.trusted,
                'checker_cmd': 'python3 -m hexsa.check %s --tier %s' % (self.prop, self.tier),
                'notes': self.notes,
            },
            'assumptions': self.assumptions,
            'wall_s': round(time.time() - self.t0, 2),
            'violations': len(viol),
        }
        if self.exhaustive is not None:
            ev['coverage']['exhaustive'] = bool(self.exhaustive)
        ev['coverage'].update(self.extra)
        os.makedirs(EVID_DIR, exist_ok=True)
        tmp = os.path.join(EVID_DIR, '.%s.json.tmp' % self.prop)
        with open(tmp, 'w') as fh:
            json.dump(ev, fh, indent=1, default=str)
        os.replace(tmp, os.path.join(EVID_DIR, '%s.json' % self.prop))
        sys.stdout.write('%s: %d rule instances decided, %d held, %d known findings, %d violations, %d undecided (%.1fs)\n'
                         % (self.prop, len(self.instances), n_ok, len(matched_known), len(viol), len(self.broken),
                            time.time() - self.t0))
        if viol:
            return 1
        if self.broken:
            return 2
        return 0


class Import:
    """Run another property's rules inside this report: every instance (optionally only those of some rules / matching a key filter)
    is re-filed under one rule id of the importing property with a prefixed key; declarations and metadata of the imported
    module are dropped.  An imported verdict is decided on the current tree like any other -- it is not a cached result."""

    def __init__(self, rep, rid, prefix, only_rules=None, key_filter=None):
        object.__setattr__(self, '_rep', rep)
        object.__setattr__(self, '_rid', rid)
        object.__setattr__(self, '_prefix', prefix)
        object.__setattr__(self, '_only', set(only_rules) if only_rules else None)
        object.__setattr__(self, '_kf', key_filter)
        object.__setattr__(self, '_dummy', {})

    def _want(self, rule, key):
        return (self._only is None or rule in self._only) and (self._kf is None or self._kf(rule, key))

    def rule(self, *a, **k):
        pass

    def add(self, rule, key, ok, where='', detail='', nontrivial=True, data=None):
        if self._want(rule, key):
            return self._rep.add(self._rid, '%s:%s:%s' % (self._prefix, rule, key), ok, where, detail, nontrivial, data)
        return ok

    def undecided(self, rule, key, why, where=''):
        if self._want(rule, key):
            return self._rep.undecided(self._rid, '%s:%s:%s' % (self._prefix, rule, key), why, where)

    def analysed(self, *a, **k):
        return self._rep.analysed(*a, **k)

    def note(self, *a, **k):
        return self._rep.note(*a, **k)

    def __setattr__(self, n, v):
        self._dummy[n] = v

    def __getattr__(self, n):
        if n in ('seed', 'tier', 'prop', 'broken'):
            return getattr(self._rep, n)
        d = object.__getattribute__(self, '_dummy')
        if n not in d:
            d[n] = {} if n == 'extra' else []
        return d[n]
