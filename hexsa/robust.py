"""Robustness rules shared by C09 (xcmp) and C10 (hexasm): exception discipline, use-after-move, checked downcasts,
lexer termination at end of input."""
import os
import re
from . import cast, flow, ivinterp
from .ivinterp import IV, Obj, Vec, const, NeedSplit, Thrown
from .cast import children, walk, qt, dqt, pos, callee_of, call_args, calls_in, strip
from .frontend import AnalysisBroken

STD_EXCEPTIONS = ('std::runtime_error', 'std::logic_error', 'std::exception', 'std::invalid_argument', 'std::out_of_range')


def thrown_types(idx, namespaces):
    """[(function, position, type string)] of every throw expression in the namespaces."""
    out = []
    for f in idx.all_funcs():
        if f.node.get('isImplicit') or not any(f.qname.startswith(ns + '::') for ns in namespaces):
            continue
        for root in ([f.body] if f.body is not None else []) + list(f.inits):
            for x in walk(root):
                if x['kind'] == 'CXXThrowExpr':
                    ch = children(x)
                    t = (dqt(ch[0]) or qt(ch[0])) if ch else '(rethrow)'
                    out.append((f.qname, pos(x), t.replace('const ', '').strip()))
    return out


def derives_from_std_exception(idx, t):
    t = t.replace('struct ', '').replace('class ', '').strip()
    if t in STD_EXCEPTIONS or t == '(rethrow)':
        return True
    q = t if t in idx.records else idx._resolve_record_name(t.split('::')[-1], 'xcmp::Driver')
    seen = set()
    todo = [q]
    while todo:
        c = todo.pop()
        if c is None or c in seen:
            continue
        seen.add(c)
        r = idx.records.get(c)
        if r is None:
            continue
        for b in r.bases:
            b = b.replace('struct ', '').replace('class ', '').strip()
            if b in STD_EXCEPTIONS:
                return True
            todo.append(b if b in idx.records else idx._resolve_record_name(b.split('::')[-1], c))
    return False


def main_containment(idx, main, fallible):
    """Calls to any of `fallible` (names) in main outside a try block -> list of positions."""
    out = []

    def visit(n, in_try):
        k = n.get('kind')
        if k == 'CXXTryStmt':
            ch = children(n)
            visit(ch[0], True)
            for h in ch[1:]:
                visit(h, in_try)
            return
        if k in cast.CALL_KINDS and not in_try:
            nm = callee_of(n)[1]
            if nm in fallible:
                out.append((nm, pos(n)))
        for c in children(n):
            visit(c, in_try)
    visit(main.body, False)
    return out


# --------------------------------------------------------------------------------------------------
# use-after-move
# --------------------------------------------------------------------------------------------------

class MoveClient(flow.Client):
    """state = frozenset of variable ids that have been moved from and not reassigned."""

    def __init__(self):
        self.bad = []

    def _scan(self, e, s):
        s = set(s)
        moved_here = set()
        # uses first (source order approximated by pre-order): a use of an already moved variable is reported
        for x in walk(e):
            k = x['kind']
            if k == 'CallExpr' and callee_of(x)[1] == 'move':
                a = call_args(x)
                vid = cast.decl_ref(a[0]) if a else None
                if vid:
                    moved_here.add(vid)
            if k in ('CXXOperatorCallExpr',) and callee_of(x)[1] in ('operator->', 'operator*'):
                a = call_args(x)
                vid = cast.decl_ref(a[0]) if a else None
                if vid in s:
                    self.bad.append((pos(x), a[0].get('referencedDecl', {}).get('name') if a[0]['kind'] == 'DeclRefExpr' else cast.strip(a[0]).get('referencedDecl', {}).get('name')))
            if k == 'CXXMemberCallExpr':
                kind, name, did, obj = callee_of(x)
                vid = cast.decl_ref(obj) if obj is not None else None
                if vid in s and name not in ('reset', 'operator=', 'get') and 'unique_ptr' in (dqt(obj) + qt(obj)):
                    self.bad.append((pos(x), strip(obj).get('referencedDecl', {}).get('name')))
            if k == 'BinaryOperator' and x.get('opcode') == '=' or (k == 'CXXOperatorCallExpr' and callee_of(x)[1] == 'operator='):
                tgt = children(x)[0] if k == 'BinaryOperator' else (call_args(x)[0] if call_args(x) else None)
                vid = cast.decl_ref(tgt) if tgt is not None else None
                if vid in s:
                    s.discard(vid)
        s |= moved_here
        return frozenset(s)

    def expr(self, e, s):
        return [self._scan(e, s)]

    def decl(self, d, s):
        return [self._scan(d, s)]

    def loop_back_node(self, n, s):
        # variables declared inside the loop (incl. the range-for variable) are new objects in the next iteration
        inner = {x['id'] for x in walk(n) if x['kind'] == 'VarDecl'}
        return frozenset(v for v in s if v not in inner)


def use_after_move(idx, func):
    cl = MoveClient()
    try:
        flow.Flow(cl, idx).run(func.body, {frozenset()})
    except AnalysisBroken:
        raise
    seen = []
    for b in cl.bad:
        if b not in seen:
            seen.append(b)
    return seen


# --------------------------------------------------------------------------------------------------
# checked downcasts
# --------------------------------------------------------------------------------------------------

def downcasts(idx, func):
    """Every dynamic_cast in a function with how its result is used:
    ('tested' | 'deref-guarded:<token>' | 'deref-unguarded', position, target type)."""
    out = []
    if func.body is None:
        return out
    parents = {}
    for n in walk(func.body):
        for c in children(n):
            parents[id(c)] = n

    def enclosing_guard(n):
        """Token names of enclosing `case X:` labels / `if (... == Token::X)` conditions."""
        toks = set()
        x = n
        while id(x) in parents:
            p = parents[id(x)]
            if p['kind'] == 'CaseStmt':
                er = cast.enum_ref(children(p)[0], idx)
                if er:
                    toks.add(er[1])
            if p['kind'] == 'IfStmt':
                ch = children(p)
                cond = ch[1] if p.get('hasVar') or p.get('hasInit') else ch[0]
                then = ch[2] if p.get('hasVar') or p.get('hasInit') else ch[1]
                negated = any(y.get('kind') == 'UnaryOperator' and y.get('opcode') == '!' or
                              y.get('kind') == 'BinaryOperator' and y.get('opcode') == '!=' for y in walk(cond))
                if x is not cond and x is then and not negated:
                    conds = [cond]
                    for y in walk(cond):
                        # a bool local that names the test (`bool isLabel = token == A || token == B;`)
                        if y['kind'] == 'DeclRefExpr' and (y.get('referencedDecl') or {}).get('kind') == 'VarDecl':
                            d_ = idx.by_id.get(y['referencedDecl'].get('id'))
                            if d_ is not None and qt(d_) in ('bool', 'const bool') and children(d_):
                                conds.append(children(d_)[-1])
                    for y in (z for c_ in conds for z in walk(c_)):
                        if y['kind'] == 'DeclRefExpr':
                            er = cast.enum_ref(y, idx)
                            if er:
                                toks.add(er[1])
                        if y['kind'] == 'CXXMemberCallExpr' and callee_of(y)[1] in ('operandIsLabel', 'isSysCall'):
                            toks.add(callee_of(y)[1] + '()')
            if p['kind'] == 'CompoundStmt':
                # statements of a switch body that follow case labels: look backwards for the nearest case label
                sibs = children(p)
                i = next((j for j, s_ in enumerate(sibs) if s_ is x), None)
                if i is not None and id(p) in parents and parents[id(p)]['kind'] == 'SwitchStmt':
                    toks |= _switch_group_tokens(idx, sibs, i)
            x = p
        return toks

    for n in walk(func.body):
        if n['kind'] != 'CXXDynamicCastExpr':
            continue
        tgt = qt(n)
        p = parents.get(id(n))
        # skip value-preserving wrappers
        top = n
        while p is not None and p['kind'] in ('ParenExpr', 'ImplicitCastExpr', 'ExprWithCleanups') and p.get('castKind') not in ('PointerToBoolean',):
            top = p
            p = parents.get(id(p))
        use = 'tested'
        if p is not None and p['kind'] == 'MemberExpr':
            use = 'deref'
        elif p is not None and p['kind'] == 'VarDecl':
            vid = p['id']
            # declared in an if-condition => tested; otherwise look for dereferences not preceded by a null test
            pp = parents.get(id(parents.get(id(p), {})))
            in_if_cond = pp is not None and pp.get('kind') == 'IfStmt' and pp.get('hasVar')
            derefs = [x for x in walk(func.body) if x['kind'] == 'MemberExpr' and x.get('isArrow') and children(x) and cast.decl_ref(children(x)[0]) == vid]
            tested = in_if_cond or any(_null_test(x, vid) for x in walk(func.body))
            use = 'tested' if (tested or not derefs) else 'deref'
        elif p is not None and p['kind'] == 'ImplicitCastExpr' and p.get('castKind') == 'PointerToBoolean':
            use = 'tested'
        if use == 'deref':
            pg = _predicate_guard(idx, func, n, parents)
            if pg:
                out.append(('tested', pos(n), tgt))      # a verified type predicate is as good as a null test
                continue
            g = enclosing_guard(n)
            out.append(('deref-guarded:' + ','.join(sorted(g)) if g else 'deref-unguarded', pos(n), tgt))
        else:
            out.append(('tested', pos(n), tgt))
    return out


def token_class_map(idx, root='hexasm::Directive'):
    """Which directive classes can carry which token: {token name: set(class)}; the key '*' holds classes built with a token the
    site does not fix.  Read from every construction site (constructor calls, make_unique) in the unit and from constructors that
    pass a constant token to their base."""
    hard = {}
    for qn, rec in idx.records.items():
        if not idx.derives_from(qn, root):
            continue
        for c in rec.ctors:
            for ini in c.inits:
                if ini.get('baseInit'):
                    for y in walk(ini):
                        er = cast.enum_ref(y, idx) if y.get('kind') == 'DeclRefExpr' else None
                        if er and 'Token' in str(er[0] or 'Token'):
                            hard.setdefault(qn, set()).add(er[1])
    m = {}
    for f in idx.all_funcs():
        if f.body is None:
            continue
        parents = None
        for n in walk(f.body):
            cls, args = None, None
            if n.get('kind') == 'CallExpr' and callee_of(n)[1] == 'make_unique':
                mm = re.search(r'unique_ptr<((?:class |struct )?[\w:]+)', dqt(n) + ' ' + qt(n))
                if mm:
                    tn = mm.group(1).replace('class ', '').replace('struct ', '')
                    cls = tn if tn in idx.records else idx._resolve_record_name(tn.split('::')[-1], f.cls or f.qname)
                    args = call_args(n)
            elif n.get('kind') in ('CXXConstructExpr', 'CXXTemporaryObjectExpr', 'CXXNewExpr'):
                tn = re.sub(r'^(const )?(class |struct )?', '', qt(n)).replace('*', '').strip()
                cls = tn if tn in idx.records else None
                args = [c for c in children(n) if c.get('kind') != 'CXXDefaultArgExpr']
                if cls and len(args) == 1 and cls.split('::')[-1] in (qt(args[0]) + dqt(args[0])):
                    cls = None          # copy / move
            if not cls or not idx.derives_from(cls, root):
                continue
            targ = [a for a in args if 'Token' in (qt(a) + dqt(a))]
            if not targ:
                for k in hard.get(cls, ()) or ['*']:
                    m.setdefault(k, set()).add(cls)
                continue
            er = cast.enum_ref(targ[0], idx)
            if er:
                m.setdefault(er[1], set()).add(cls)
                continue
            # a token variable: the case labels around the site bound it (parser: `case Token::LDAM: ... make_unique<InstrImm>(opcode, ...)`)
            if parents is None:
                parents = {}
                for a in walk(f.body):
                    for b in children(a):
                        parents[id(b)] = a
            toks = _case_tokens_around(idx, n, parents) if _is_switch_subject(idx, targ[0], n, parents) else set()
            for k in toks or ['*']:
                m.setdefault(k, set()).add(cls)
    return m


def _switch_group_tokens(idx, sibs, i):
    """Case labels under which statement i of a switch body runs: its own labels and those of the preceding siblings that fall through."""
    toks = set()
    j = i
    while j >= 0:
        y = sibs[j]
        labs = []
        while y['kind'] in ('CaseStmt', 'DefaultStmt'):
            if y['kind'] == 'CaseStmt':
                er = cast.enum_ref(children(y)[0], idx)
                if er:
                    labs.append(er[1])
            else:
                labs.append('default')
            y = children(y)[-1]
        if j < i and any(z['kind'] in ('BreakStmt', 'ReturnStmt', 'CXXThrowExpr', 'ContinueStmt') for z in walk(y)):
            break           # the earlier statement does not fall through into statement i
        toks.update(labs)
        j -= 1
    return toks


def _is_switch_subject(idx, arg, site, parents):
    """Is the token argument the value the enclosing switch dispatches on (the same variable, or a local initialised by the same
    call as the switch condition)?  Only then do the case labels around the site bound it."""
    x = site
    sw = None
    while id(x) in parents:
        x = parents[id(x)]
        if x.get('kind') == 'SwitchStmt':
            sw = x
            break
    if sw is None:
        return False
    cond = children(sw)[0] if not (sw.get('hasVar') or sw.get('hasInit')) else children(sw)[1]

    def key(e):
        e = strip(e)
        while e.get('kind') in ('ImplicitCastExpr', 'ParenExpr', 'CXXStaticCastExpr') and children(e):
            e = strip(children(e)[0])
        if e.get('kind') == 'DeclRefExpr':
            d = idx.by_id.get((e.get('referencedDecl') or {}).get('id'))
            if isinstance(d, dict) and d.get('kind') == 'VarDecl' and children(d):
                k2 = key(children(d)[-1])
                if k2 and k2[0] == 'call':
                    return k2
            return ('var', (e.get('referencedDecl') or {}).get('id'))
        if e.get('kind') in ('CXXMemberCallExpr', 'CallExpr'):
            return ('call', callee_of(e)[1])
        return None
    ka, kc = key(arg), key(cond)
    return ka is not None and ka == kc


def _case_tokens_around(idx, n, parents):
    toks = set()
    x = n
    while id(x) in parents:
        p = parents[id(x)]
        if p['kind'] == 'CompoundStmt' and id(p) in parents and parents[id(p)]['kind'] == 'SwitchStmt':
            sibs = children(p)
            i = next((j for j, s_ in enumerate(sibs) if s_ is x), None)
            if i is not None:
                return _switch_group_tokens(idx, sibs, i)
            return toks
        x = p
    return toks


def token_guard_verdict(idx, func, use, tgt, tmap):
    """For a dereferenced cast recorded as 'deref-guarded:<tokens>': (True, reason) when every guarding token is carried only by classes
    derived from the target; (False, reason) when some carrier is not; (None, reason) when the guard is not a plain token set."""
    if not use.startswith('deref-guarded:'):
        return None, 'no token guard'
    toks = [t for t in use.split(':', 1)[1].split(',') if t]
    if not toks or any(t.endswith('()') for t in toks):
        return None, 'guard is not a token test'
    t = re.sub(r'^(const )?(class |struct )?', '', tgt).replace('*', '').strip()
    tcls = t if t in idx.records else idx._resolve_record_name(t.split('::')[-1], func.cls or func.qname)
    if not tcls:
        return None, 'target class not resolved'
    for k in toks:
        if not tmap.get(k):
            return None, 'no construction site passes Token::%s' % k
        wrong = sorted(c for c in tmap.get(k, ()) if not idx.derives_from(c, tcls))
        if wrong:
            return False, 'Token::%s is also carried by %s, which is not a %s: the cast yields null there' % (k, ', '.join(wrong), tcls)
        unknown = sorted(c for c in tmap.get('*', ()) if not idx.derives_from(c, tcls))
        if unknown:
            # a class built with a token this analysis cannot bound (passed through a helper): nothing is known about it -- no verdict
            return None, '%s is constructed with a token that is not bounded at its construction site' % ', '.join(unknown)
    return True, 'under a test for %s; every construction site that passes such a token builds a %s' % ('/'.join(toks), tcls)


def rule_downcasts(rep, rid, idx, prefix, table):
    """Every dereferenced dynamic_cast is null-tested, or sits under a token test whose tokens are carried only by classes derived from
    the target (read from all construction sites of the unit), or under a verified type predicate, or is covered by the named table."""
    tmap = token_class_map(idx)
    for f in idx.all_funcs():
        if f.body is None or f.node.get('isImplicit') or not f.qname.startswith(prefix):
            continue
        for use, where, tgt in downcasts(idx, f):
            key = '%s:%s' % (f.qname, tgt)
            if use == 'tested':
                rep.add(rid, key + ':tested', True, where + ' ' + f.qname, 'result is null-tested', nontrivial=False)
                continue
            v, why = token_guard_verdict(idx, f, use, tgt, tmap)
            if v is True:
                rep.add(rid, key, True, where + ' ' + f.qname, why, nontrivial=False)
            elif v is False:
                rep.add(rid, key, False, where + ' ' + f.qname, 'dynamic_cast<%s> is dereferenced under a token test that does not imply the type: %s' % (tgt, why))
            elif (f.qname, tgt) in table:
                rep.add(rid, key, True, where + ' ' + f.qname, '%s (%s)' % (use, table[(f.qname, tgt)]), nontrivial=False)
            elif use == 'deref-unguarded' and f.name in ('visitPre', 'visitPost', 'main') or (use == 'deref-unguarded' and not f.params):
                rep.add(rid, key, False, where + ' ' + f.qname,
                        'dynamic_cast<%s> is dereferenced without a null test, a token test or a recorded guard: an object of another class makes it null' % tgt)
            elif use == 'deref-unguarded':
                # inside a helper the guard may be the caller's (the object arrives as a parameter): not decided here
                rep.undecided(rid, key, 'dynamic_cast<%s> is dereferenced without a guard in this function; whether its callers establish the type is not '
                              'decided' % tgt, where + ' ' + f.qname)
            else:
                rep.undecided(rid, key, 'dereferenced under a guard this rule cannot verify (%s; %s)' % (use, why), where + ' ' + f.qname)


def rule_dangling_reference_members(rep, rid, idx, prefixes, floor=3):
    rep.rule(rid, 'no reference member outlives what it is bound to: where a constructor stores a reference parameter in a reference member, '
             'no named object is constructed with a temporary (a value returned by a function) in that position and used afterwards -- the '
             'temporary dies at the end of the declaration and every later use reads freed memory', floor=floor)
    cap = {}
    views = set()
    for qn, rec in idx.records.items():
        if not qn.startswith(tuple(prefixes)):
            continue
        for c in rec.ctors:
            if c.node.get('isImplicit'):
                continue
            for ini in c.inits:
                a = ini.get('anyInit') or {}
                ft = (a.get('type') or {}).get('qualType', '')
                is_view = bool(re.search(r'\b(basic_)?string_view\b|\bspan<', ft))
                if a.get('kind') != 'FieldDecl' or not (('&' in ft and '&&' not in ft) or is_view) or not children(ini):
                    continue
                e = strip(children(ini)[0])
                while e.get('kind') in ('ImplicitCastExpr', 'ParenExpr') and children(e):
                    e = strip(children(e)[0])
                if is_view and e.get('kind') == 'CXXMemberCallExpr' and callee_of(e)[3] is not None and 'string_view' in callee_of(e)[1]:
                    # std::string -> std::string_view conversion operator applied to the parameter
                    e = strip(callee_of(e)[3])
                    while e.get('kind') in ('ImplicitCastExpr', 'ParenExpr') and children(e):
                        e = strip(children(e)[0])
                if e.get('kind') == 'DeclRefExpr' and (e.get('referencedDecl') or {}).get('kind') == 'ParmVarDecl':
                    pid = e['referencedDecl'].get('id')
                    for i, prm in enumerate(c.params):
                        if prm.get('id') == pid and ('&' in qt(prm) or (is_view and re.search(r'string_view|span<', qt(prm)))):
                            cap.setdefault((qn, c.type.strip()), []).append((i, a.get('name')))
                            if is_view:
                                views.add((qn, i))
    if not cap:
        raise AnalysisBroken('no constructor stores a reference parameter in a reference member (confirmed: the location visitors do)')
    for f in idx.all_funcs():
        if f.body is None or f.node.get('isImplicit') or not f.qname.startswith(tuple(prefixes)):
            continue
        parents = {}
        order = []
        for a in walk(f.body):
            order.append(a)
            for b in children(a):
                parents[id(b)] = a
        for n in order:
            if views and n.get('kind') == 'CallExpr' and callee_of(n)[1] in ('make_unique', 'make_shared'):
                # an object on the heap outlives the full expression that creates it: a view member bound to a temporary string dangles
                m_ = re.search(r'(?:unique_ptr|shared_ptr)<\s*(?:class |struct )?([\w:]+)', dqt(n) + ' ' + qt(n))
                cls = None
                if m_:
                    tn = m_.group(1)
                    cls = tn if tn in idx.records else idx._resolve_record_name(tn.split('::')[-1], f.cls or f.qname)
                args = cast.call_args(n)
                for (cq, ct), fields in cap.items():
                    if cq != cls:
                        continue
                    for i, field in fields:
                        if (cq, i) not in views or i >= len(args):
                            continue
                        a = args[i]
                        while a.get('kind') in ('ImplicitCastExpr', 'ExprWithCleanups', 'CXXBindTemporaryExpr', 'ParenExpr') and children(a):
                            a = children(a)[0]
                        temp = a.get('kind') == 'MaterializeTemporaryExpr' and re.search(r'basic_string<|std::string\b|^string\b', qt(a) + ' ' + dqt(a)) \
                            and not re.search(r'string_view', qt(a))
                        rep.add(rid, '%s:%s.%s@%s' % (f.qname, cls.split('::')[-1], field, pos(n).split(':')[-1]), not temp, pos(n) + ' ' + f.qname,
                                ('a %s is created on the heap with a temporary std::string for the view member %s: the string dies at the end of the '
                                 'statement and every later read of the member reads freed memory (what it finds there differs from run to run)'
                                 % (cls, field)) if temp else 'view member bound to a string that outlives the object', nontrivial=False)
                continue
            if n.get('kind') not in ('CXXConstructExpr', 'CXXTemporaryObjectExpr'):
                continue
            tn = re.sub(r'^(const )?(class |struct )?', '', qt(n)).strip()
            cls = tn if tn in idx.records else idx._resolve_record_name(tn.split('::')[-1], f.cls or f.qname)
            key = (cls, ((n.get('ctorType') or {}).get('qualType') or '').strip())
            if key not in cap:
                continue
            args = [c for c in children(n)]
            par = parents.get(id(n))
            while par is not None and par.get('kind') in ('ExprWithCleanups', 'ImplicitCastExpr', 'CXXBindTemporaryExpr'):
                par = parents.get(id(par))
            named = par is not None and par.get('kind') == 'VarDecl'
            for i, field in cap[key]:
                if i >= len(args):
                    continue
                a = args[i]
                while a.get('kind') in ('ImplicitCastExpr', 'ExprWithCleanups', 'CXXBindTemporaryExpr', 'ParenExpr') and children(a):
                    a = children(a)[0]
                temp = a.get('kind') == 'MaterializeTemporaryExpr'
                used_later = False
                if named and temp:
                    seen = False
                    for x in order:
                        if x is par:
                            seen = True
                        elif seen and x.get('kind') == 'DeclRefExpr' and (x.get('referencedDecl') or {}).get('id') == par.get('id'):
                            used_later = True
                            break
                bad = named and temp and used_later
                rep.add(rid, '%s:%s.%s@%s' % (f.qname, cls.split('::')[-1], field, pos(n).split(':')[-1]), not bad, pos(n) + ' ' + f.qname,
                        ('%s %s is constructed with a temporary for the reference member %s and used afterwards: the member dangles' %
                         (cls, par.get('name'), field)) if bad else 'bound to an object that outlives the %s' % cls.split('::')[-1], nontrivial=False)


def format_sites(idx, prefixes):
    """Every boost::format("literal") % a % b ... chain in functions of the given namespaces / names:
    (function, position, literal, number of fed arguments)."""
    out = []
    for f in idx.all_funcs():
        if f.body is None or f.node.get('isImplicit') or not (f.qname.startswith(tuple(prefixes)) or f.name == 'main'):
            continue
        parents = {}
        for a in walk(f.body):
            for b in children(a):
                parents[id(b)] = a
        for n in walk(f.body):
            if n.get('kind') not in ('CXXConstructExpr', 'CXXTemporaryObjectExpr', 'CXXFunctionalCastExpr') or 'basic_format' not in (dqt(n) + qt(n)):
                continue
            lit = cast.string_lit(n)
            if lit is None or any(x is not n and x.get('kind') in ('CXXConstructExpr', 'CXXTemporaryObjectExpr') and 'basic_format' in (dqt(x) + qt(x)) for x in walk(n)):
                continue
            # climb through the operator% applications (a dependent % inside a template is a plain BinaryOperator)
            def climb(x):
                cnt = 0
                while id(x) in parents:
                    p_ = parents[id(x)]
                    if p_.get('kind') in ('ImplicitCastExpr', 'MaterializeTemporaryExpr', 'CXXBindTemporaryExpr', 'ParenExpr', 'ExprWithCleanups', 'CXXFunctionalCastExpr'):
                        x = p_
                        continue
                    if p_.get('kind') == 'CXXOperatorCallExpr' and callee_of(p_)[1] == 'operator%' and call_args(p_) and any(z is x for z in walk(call_args(p_)[0])):
                        cnt += 1
                        x = p_
                        continue
                    if p_.get('kind') == 'BinaryOperator' and p_.get('opcode') == '%' and children(p_) and any(z is x for z in walk(children(p_)[0])):
                        cnt += 1
                        x = p_
                        continue
                    break
                return cnt, x
            cnt, top = climb(n)
            par = parents.get(id(top))
            while par is not None and par.get('kind') in ('ImplicitCastExpr', 'ExprWithCleanups', 'MaterializeTemporaryExpr', 'CXXBindTemporaryExpr'):
                par = parents.get(id(par))
            if cnt == 0 and par is not None and par.get('kind') == 'VarDecl':
                # a named format object fed later: every `fmt % a % b ...` chain that starts at the variable is a site of its own
                vid = par.get('id')
                uses = [x for x in walk(f.body) if x.get('kind') == 'DeclRefExpr' and (x.get('referencedDecl') or {}).get('id') == vid]
                chains = [climb(u)[0] for u in uses]
                chains = [c_ for c_ in chains if c_ > 0]
                if not chains:
                    continue          # never fed in this function (passed on): not judged here
                for c_ in chains:
                    out.append((f, pos(n), lit, c_))
                continue
            out.append((f, pos(n), lit, cnt))
    return out


def format_directives(lit):
    """Number of arguments a boost::format string consumes (printf-style, %N% positional and %|spec| directives; %% is a literal)."""
    t = lit.replace('%%', '')
    positional = [int(m_) for m_ in re.findall(r'%(\d+)%', t)]
    t2 = re.sub(r'%\d+%', '', t)
    bars = re.findall(r'%\|[^|]*\|', t2)
    t3 = re.sub(r'%\|[^|]*\|', '', t2)
    printf = re.findall(r'%[-+ #0]*\d*(?:\.\d+)?[a-zA-Z]', t3)
    return max(positional) if positional else len(bars) + len(printf)


def rule_format_arity(rep, rid, idx, prefixes, tu):
    for f, where, lit, cnt in format_sites(idx, prefixes):
        want = format_directives(lit)
        rep.add(rid, '%s:%s:%s' % (tu, f.qname, where.split(':')[-1]), want == cnt, where + ' ' + f.qname,
                'format %r takes %d argument(s), %d are fed: boost::format throws %s when the text is produced' % (
                    lit, want, cnt, 'too_few_args' if cnt < want else 'too_many_args') if want != cnt else '%d argument(s)' % cnt, nontrivial=False)


def _vars_in(e):
    return {(x.get('referencedDecl') or {}).get('id') for x in walk(e)
            if x.get('kind') == 'DeclRefExpr' and (x.get('referencedDecl') or {}).get('kind') in ('VarDecl', 'ParmVarDecl', 'BindingDecl')}


def _predicate_guard(idx, func, cast_node, parents):
    """The idiom  `if (!obj->isT()) continue;  ... dynamic_cast<T*>(obj) ...`  verified semantically: an earlier sibling statement (in an
    enclosing block of the same loop body / function) leaves when a virtual bool predicate of the same object is false, and every
    override of that predicate that can return true belongs to a class derived from the cast's target.  Returns a reason or None."""
    tgt = re.sub(r'^(const )?(class |struct )?', '', qt(cast_node)).replace('*', '').strip()
    tcls = tgt if tgt in idx.records else idx._resolve_record_name(tgt.split('::')[-1], func.cls or func.qname)
    if not tcls:
        return None
    obj_vars = _vars_in(children(cast_node)[0]) if children(cast_node) else set()
    if len(obj_vars) != 1:
        return None
    x = cast_node
    while id(x) in parents:
        p = parents[id(x)]
        if p['kind'] == 'CompoundStmt':
            sibs = children(p)
            i = next((j for j, s_ in enumerate(sibs) if s_ is x), None)
            for st in (sibs[:i] if i is not None else []):
                if st['kind'] != 'IfStmt' or st.get('hasVar') or st.get('hasInit'):
                    continue
                ch = children(st)
                cond = strip(ch[0])
                if not (cond['kind'] == 'UnaryOperator' and cond.get('opcode') == '!'):
                    continue
                call = strip(children(cond)[0])
                if call['kind'] != 'CXXMemberCallExpr' or call_args(call):
                    continue
                then = ch[1]
                body = children(then) if then['kind'] == 'CompoundStmt' else [then]
                if not (body and body[-1]['kind'] in ('ContinueStmt', 'ReturnStmt', 'BreakStmt') or any(y['kind'] == 'CXXThrowExpr' for y in walk(then))):
                    continue
                if body and body[-1]['kind'] == 'BreakStmt':
                    continue
                kind, name, did, obj = callee_of(call)
                if obj is None or _vars_in(obj) != obj_vars:
                    continue
                pred = idx.func_by_id.get(did) if did else None
                if pred is None or not pred.cls:
                    continue
                # all overrides of the predicate
                from .callgraph import overriders
                root = pred
                ok = True
                trues = []
                for o in overriders(idx, root):
                    o2 = o.defn if (o.body is None and getattr(o, 'defn', None)) else o
                    if o2.body is None and (o2.node.get('pure') or o.node.get('pure')):
                        continue
                    if o2.body is None:
                        ok = False
                        break
                    rets = [r for r in walk(o2.body) if r['kind'] == 'ReturnStmt']
                    vals = [cast.const_int(children(r)[0], idx) if children(r) else None for r in rets]
                    if any(v is None for v in vals):
                        ok = False
                        break
                    if any(v != 0 for v in vals):
                        trues.append(o2.cls)
                if ok and trues and all(idx.derives_from(c, tcls) for c in trues):
                    return 'after `if (!%s()) ...` at %s: %s() can only be true in %s' % (name, pos(st), name, sorted(set(trues)))
        if p['kind'] in ('ForStmt', 'WhileStmt', 'DoStmt', 'CXXForRangeStmt') and False:
            break
        x = p
    return None


def _null_test(x, vid):
    if x['kind'] == 'BinaryOperator' and x.get('opcode') in ('==', '!='):
        a, b = children(x)
        if (cast.decl_ref(a) == vid and strip(b)['kind'] == 'CXXNullPtrLiteralExpr') or (cast.decl_ref(b) == vid and strip(a)['kind'] == 'CXXNullPtrLiteralExpr'):
            return True
    if x['kind'] == 'ImplicitCastExpr' and x.get('castKind') == 'PointerToBoolean' and cast.decl_ref(x) == vid:
        return True
    return False


# --------------------------------------------------------------------------------------------------
# lexer termination at end of input
# --------------------------------------------------------------------------------------------------

class _Script:
    def __init__(self, chars):
        self.chars = list(chars)
        self.reads = 0


def _store_endptr(I, args, env):
    """strtoul(s, &end, base) on a string that consists of the digits the lexer collected: the conversion consumes all of it, so *end is
    the terminating NUL (pointers to scalars are transparent in engine I: the variable holds the pointee)."""
    if len(args) > 1:
        a = strip(args[1])
        while a.get('kind') in ('ImplicitCastExpr', 'ParenExpr'):
            a = children(a)[0]
        if a.get('kind') == 'UnaryOperator' and a.get('opcode') == '&':
            I.store(I.lval(children(a)[0], env), const(8, True, 0), env)


def make_lexer(I, idx, ns):
    """The lexer object as its own default constructor leaves it (members added later are picked up), with the input stream attached."""
    lex_cls = ns + '::Lexer'
    base = {'table': Obj(ns + '::Table', {}, 'table'), 'file': Obj('std::istream', {}, 'file'), 'lastChar': const(8, True, 0),
            'identifier': ('str', ''), 'string': ('str', ''), 'value': const(32, False, 0), 'lastToken': const(32, True, 0),
            'currentLineNumber': const(64, False, 0), 'currentCharNumber': const(64, False, 0), 'currentLine': ('str', '')}
    try:
        lex = I.construct(lex_cls, [], name='lexer')
    except (AnalysisBroken, NeedSplit, Thrown):
        return Obj(lex_cls, base, 'lexer')
    for k, v in base.items():
        if lex.fields.get(k) is None or k in ('file', 'table'):
            lex.fields[k] = v
    return lex


def lexer_terminates(idx, ns, first_bytes, entry='getNextToken', budget=40):
    """Interpret <ns>::Lexer::<entry> repeatedly on the inputs  c . EOF^omega  for every byte c in first_bytes (two tokens each):
    returns [(byte, problem)] for inputs on which a loop does not finish or the lexer leaves the abstract domain."""
    lex_cls = ns + '::Lexer'
    tokens = idx.enum(ns + '::Token')
    problems = []
    f = idx.func(lex_cls + '::' + entry)
    for c in first_bytes:
        script = _Script(list(c) if isinstance(c, tuple) else [c])

        def hooks(I, n, kind, name, did, obj, args, env, script=script):
            t = (dqt(obj) + ' ' + qt(obj)) if obj is not None else ''
            if kind == 'function' and name in ('isspace', 'isalpha', 'isalnum', 'isdigit', 'isxdigit'):
                v = I.expr(args[0], env)
                if not (isinstance(v, IV) and v.concrete()):
                    raise NeedSplit(None, 'character class of a non-concrete value')
                ch = v.lo
                if ch < -1 or ch > 255:
                    I.ub_event('ctype-out-of-range', n)
                    ch &= 0xFF
                s_ = chr(ch) if 0 <= ch < 128 else ''
                r = {'isspace': s_ in ' \t\n\r\v\f' and s_ != '', 'isalpha': s_.isalpha(), 'isalnum': s_.isalnum(), 'isdigit': s_.isdigit(),
                     'isxdigit': s_ in '0123456789abcdefABCDEF' and s_ != ''}[name]
                return const(32, True, 1 if r else 0)
            if kind == 'function' and name in ('strtoul', 'strtol', 'stoul'):
                _store_endptr(I, args, env)
                return IV(64, False, 0, (1 << 64) - 1)
            if kind == 'method' and name == 'get' and 'istream' in t and args:
                script.reads += 1
                if script.reads > budget:
                    raise Thrown('READ-BUDGET')
                lv = I.lval(args[0], env)
                if script.chars:
                    ch = script.chars.pop(0)
                    I.store(lv, const(8, True, ch if ch < 128 else ch - 256), env)
                    script.eof = False
                else:
                    script.eof = True      # get() at end of input leaves the character unchanged and sets eofbit
                return None
            if kind == 'method' and name == 'eof':
                return const(1, False, 1 if getattr(script, 'eof', False) else 0)
            if kind == 'method' and name in ('close', 'is_open'):
                return const(1, False, 1)
            if n['kind'] == 'CXXOperatorCallExpr' and name in ('operator->', 'operator*'):
                return I.expr(args[0], env)
            if kind == 'method' and name == 'get' and 'unique_ptr' in t:
                return I.expr(obj, env)
            if kind == 'method' and name in ('lookup', 'insert') and 'Table' in t:
                return const(32, True, tokens.get('IDENTIFIER', 0)) if name == 'lookup' else None
            return NotImplemented
        I = ivinterp.Interp(idx, hooks, max_iter=budget)
        lex = make_lexer(I, idx, ns)
        try:
            # prime the first character as openFile/loadBuffer do, then read tokens until END_OF_FILE (at most 4)
            rc = [m for m in idx.record(lex_cls).methods if m.name == 'readChar'][0]
            I.invoke(rc, lex, [])
            for _ in range(4 + (len(c) if isinstance(c, tuple) else 0)):
                tk = I.invoke(f, lex, [])
                if isinstance(tk, IV) and tk.concrete() and tk.lo == tokens.get('END_OF_FILE'):
                    break
            else:
                problems.append((c, 'no END_OF_FILE token after the input is exhausted'))
            ub_ = [u for u in I.ub if 'ctype-out-of-range' not in str(u)]   # <cctype> on plain char: not claimed (DESIGN 10.1)
            if ub_:
                problems.append((c, 'undefined behaviour while lexing: %s' % '; '.join(str(u) for u in ub_[:2])))
        except Thrown as e:
            if e.what == 'READ-BUDGET':
                problems.append((c, 'keeps reading after end of input: a loop never sees EOF'))
            elif [u for u in I.ub if 'ctype-out-of-range' not in str(u)]:
                problems.append((c, 'undefined behaviour while lexing: %s' % '; '.join(str(u) for u in I.ub if 'ctype-out-of-range' not in str(u))))
            # diagnostics (TokenError etc.) are clean rejections
        except AnalysisBroken as e:
            if 'abstract iterations' in str(e):
                problems.append((c, 'a loop does not terminate at end of input (%s)' % e))
            else:
                raise
        except NeedSplit as e:
            raise AnalysisBroken('lexer interpretation not concrete: %s' % e)
    return problems


# ------------------------------------------------------------------------------------------------
# diagnostic handlers are total (an exception or a wild read inside `catch` turns a clean rejection into a crash)
# ------------------------------------------------------------------------------------------------
def _lexer_hooks(tokens, script, budget):
    def hooks(I, n, kind, name, did, obj, args, env):
        t = (dqt(obj) + ' ' + qt(obj)) if obj is not None else ''
        if kind == 'function' and name in ('isspace', 'isalpha', 'isalnum', 'isdigit', 'isxdigit'):
            v = I.expr(args[0], env)
            if not (isinstance(v, IV) and v.concrete()):
                raise NeedSplit(None, 'character class of a non-concrete value')
            ch = v.lo & 0xFF if v.lo >= 0 else -1
            s_ = chr(ch) if 0 <= ch < 128 else ''
            r = {'isspace': s_ in ' \t\n\r\v\f' and s_ != '', 'isalpha': s_.isalpha(), 'isalnum': s_.isalnum(), 'isdigit': s_.isdigit(),
                 'isxdigit': s_ in '0123456789abcdefABCDEF' and s_ != ''}[name]
            return const(32, True, 1 if r else 0)
        if kind == 'function' and name in ('strtoul', 'strtol', 'stoul'):
            _store_endptr(I, args, env)
            return const(64, False, 7)
        if kind == 'method' and name == 'get' and 'istream' in t and args:
            script.reads += 1
            if script.reads > budget:
                raise Thrown('READ-BUDGET')
            lv = I.lval(args[0], env)
            if script.chars:
                ch = script.chars.pop(0)
                I.store(lv, const(8, True, ch if ch < 128 else ch - 256), env)
                script.eof = False
            else:
                script.eof = True
            return None
        if kind == 'method' and name == 'eof':
            return const(1, False, 1 if getattr(script, 'eof', False) else 0)
        if kind == 'method' and name in ('close', 'is_open'):
            return const(1, False, 1)
        if n['kind'] == 'CXXOperatorCallExpr' and name in ('operator->', 'operator*') and 'unique_ptr' in (qt(args[0]) + dqt(args[0])):
            return I.expr(args[0], env)
        if kind == 'method' and name == 'get' and 'unique_ptr' in t:
            return I.expr(obj, env)
        if kind == 'method' and name in ('lookup', 'insert') and 'Table' in t:
            return const(32, True, tokens.get('IDENTIFIER', 0)) if name == 'lookup' else None
        if kind == 'method' and name == 'what' and obj is not None:
            return ('str', 'message')
        return NotImplemented
    return hooks


def lexer_literal_values(idx, ns, texts, budget=200):
    """Run the lexer (engine I, concrete) on each text and return {text: value member after the first token, or ('throws', what) /
    ('undecided', why)}.  std::strtoul and friends are evaluated for real on the string the lexer collected."""
    lex_cls = ns + '::Lexer'
    tokens = idx.enum(ns + '::Token')
    gnt = idx.func(lex_cls + '::getNextToken')
    rc = [m for m in idx.record(lex_cls).methods if m.name == 'readChar'][0]
    out = {}
    for text in texts:
        script = _Script([ord(c) for c in text])
        base_hooks = _lexer_hooks(tokens, script, budget)

        def hooks(I, n, kind, name, did, obj, args, env, base_hooks=base_hooks):
            if kind == 'function' and name in ('strtoul', 'strtoull', 'strtol', 'stoul', 'stoi') and args:
                sv = I.expr(args[0], env)
                radix = I.expr(args[2], env) if len(args) > 2 and args[2].get('kind') != 'CXXDefaultArgExpr' else const(32, True, 10)
                if not (isinstance(sv, tuple) and sv[0] == 'str' and isinstance(radix, IV) and radix.concrete()):
                    raise AnalysisBroken('conversion of a non-concrete string at %s' % pos(n))
                digits = ''
                for ch in sv[1]:
                    try:
                        int(ch, radix.lo if radix.lo else 10)
                    except ValueError:
                        break
                    digits += ch
                _store_endptr(I, args, env)
                return const(64, False, int(digits, radix.lo if radix.lo else 10) if digits else 0)
            return base_hooks(I, n, kind, name, did, obj, args, env)
        I = ivinterp.Interp(idx, hooks, max_iter=budget)
        lex = make_lexer(I, idx, ns)
        try:
            I.invoke(rc, lex, [])
            tk = I.invoke(gnt, lex, [])
            v = lex.fields.get('value')
            out[text] = (tk.lo if isinstance(tk, IV) and tk.concrete() else None, v.lo if isinstance(v, IV) and v.concrete() else v, list(I.ub))
        except Thrown as e:
            out[text] = ('throws', e.what, [])
        except (NeedSplit, AnalysisBroken) as e:
            out[text] = ('undecided', str(e), [])
    return out


def handler_sites(idx, func):
    """(catch statement, exception variable, body) of the handlers of `func` that catch the repository's located error type."""
    out = []
    for n in walk(func.body):
        if n.get('kind') == 'CXXCatchStmt':
            ch = [c for c in n.get('inner', []) if c]
            var = next((c for c in ch if c.get('kind') == 'VarDecl'), None)
            body = next((c for c in ch if c.get('kind') == 'CompoundStmt'), None)
            if var is not None and body is not None and 'hexutil::Error' in (qt(var) + ' ' + dqt(var)):
                out.append((n, var, body))
    return out


HANDLER_SCRIPTS = {
    # the sources differ in where the lexer is when it reaches the end of the input and in how the lines ended (newline, comment, nothing)
    'hexasm': ['BR foo', 'BR foo\n', '# c\nBR foo\n', '# c\nBR foo', 'BR foo\n# c\n', '\nLDAC', 'BR foo # c', 'OPR\n\n'],
    'xcmp': ['x', 'x\n', '| c\nx\n', '| c\nx', 'x\n| c\n', '| a\n| b\nx\ny\n', 'x | c', '\nx\n\n'],
}


def handlers_total(idx, ns, func, lexer_of, budget=400):
    """Run the lexer of namespace `ns` (engine I, concrete scripts) to the end of each source in HANDLER_SCRIPTS, remembering the location of
    every token; then interpret every located-error handler of `func` with an error at each remembered location (and with an error without
    location).  Yields (script, location, problem or None, detail).  `lexer_of(env, lex)` binds the lexer object into the handler's environment."""
    lex_cls = ns + '::Lexer'
    tokens = idx.enum(ns + '::Token')
    sites = handler_sites(idx, func)
    if not sites:
        raise AnalysisBroken('%s: no handler for hexutil::Error found' % func.qname)
    gnt = idx.func(lex_cls + '::getNextToken')
    gloc = idx.func(lex_cls + '::getLocation')
    rc = [m for m in idx.record(lex_cls).methods if m.name == 'readChar'][0]
    for text in HANDLER_SCRIPTS[ns]:
        script = _Script([ord(c) for c in text])
        I = ivinterp.Interp(idx, _lexer_hooks(tokens, script, budget), max_iter=budget)
        lex = make_lexer(I, idx, ns)
        locs = []
        try:
            I.invoke(rc, lex, [])
            for _ in range(len(text) + 2):
                tk = I.invoke(gnt, lex, [])
                loc = I.invoke(gloc, lex, [])
                locs.append(loc)
                if isinstance(tk, IV) and tk.concrete() and tk.lo == tokens.get('END_OF_FILE'):
                    break
        except Thrown as e:
            pass        # a lexical error: the handler runs in the state the lexer was left in, with the last location
        except NeedSplit as e:
            raise AnalysisBroken('lexer interpretation not concrete on %r: %s' % (text, e))
        seen = set()
        cases = []
        for loc in locs:
            k = tuple(sorted((f, v.lo) for f, v in loc.fields.items() if isinstance(v, IV) and v.concrete()))
            if k not in seen:
                seen.add(k)
                cases.append(loc)
        cases.append(None)
        for loc in cases:
            for cst, var, body in sites:
                err = I.construct('hexutil::Error', [loc, ('str', 'message')] if loc is not None else [('str', 'message')], name='error')
                env = {'this': None, 'locals': {var['id']: err}}
                lexer_of(env, lex, func)
                n0 = len(I.ub)
                problem = None
                try:
                    I.stmt(body, env)
                except ivinterp._Return:
                    pass
                except Thrown as e:
                    if str(e.what).startswith(('undefined behaviour', 'out-of-range', 'null pointer')):
                        problem = 'undefined behaviour while printing the diagnostic: %s (%s)' % (e.what, I.ub[n0:][:1])
                    else:
                        problem = 'an exception (%s) leaves the handler: std::terminate aborts the process instead of the clean rejection' % (e.what,)
                except NeedSplit as e:
                    raise AnalysisBroken('handler interpretation not concrete on %r: %s' % (text, e))
                bad = [u for u in I.ub[n0:]]
                if problem is None and bad:
                    problem = 'undefined behaviour while printing the diagnostic: %s' % bad[:2]
                where = 'no location' if loc is None else 'line %s col %s' % tuple(getattr(loc.fields.get(k), 'lo', '?') for k in ('line', 'position'))
                yield text, where, problem, pos(cst)


def rule_handlers(rep, rid, idx, ns, func, lexer_of, floor=20):
    rep.rule(rid, 'the diagnostic handlers are total: with the lexer in the state it reaches at the end of each of a set of small sources (lines '
             'ended by a newline, by a comment, by nothing; empty lines; comment-only lines) and an error located at any token of the source '
             '(or without location), the catch block of %s for hexutil::Error runs to its return without an exception leaving it '
             '(std::terminate) and without an out-of-range access' % func.qname, floor=floor)
    try:
        for text, where, problem, at in handlers_total(idx, ns, func, lexer_of):
            rep.add(rid, 'handler:%r:%s' % (text, where), problem is None, at + ' ' + func.qname,
                    ('source %r, error at %s: %s' % (text, where, problem)) if problem else 'handler returns', nontrivial=problem is not None or where != 'no location')
    except AnalysisBroken as e:
        rep.undecided(rid, 'handler', 'cannot interpret: %s' % e, pos(func.node) + ' ' + func.qname)


# ------------------------------------------------------------------------------------------------
# recursion depth (stack exhaustion on deeply nested input)
# ------------------------------------------------------------------------------------------------
# Largest accepted guard constant.  Calibration, not a proof: at -O0 (the project's default build) the tools crash at 9 024 .. 65 431
# levels of nesting on an 8 MB stack (about 930 bytes per level in the code generator, measured on the pinned tree); the syntax
# tree can be twice as deep as the parser's nesting (rewriting of ~=, >=, <=), so 2 000 levels stay below half the stack.
MAX_ACCEPTED_DEPTH_BOUND = 2000
_REC_FIXTURE = os.path.join(os.path.dirname(os.path.abspath(__file__)), 'fixtures', 'recursion.cpp')
_REC_EXPECT = {'fixture::Node::accept': 'structural', 'fixture::Reader::selfRecursive': 'unbounded', 'fixture::Reader::mutualA': 'unbounded',
               'fixture::Reader::guardedInline': 'guarded', 'fixture::Reader::guardedRaii': 'guarded', 'fixture::Reader::guardTooLate': 'unbounded',
               'fixture2::Node::accept': 'unbounded'}


def _tree_descent_methods(idx, base):
    """The overriders of the pure virtual method(s) of the syntax-tree base class that take a visitor: one call = one level down."""
    rec = idx.records.get(base)
    if rec is None:
        return None
    out = set()
    from .callgraph import overriders
    for m in rec.methods:
        if (m.node.get('pure') or m.node.get('virtual')) and any('Visitor' in qt(p) for p in m.params):
            for o in overriders(idx, m):
                out.add(o.id)
                if getattr(o, 'defn', None):
                    out.add(o.defn.id)
    return out


def recursion_fixture_verdicts():
    import subprocess
    from . import frontend as fe
    from .callgraph import CallGraph, decide_cycles
    cmd = [fe.CLANG, '-std=c++17', '-w', '-fsyntax-only', '-fplugin=' + fe.plugin_path(), '-Xclang', '-plugin', '-Xclang', 'dumprepo',
           '-Xclang', '-plugin-arg-dumprepo', '-Xclang', os.path.dirname(_REC_FIXTURE) + '/', _REC_FIXTURE]
    r = subprocess.run(cmd, stdout=subprocess.PIPE, stderr=subprocess.PIPE, text=True)
    if r.returncode != 0:
        raise AnalysisBroken('cannot analyse the recursion fixture: ' + r.stderr[-1500:])
    objs = fe._split_json(r.stdout)
    for o in objs:
        fe._annotate(o, fe._Pos())
    idx = cast.Index(objs)
    cg = CallGraph(idx)
    out = {}
    for ns in ('fixture', 'fixture2'):
        reach = cg.reachable([f for f in idx.all_funcs() if f.qname == ns + '::entry'])
        S = _tree_descent_methods(idx, ns + '::Node') or set()
        out.update({d['names'][0]: d['kind'] for d in decide_cycles(idx, cg, reach, S, ns + '::Node')})
    return out


def rule_recursion(rep, rid, tu, tree_base=None, min_reachable=40):
    """Every recursive cycle of the call graph reachable from main() is depth-bounded (see hexsa/callgraph.py)."""
    from .callgraph import CallGraph, decide_cycles
    got = recursion_fixture_verdicts()
    if got != _REC_EXPECT:
        raise AnalysisBroken('recursion rule does not classify its control fixture as expected: %r' % got)
    idx = cast.load(tu)
    cg = CallGraph(idx)
    mains = [f for f in idx.all_funcs() if f.name == 'main' and f.body is not None and not f.cls]
    if len(mains) != 1:
        raise AnalysisBroken('%s: main() not found' % tu)
    reach = cg.reachable(mains)
    if len(reach) < min_reachable:
        raise AnalysisBroken('%s: only %d functions reachable from main (confirmed >= %d): the call graph is incomplete' % (tu, len(reach), min_reachable))
    S = set()
    if tree_base:
        S = _tree_descent_methods(idx, tree_base)
        if not S:
            raise AnalysisBroken('%s: syntax-tree base class %s with a visitor-taking virtual method not found' % (tu, tree_base))
    cycles = decide_cycles(idx, cg, reach, S, tree_base)
    unb = [c for c in cycles if c['kind'] == 'unbounded']
    rep.add(rid, '%s:call-graph' % tu, True, tu, '%d functions with a body, %d reachable from main, %d recursive components' % (
        len(cg.nodes), len(reach), len(cycles)), nontrivial=False)
    for c in cycles:
        key = '%s:cycle:%s' % (tu, c['names'][0]) + ('+%d' % (len(c['names']) - 1) if len(c['names']) > 1 else '')
        if c['kind'] == 'guarded':
            big = [b for b in c['bounds'] if b > MAX_ACCEPTED_DEPTH_BOUND]
            rep.add(rid, key, not big, c['where'], c['detail'] if not big else
                    'depth guard constant %s exceeds %d levels: at about 1 kB of stack per level in the passes over the tree the default 8 MB '
                    'stack is exhausted before the guard fires [%s]' % (big, MAX_ACCEPTED_DEPTH_BOUND, c['detail']), data={'functions': c['names']})
        elif c['kind'] == 'structural':
            rep.add(rid, key, not unb, c['where'], c['detail'] + ('' if not unb else
                    '; but the depth of the tree is not bounded: the recursion through %s has no depth bound' % ', '.join(u['names'][0] for u in unb)),
                    data={'functions': c['names']})
        elif c['kind'] == 'undecided':
            rep.undecided(rid, key, c['detail'], c['where'])
        else:
            rep.add(rid, key, False, c['where'], c['detail'] + ': one stack frame per nesting level of the input, a few 10 kB of source exhaust the stack',
                    data={'functions': c['names']})
    for f in sorted(reach):
        rep.analysed(cg.nodes[f].sig, tu)
    return cycles


class WrongRadix(Exception):
    def __init__(self, radix, at):
        Exception.__init__(self, 'radix %d at %s' % (radix, at))
        self.radix, self.at = radix, at


def lexer_number(idx, ns, lo, hi):
    """Interpret <ns>::Lexer::getNextToken on a decimal literal whose numeric value n (as std::strtoul delivers it) ranges over
    [lo, hi].  Returns ('value', IV of the lexer's value member, token) or ('throws', what); raises NeedSplit when a branch
    depends on where n lies in the class."""
    lex_cls = ns + '::Lexer'
    tokens = idx.enum(ns + '::Token')
    script = _Script([ord('7')])
    N = IV(64, False, lo, hi, None, 'input', ({'N': 1}, 0) if lo != hi else None)

    def hooks(I, n, kind, name, did, obj, args, env):
        t = (dqt(obj) + ' ' + qt(obj)) if obj is not None else ''
        if kind == 'function' and name in ('isspace', 'isalpha', 'isalnum', 'isdigit', 'isxdigit'):
            v = I.expr(args[0], env)
            if not (isinstance(v, IV) and v.concrete()):
                raise NeedSplit(None, 'character class of a non-concrete value')
            s_ = chr(v.lo) if 0 <= v.lo < 128 else ''
            r = {'isspace': s_ in ' \t\n\r\v\f' and s_ != '', 'isalpha': s_.isalpha(), 'isalnum': s_.isalnum(), 'isdigit': s_.isdigit(),
                 'isxdigit': s_ in '0123456789abcdefABCDEF' and s_ != ''}[name]
            return const(32, True, 1 if r else 0)
        if kind == 'function' and name in ('strtoul', 'strtoull', 'stoul', 'stoull', 'strtol', 'strtoll', 'stol', 'stoll', 'stoi'):
            # the script is a decimal digit string: only radix 10 delivers its value (radix 0 reads a zero-padded decimal as octal)
            radix = I.expr(args[2], env) if len(args) > 2 and args[2].get('kind') != 'CXXDefaultArgExpr' else const(32, True, 10)
            if not (isinstance(radix, IV) and radix.concrete()):
                raise AnalysisBroken('conversion radix is not a constant on the decimal path at %s' % pos(n))
            if radix.lo != 10:
                raise WrongRadix(radix.lo, pos(n))
            if name.startswith('sto') and name not in ('stoul', 'stoull'):
                raise AnalysisBroken('signed conversion %s at %s' % (name, pos(n)))
            _store_endptr(I, args, env)
            return N
        if kind == 'method' and name == 'get' and 'istream' in t and args:
            lv = I.lval(args[0], env)
            if script.chars:
                I.store(lv, const(8, True, script.chars.pop(0)), env)
                script.eof = False
            else:
                script.eof = True
            return None
        if kind == 'method' and name == 'eof':
            return const(1, False, 1 if getattr(script, 'eof', False) else 0)
        if kind == 'method' and name in ('close', 'is_open'):
            return const(1, False, 1)
        if n['kind'] == 'CXXOperatorCallExpr' and name in ('operator->', 'operator*'):
            return I.expr(args[0], env)
        if kind == 'method' and name == 'get' and 'unique_ptr' in t:
            return I.expr(obj, env)
        if kind == 'method' and name in ('lookup', 'insert') and 'Table' in t:
            return const(32, True, tokens.get('IDENTIFIER', 0)) if name == 'lookup' else None
        return NotImplemented
    I = ivinterp.Interp(idx, hooks, max_iter=40)
    lex = make_lexer(I, idx, ns)
    rc = [m for m in idx.record(lex_cls).methods if m.name == 'readChar'][0]
    f = idx.func(lex_cls + '::getNextToken')
    try:
        I.invoke(rc, lex, [])
        tk = I.invoke(f, lex, [])
    except Thrown as e:
        return ('throws', e.what)
    return ('value', lex.fields.get('value'), tk, list(I.ub))
