"""Abstract X syntax trees and code buffers for the interval interpreter (C01, C07, C08, C09), plus the reference
meaning of X operators (docs/PDFs/xhexnotes.pdf, xhexb.pdf: + - wrap at 32 bits; = ~= < <= > >= yield 0/1 on signed
values; `and`/`or` short-circuit on truth values; ~ is logical not; unary minus)."""
import re
from . import cast, ivinterp
from .ivinterp import IV, Obj, Vec, Moved, const, NeedSplit, Thrown
from .frontend import AnalysisBroken
from .cast import children, pos, walk, callee_of, qt, dqt

BINOPS = ['PLUS', 'MINUS', 'OR', 'AND', 'EQ', 'NE', 'LS', 'LE', 'GR', 'GE']
UNOPS = ['MINUS', 'NOT']
LOGICAL = ('AND', 'OR')


def wrap32(x):
    x &= 0xFFFFFFFF
    return x - (1 << 32) if x >> 31 else x


def x_binop(op, a, b):
    if op == 'PLUS':
        return wrap32(a + b)
    if op == 'MINUS':
        return wrap32(a - b)
    if op == 'EQ':
        return int(a == b)
    if op == 'NE':
        return int(a != b)
    if op == 'LS':
        return int(a < b)
    if op == 'LE':
        return int(a <= b)
    if op == 'GR':
        return int(a > b)
    if op == 'GE':
        return int(a >= b)
    if op == 'AND':
        return b if a != 0 else 0
    if op == 'OR':
        return a if a != 0 else b
    raise ValueError(op)


def x_unop(op, a):
    if op == 'MINUS':
        return wrap32(-a)
    if op == 'NOT':
        return int(a == 0)
    raise ValueError(op)


class XModel:
    """Builds abstract xcmp AST objects by interpreting the real constructors."""

    def __init__(self, idx, extra_hooks=None):
        self.idx = idx
        self.tok = idx.enum('xcmp::Token')
        self.rtok = {v: k for k, v in self.tok.items()}
        self.extra = extra_hooks
        self.I = ivinterp.Interp(idx, self.hooks)
        self.events = []

    # -- hooks shared by the X-side analyses -------------------------------------------------------
    def hooks(self, I, n, kind, name, did, obj, args, env):
        if self.extra is not None:
            r = self.extra(I, n, kind, name, did, obj, args, env)
            if r is not NotImplemented:
                return r
        if kind == 'function' and name == 'make_unique':
            m_ = re.search(r'unique_ptr(?:_t)?<([\w:]+)', dqt(n) + ' ' + qt(n))
            if not m_:
                raise AnalysisBroken('cannot resolve make_unique target type at %s' % pos(n))
            tn = m_.group(1)
            cls = tn if tn in I.idx.records else (I.idx._resolve_record_name(tn.split('::')[-1], 'xcmp::CodeBuffer') or tn)
            vals = [I.expr(a, env) for a in args]
            o = I.construct(cls, vals)
            self.fix_containers(o)
            return o
        if kind == 'function' and name == 'make_pair':
            return ('pair',) + tuple(I.expr(a, env) for a in args)
        if kind == 'function' and name == 'max':
            a, b = I.expr(args[0], env), I.expr(args[1], env)
            if isinstance(a, IV) and isinstance(b, IV):
                lbs = []
                for x in (a, b):
                    lbs += (x.lbs or ([x.aff] if x.aff is not None else []))
                try:
                    ge = I.truth(I.binop('>=', a, b, n), n)
                    w_ = a if ge else b
                    r = IV(w_.w, w_.signed, w_.lo, w_.hi, w_.bits, None, w_.aff)
                except NeedSplit:
                    r = IV(a.w, a.signed, max(a.lo, b.lo), max(a.hi, b.hi))
                r.lbs = lbs
                return r
        return NotImplemented

    def fix_containers(self, o):
        """Members of container type are default-constructed: give them an abstract empty container."""
        rec = self.idx.records.get(o.cls)
        chain = [o.cls] + self.idx.bases_of(o.cls)
        for c in chain:
            r = self.idx.records.get(c)
            if not r:
                continue
            for f in r.fields:
                t = dqt(f) + ' ' + qt(f)
                if f['name'] in o.fields and not (isinstance(o.fields[f['name']], tuple) and o.fields[f['name']][:1] == ('temp',)):
                    continue
                if 'std::vector' in t:
                    o.fields[f['name']] = Vec([])
                elif 'std::map' in t:
                    o.fields[f['name']] = {}
                elif 'std::optional' in t:
                    o.fields.setdefault(f['name'], None)
                elif 'unique_ptr' in t or t.strip().endswith('*'):
                    o.fields.setdefault(f['name'], None)

    # -- expressions ---------------------------------------------------------------------------------
    def t(self, name):
        return const(32, True, self.tok[name])

    def _mk(self, cls, args, label):
        o = self.I.construct(cls, args, name=label)
        self.fix_containers(o)
        o.fields.setdefault('constValue', None)
        return o

    def num(self, v, label=None):
        val = v if isinstance(v, IV) else const(32, False, v & 0xFFFFFFFF)
        return self._mk('xcmp::NumberExpr', [None, val], label or 'num(%s)' % (v,))

    def boolean(self, v):
        return self._mk('xcmp::BooleanExpr', [None, const(1, False, v)], 'bool(%d)' % v)

    def var(self, name):
        return self._mk('xcmp::VarRefExpr', [None, ('str', name)], 'var ' + name)

    def string(self, text):
        return self._mk('xcmp::StringExpr', [None, ('str', text)], 'string')

    def call(self, name, args=()):
        return self._mk('xcmp::CallExpr', [None, ('str', name), Vec(list(args))], 'call ' + name)

    def syscall(self, n, args=()):
        return self._mk('xcmp::CallExpr', [None, const(32, True, n), Vec(list(args))], 'syscall %d' % n)

    def sub(self, name, index):
        return self._mk('xcmp::ArraySubscriptExpr', [None, ('str', name), index], 'subscript ' + name)

    def binop(self, op, l, r):
        return self._mk('xcmp::BinaryOpExpr', [None, self.t(op), l, r], 'binop ' + op)

    def unop(self, op, e):
        return self._mk('xcmp::UnaryOpExpr', [None, self.t(op), e], 'unop ' + op)

    # -- passes ---------------------------------------------------------------------------------------
    def visitor(self, cls, args=()):
        v = self.I.construct(cls, list(args))
        # AstVisitor base state
        for f, val in (('recurseOp', const(1, False, 1)), ('recurseCalls', const(1, False, 1)), ('recurseStmts', const(1, False, 1)),
                       ('exprReplacement', None)):
            v.fields.setdefault(f, val)
        v.fields.setdefault('scope', Vec([('str', '')]))
        if isinstance(v.fields.get('scope'), Vec) and not v.fields['scope'].items:
            v.fields['scope'].items.append(('str', ''))      # the traversal has entered the program: global scope
        elif not isinstance(v.fields.get('scope'), Vec):
            v.fields['scope'] = Vec([('str', '')])
        return v

    def visit_pre(self, visitor, node):
        return self.visit_post(visitor, node, 'visitPre')

    def visit_post(self, visitor, node, which='visitPost'):
        m = None
        for c in [visitor.cls] + self.idx.bases_of(visitor.cls):
            rec = self.idx.records.get(c)
            if not rec:
                continue
            for x in rec.methods:
                if x.name == which and x.params and node.cls.split('::')[-1] in qt(x.params[0]) and x.body is not None:
                    m = x
                    break
            if m:
                break
        if m is None:
            return None
        return self.I.invoke(m, visitor, [node])

    def const_prop(self, node, symtab=None):
        """Annotate a tree bottom-up with ConstProp (leaves: numbers/booleans become constant)."""
        cp = self.visitor('xcmp::ConstProp', [symtab or Obj('xcmp::SymbolTable', {'symbolMap': {}}, 'symtab')])
        self._post_order(node, lambda n: self.visit_post(cp, n) if n.cls not in ('xcmp::VarRefExpr', 'xcmp::CallExpr') else None)
        return node

    def _post_order(self, node, fn):
        for f in ('LHS', 'RHS', 'element', 'expr'):
            c = node.fields.get(f)
            if isinstance(c, Obj):
                self._post_order(c, fn)
        fn(node)

    # -- reference meaning ----------------------------------------------------------------------------
    def meaning(self, node, env):
        """Value of an abstract tree under an assignment of its variables (X operator table)."""
        c = node.cls.split('::')[-1]
        if c == 'NumberExpr':
            v = node.fields['value']
            return wrap32(v.lo)
        if c == 'BooleanExpr':
            return node.fields['value'].lo
        if c == 'VarRefExpr':
            return env[node.fields['name'][1]]
        if c == 'BinaryOpExpr':
            op = self.rtok[node.fields['op'].lo]
            a = self.meaning(node.fields['LHS'], env)
            if op == 'AND' and a == 0:
                return 0
            if op == 'OR' and a != 0:
                return a
            return x_binop(op, a, self.meaning(node.fields['RHS'], env))
        if c == 'UnaryOpExpr':
            return x_unop(self.rtok[node.fields['op'].lo], self.meaning(node.fields['element'], env))
        raise AnalysisBroken('no reference meaning for %s' % c)

    def show(self, node):
        if node is None:
            return 'null'
        c = node.cls.split('::')[-1]
        if c == 'NumberExpr':
            return str(wrap32(node.fields['value'].lo)) if node.fields['value'].concrete() else repr(node.fields['value'])
        if c == 'BooleanExpr':
            return 'true' if node.fields['value'].lo else 'false'
        if c == 'VarRefExpr':
            return node.fields['name'][1]
        if c == 'BinaryOpExpr':
            return '(%s %s %s)' % (self.show(node.fields.get('LHS')), self.rtok.get(node.fields['op'].lo), self.show(node.fields.get('RHS')))
        if c == 'UnaryOpExpr':
            return '%s(%s)' % (self.rtok.get(node.fields['op'].lo), self.show(node.fields.get('element')))
        return node.name


def make_frame(I, idx, label='_exit_label'):
    """Construct xcmp::Frame through its user-provided constructor, whatever number of label strings it takes."""
    rec = idx.record('xcmp::Frame')
    ctors = [c for c in rec.ctors if not c.node.get('isImplicit') and c.params and all('string' in qt(p) for p in c.params)]
    if not ctors:
        raise AnalysisBroken('xcmp::Frame has no constructor taking label strings')
    c = sorted(ctors, key=lambda c: len(c.params))[0]
    return I.construct('xcmp::Frame', [('str', label + ('' if i == 0 else '_%d' % i)) for i in range(len(c.params))])
