"""MANIFEST.setup_cmd: build the clang plugin from the sources on disk (offline, ~7 s)."""
import sys
from . import frontend


def main():
    so = frontend.plugin_path()
    print('clang plugin ready:', so)
    return 0


if __name__ == '__main__':
    sys.exit(main())
