"""Members the models refer to by name.

The engines build abstract objects with the repository's own constructors, but rules and hooks read some members by their names
(`immValue`, `labelValue`, `constValue`, the simulator's registers, ...).  A change that renames one of them leaves every behaviour as it
was; a rule that then reads "nothing" must not turn that into a verdict.  Each check therefore verifies first that every member it knows by
name still exists in its class: a vanished anchor is *analysis broken* (exit 2, re-confirm the table), never a pass and never a violation.
"""
from .frontend import AnalysisBroken

GROUPS = {
    'asm': ('hexasm.cpp', {
        'hexasm::Directive': ['token', 'byteOffset'],
        'hexasm::Data': ['value'],
        'hexasm::Label': ['label', 'labelValue'],
        'hexasm::InstrImm': ['immValue'],
        'hexasm::InstrLabel': ['label', 'labelValue', 'relative'],
        'hexasm::InstrOp': ['opcode'],
        'hexasm::Padding': ['numBytes'],
        'hexasm::CodeGen': ['program', 'labelMap', 'programSizeBytes', 'debugInfo'],
        'hexasm::Lexer': ['value', 'lastToken', 'lastChar', 'identifier', 'currentLine', 'currentLineNumber', 'currentCharNumber', 'table', 'file'],
    }),
    'xcmp': ('xcmp.cpp', {
        'xcmp::Expr': ['constValue'],
        'xcmp::BinaryOpExpr': ['op', 'LHS', 'RHS'],
        'xcmp::UnaryOpExpr': ['op', 'element'],
        'xcmp::VarRefExpr': ['name'],
        'xcmp::NumberExpr': ['value'],
        'xcmp::CallExpr': ['name', 'args'],
        'xcmp::ArraySubscriptExpr': ['name', 'expr'],
        'xcmp::AstVisitor': ['exprReplacement'],
        'xcmp::Frame': ['offset', 'size'],
        'xcmp::Symbol': ['frame', 'stackOffset', 'scope', 'name', 'node'],
        'xcmp::CodeBuffer': ['instrs', 'data', 'currentFrame'],
        'xcmp::CodeGen': ['cb'],
        'xcmp::InstrStackOffset': ['frame', 'offset'],
        'xcmp::Lexer': ['value', 'lastToken', 'lastChar', 'identifier', 'currentLine', 'currentLineNumber', 'currentCharNumber', 'table', 'file'],
        # the in-process assembler as the compiler's models use it
        'hexasm::InstrImm': ['immValue'],
        'hexasm::Label': ['label', 'labelValue'],
        'hexasm::InstrLabel': ['label', 'labelValue'],
        'hexasm::Directive': ['token', 'byteOffset'],
    }),
    'sim': ('hexsim.cpp', {
        'hexsim::Processor': ['pc', 'areg', 'breg', 'oreg', 'memory', 'io', 'tracing', 'truncateInputs', 'cycles', 'maxCycles',
                              'lastPC', 'instr', 'instrEnum', 'exitCode', 'debugInfo',
                              # known by name only while such a member exists at all (a change may legitimately do without it):
                              ('running', lambda fields: any(t == 'bool' for n, t in fields if n not in ('tracing', 'truncateInputs'))),
                              ('debugInfoMap', lambda fields: any('map<' in t for n, t in fields))],
        'hex::HexSimIO': ['in', 'out'],
    }),
}

# which groups the rules of a property read by name (imports included)
BY_PROPERTY = {
    'C01': ['xcmp'], 'C02': ['sim'], 'C03': [], 'C04': ['asm'], 'C05': ['asm'], 'C06': ['sim'], 'C07': ['xcmp'], 'C08': ['xcmp'],
    'C09': ['xcmp'], 'C10': ['asm'], 'C11': ['xcmp', 'asm'], 'C12': ['sim'], 'C13': [], 'C14': ['sim', 'asm'], 'C15': ['sim', 'asm', 'xcmp'],
    'C16': [], 'C17': ['asm'],
}


def _members(idx, cls):
    out = {}
    for c in [cls] + idx.bases_of(cls):
        rec = idx.records.get(c)
        if rec is not None:
            for f in rec.fields:
                out[f.get('name')] = (f.get('type') or {}).get('qualType', '')
    return out


def missing(group):
    from . import cast
    tu, table = GROUPS[group]
    idx = cast.load(tu)
    miss = []
    for cls, names in table.items():
        if cls not in idx.records:
            miss.append(cls + ' (class)')
            continue
        have = _members(idx, cls)
        for n in names:
            if isinstance(n, tuple):
                n, needed = n
                if n not in have and needed(list(have.items())):
                    miss.append('%s::%s' % (cls, n))
            elif n not in have:
                miss.append('%s::%s' % (cls, n))
    return miss


def verify(prop):
    miss = []
    for g in BY_PROPERTY.get(prop, []):
        miss += missing(g)
    if miss:
        raise AnalysisBroken('members the models of %s know by name no longer exist: %s -- a rename changes no behaviour, but the name tables '
                             '(hexsa/anchors.py and the rules that read these members) have to be re-confirmed before any verdict' % (prop, ', '.join(sorted(set(miss)))))
