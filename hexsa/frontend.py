"""Front ends: the resolved program, regenerated from the repository's current working tree.

* compile flags come from a compilation database produced by configuring the real CMake project in a
  scratch directory (removed afterwards);
* C++: clang's type-checked AST as JSON (-ast-dump=json with a name filter, post-filtered by exact
  qualified name / defining file);
* Verilog: Verilator's elaborated XML AST.

Every artefact is cached under /verif/.cache keyed by a hash of the *content* of all inputs (sources,
flags, tool versions), so a cache hit is by construction identical to a fresh run on the current tree.
"""
import hashlib, json, os, pickle, re, shlex, shutil, subprocess, sys, tempfile

REPO = os.path.realpath(os.environ.get('HEXSA_REPO', '/repo'))
VERIF = os.path.dirname(os.path.dirname(os.path.abspath(__file__)))
CACHE = os.environ.get('HEXSA_CACHE', os.path.join(VERIF, '.cache'))
CLANG = 'clang++'


class AnalysisBroken(Exception):
    """The analysis could not be carried out (exit code 2). Never used for a decided violation."""


def _run(cmd, **kw):
    return subprocess.run(cmd, stdout=subprocess.PIPE, stderr=subprocess.PIPE, text=True, **kw)


_SRC_DIRS = ['', 'verilog', 'synth', 'tests', 'tests/unit', 'cmake']
_SRC_EXT = ('.cpp', '.hpp', '.sv', '.v', '.txt', '.in', '.cmake', '.ys')


def source_files():
    out = []
    for d in _SRC_DIRS:
        p = os.path.join(REPO, d)
        if not os.path.isdir(p):
            continue
        for f in sorted(os.listdir(p)):
            fp = os.path.join(p, f)
            if os.path.isfile(fp) and f.endswith(_SRC_EXT):
                out.append(os.path.join(d, f) if d else f)
    return out


_tree_hash = None


def tree_hash():
    global _tree_hash
    if _tree_hash is None:
        h = hashlib.sha256()
        for f in source_files():
            h.update(f.encode() + b'\0')
            with open(os.path.join(REPO, f), 'rb') as fh:
                h.update(hashlib.sha256(fh.read()).digest())
        h.update(_tool_versions().encode())
        _tree_hash = h.hexdigest()[:24]
    return _tree_hash


_tv = None


def _tool_versions():
    global _tv
    if _tv is None:
        a = _run([CLANG, '--version']).stdout.splitlines()[0]
        b = _run(['verilator', '--version']).stdout.strip()
        _tv = a + '|' + b + '|fe4'
    return _tv


def _cache_path(kind, key):
    d = os.path.join(CACHE, tree_hash())
    os.makedirs(d, exist_ok=True)
    return os.path.join(d, kind + '-' + hashlib.sha256(key.encode()).hexdigest()[:16])


def _cache_get(kind, key):
    p = _cache_path(kind, key)
    if os.path.exists(p):
        try:
            with open(p, 'rb') as fh:
                return pickle.load(fh)
        except Exception:
            return None
    return None


def _cache_put(kind, key, val):
    p = _cache_path(kind, key)
    tmp = p + '.tmp%d' % os.getpid()
    with open(tmp, 'wb') as fh:
        pickle.dump(val, fh, protocol=pickle.HIGHEST_PROTOCOL)
    os.replace(tmp, p)
    _prune_cache()


def _prune_cache(keep=6):
    try:
        ds = [os.path.join(CACHE, d) for d in os.listdir(CACHE)]
        ds = [d for d in ds if os.path.isdir(d) and os.path.basename(d) != 'plugin']
        ds.sort(key=os.path.getmtime, reverse=True)
        for d in ds[keep:]:
            shutil.rmtree(d, ignore_errors=True)
    except OSError:
        pass


# ------------------------------------------------------------------------------------------------
# compilation database
# ------------------------------------------------------------------------------------------------

def _build_type():
    cc = os.path.join(REPO, '_build', 'CMakeCache.txt')
    if os.path.exists(cc):
        for line in open(cc, errors='replace'):
            if line.startswith('CMAKE_BUILD_TYPE:'):
                v = line.split('=', 1)[1].strip()
                if v:
                    return v
    return 'RelWithDebInfo'


def compdb():
    """{tu basename: [flags]} for the five tool translation units plus 'vl_include' (a directory inside
    the cache holding the verilated headers hextb.cpp needs) and 'verilate' (sources, top module)."""
    got = _cache_get('compdb', 'v2')
    if got is not None and os.path.isdir(got.get('vl_include', '/nonexistent')):
        return got
    scratch = tempfile.mkdtemp(prefix='hexsa-cfg-')
    try:
        r = _run(['cmake', '-G', 'Ninja', '-S', REPO, '-B', scratch,
                  '-DCMAKE_BUILD_TYPE=' + _build_type(), '-DCMAKE_CXX_FLAGS=-Wno-error'])
        if r.returncode != 0:
            raise AnalysisBroken('cmake configure failed: ' + r.stderr[-2000:])
        r = _run(['ninja', '-C', scratch, '-t', 'compdb'])
        if r.returncode != 0:
            raise AnalysisBroken('ninja -t compdb failed: ' + r.stderr[-2000:])
        db = json.loads(r.stdout)
        out = {}
        vlsrc = None
        for e in db:
            f = e.get('file', '')
            if not f.startswith(REPO + '/') or not f.endswith('.cpp'):
                continue
            args = shlex.split(e['command'])
            flags = []
            skip = False
            for a in args[1:]:
                if skip:
                    skip = False
                    continue
                if a in ('-o', '-MT', '-MF'):
                    skip = True
                    continue
                if a in ('-c', '-MD') or a == f:
                    continue
                flags.append(a)
            base = os.path.basename(f)
            tgt = re.search(r'CMakeFiles/(\w+)\.dir', e['command'])
            key = base if base != 'hex.cpp' else 'hex.cpp@' + (tgt.group(1) if tgt else '')
            if '/tests/' in f:
                key = 'tests/' + base
            out[key] = flags
            for a in flags:
                if a.startswith('-I') and 'Vhex_pkg.dir' in a:
                    vlsrc = a[2:]
        # keep the verilated headers (hextb.cpp includes them)
        vl_keep = _cache_path('vlinc', 'dir')
        # concurrent checks on the same tree share this directory: it is filled aside and moved into place in one step, and a complete
        # one is never removed (another process may be compiling against it)
        if not os.path.exists(os.path.join(vl_keep, '.complete')):
            os.makedirs(os.path.dirname(vl_keep), exist_ok=True)
            aside = tempfile.mkdtemp(prefix='vlinc-', dir=os.path.dirname(vl_keep))
            if vlsrc and os.path.isdir(vlsrc):
                for f in os.listdir(vlsrc):
                    if f.endswith('.h'):
                        shutil.copy(os.path.join(vlsrc, f), aside)
            open(os.path.join(aside, '.complete'), 'w').close()
            try:
                if os.path.isdir(vl_keep) and not os.path.exists(os.path.join(vl_keep, '.complete')):
                    shutil.rmtree(vl_keep, ignore_errors=True)       # left over from an interrupted run
                os.rename(aside, vl_keep)
            except OSError:
                shutil.rmtree(aside, ignore_errors=True)             # somebody else completed it first
        if vlsrc and os.path.isdir(vlsrc):
            for k in out:
                out[k] = [('-I' + vl_keep) if (a.startswith('-I') and 'Vhex_pkg.dir' in a) else a
                          for a in out[k]]
        out['vl_include'] = vl_keep
        out['build_type'] = _build_type()
        out['verilate'] = _parse_verilate()
        _cache_put('compdb', 'v2', out)
        return out
    finally:
        shutil.rmtree(scratch, ignore_errors=True)


def _parse_verilate():
    """Read the verilate(...) call from CMakeLists.txt: top module and source list."""
    txt = open(os.path.join(REPO, 'CMakeLists.txt')).read()
    m = re.search(r'verilate\s*\(([^)]*)\)', txt, re.S)
    if not m:
        raise AnalysisBroken('no verilate() call in CMakeLists.txt')
    toks = m.group(1).split()
    top = None
    srcs = []
    mode = None
    for i, t in enumerate(toks):
        if t == '--top-module':
            top = toks[i + 1]
        if t in ('SOURCES', 'VERILATOR_ARGS', 'TRACE', 'INCLUDE_DIRS', 'PREFIX', 'DIRECTORY'):
            mode = t
            continue
        if mode == 'SOURCES':
            srcs.append(t)
    if not top or not srcs:
        raise AnalysisBroken('cannot read top module / sources from verilate()')
    vargs = []
    mode = None
    for t in toks:
        if t in ('SOURCES', 'VERILATOR_ARGS', 'TRACE', 'INCLUDE_DIRS', 'PREFIX', 'DIRECTORY'):
            mode = t
            continue
        if mode == 'VERILATOR_ARGS':
            vargs.append(t)
    return {'top': top, 'sources': srcs, 'args': vargs}


# ------------------------------------------------------------------------------------------------
# clang JSON AST
# ------------------------------------------------------------------------------------------------

class _Pos:
    __slots__ = ('file', 'line')

    def __init__(self):
        self.file = None
        self.line = None


def _bare(loc, st):
    if 'file' in loc:
        st.file = loc['file']
    if 'line' in loc:
        st.line = loc['line']
    return (st.file, st.line)


def _loc(loc, st):
    if not loc:
        return None
    if 'spellingLoc' in loc or 'expansionLoc' in loc:
        if 'spellingLoc' in loc:
            _bare(loc['spellingLoc'], st)
        r = None
        if 'expansionLoc' in loc:
            r = _bare(loc['expansionLoc'], st)
        return r or (st.file, st.line)
    return _bare(loc, st)


def _annotate(node, st):
    """Resolve clang's elided file/line attributes statefully in print order; strip ranges."""
    if isinstance(node, dict):
        pos = None
        if 'loc' in node and isinstance(node['loc'], dict):
            pos = _loc(node['loc'], st)
        if 'range' in node and isinstance(node['range'], dict):
            b = _loc(node['range'].get('begin'), st)
            _loc(node['range'].get('end'), st)
            if pos is None or pos[0] is None:
                pos = b
            del node['range']
        if 'loc' in node:
            del node['loc']
        if pos is not None and 'kind' in node:
            node['_pos'] = pos
        for k, v in node.items():
            if k in ('_pos',):
                continue
            if isinstance(v, (dict, list)):
                _annotate(v, st)
        inner = node.get('inner')
        if isinstance(inner, list) and any(isinstance(c, dict) and str(c.get('kind', '')).endswith('Comment') for c in inner):
            # documentation comments are children of the declaration they describe: not part of the program
            node['inner'] = [c for c in inner if not (isinstance(c, dict) and str(c.get('kind', '')).endswith('Comment'))]
    elif isinstance(node, list):
        for v in node:
            _annotate(v, st)


def _split_json(s):
    dec = json.JSONDecoder()
    i = 0
    n = len(s)
    out = []
    while i < n:
        while i < n and s[i] in ' \n\r\t':
            i += 1
        if i >= n:
            break
        if s[i] != '{':
            j = s.find('\n', i)
            i = n if j < 0 else j
            continue
        o, i = dec.raw_decode(s, i)
        out.append(o)
    return out


PLUGIN_SRC = os.path.join(VERIF, 'hexsa', 'plugin', 'dumprepo.cc')


def plugin_path():
    """Build (once per source content) the clang plugin that dumps all repository declarations."""
    h = hashlib.sha256(open(PLUGIN_SRC, 'rb').read() + _tool_versions().encode()).hexdigest()[:16]
    d = os.path.join(CACHE, 'plugin')
    so = os.path.join(d, 'dumprepo-%s.so' % h)
    if os.path.exists(so):
        return so
    os.makedirs(d, exist_ok=True)
    cxxflags = _run(['llvm-config-14', '--cxxflags']).stdout.split()
    tmp = so + '.tmp%d' % os.getpid()
    r = _run([CLANG] + cxxflags + ['-fPIC', '-shared', '-fno-rtti', PLUGIN_SRC, '-o', tmp])
    if r.returncode != 0:
        raise AnalysisBroken('cannot build clang plugin: ' + r.stderr[-2000:])
    os.replace(tmp, so)
    return so


def ast_dump(tu):
    """All top-level declarations of translation unit `tu` (e.g. 'xcmp.cpp') that are defined in files
    of the repository, as clang JSON AST (one process, so node ids are consistent within the unit)."""
    key = 'ast|%s' % tu
    got = _cache_get('ast', key)
    if got is not None:
        return got
    db = compdb()
    if tu not in db:
        raise AnalysisBroken('translation unit %s not in compilation database' % tu)
    src = os.path.join(REPO, tu.split('@')[0])
    cmd = [CLANG] + db[tu] + ['-w', '-fsyntax-only', '-fplugin=' + plugin_path(), '-Xclang', '-plugin',
                              '-Xclang', 'dumprepo', '-Xclang', '-plugin-arg-dumprepo', '-Xclang', REPO + '/', src]
    r = _run(cmd)
    if r.returncode != 0:
        raise AnalysisBroken('clang failed on %s: %s' % (tu, r.stderr[-3000:]))
    objs = _split_json(r.stdout)
    keep = []
    for o in objs:
        _annotate(o, _Pos())
        keep.append(o)
    if not keep:
        raise AnalysisBroken('no repository declarations found in %s' % tu)
    sys.setrecursionlimit(max(sys.getrecursionlimit(), 20000))
    _cache_put('ast', key, keep)
    return keep


# ------------------------------------------------------------------------------------------------
# Verilator XML
# ------------------------------------------------------------------------------------------------

def verilator_xml(files, top, defines=()):
    """Elaborated XML text for the given Verilog sources (paths relative to the repository)."""
    key = 'vlxml|%s|%s|%s' % (','.join(files), top, ','.join(defines))
    got = _cache_get('vlxml', key)
    if got is not None:
        return got
    scratch = tempfile.mkdtemp(prefix='hexsa-vl-')
    try:
        out = os.path.join(scratch, 'o.xml')
        cmd = ['verilator', '--xml-only', '-Wno-fatal', '--top-module', top, '--xml-output', out,
               '--Mdir', scratch] + ['+define+' + d for d in defines] + [os.path.join(REPO, f) for f in files]
        r = _run(cmd)
        if r.returncode != 0 or not os.path.exists(out):
            raise AnalysisBroken('verilator --xml-only failed on %s: %s' % (files, (r.stderr or r.stdout)[-3000:]))
        txt = open(out).read()
        _cache_put('vlxml', key, txt)
        return txt
    finally:
        shutil.rmtree(scratch, ignore_errors=True)


def read_source(rel):
    with open(os.path.join(REPO, rel), errors='replace') as fh:
        return fh.read()
