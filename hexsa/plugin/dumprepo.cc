// Clang frontend plugin: dump, as JSON (clang's own JSONNodeDumper), every top-level declaration of the
// translation unit whose expansion location lies in a file below a given directory prefix.
//   clang++ -fsyntax-only -fplugin=dumprepo.so -Xclang -plugin -Xclang dumprepo \
//           -Xclang -plugin-arg-dumprepo -Xclang /repo/  file.cpp
// One JSON object per declaration, separated by newlines, on stdout.
#include "clang/AST/ASTConsumer.h"
#include "clang/AST/ASTContext.h"
#include "clang/AST/Decl.h"
#include "clang/Basic/SourceManager.h"
#include "clang/Frontend/CompilerInstance.h"
#include "clang/Frontend/FrontendPluginRegistry.h"
#include "llvm/Support/raw_ostream.h"

using namespace clang;

namespace {

class DumpConsumer : public ASTConsumer {
  std::string Prefix;
public:
  explicit DumpConsumer(std::string P) : Prefix(std::move(P)) {}
  void HandleTranslationUnit(ASTContext &Ctx) override {
    SourceManager &SM = Ctx.getSourceManager();
    for (Decl *D : Ctx.getTranslationUnitDecl()->decls()) {
      SourceLocation Loc = SM.getExpansionLoc(D->getLocation());
      if (Loc.isInvalid())
        continue;
      PresumedLoc P = SM.getPresumedLoc(Loc);
      if (P.isInvalid())
        continue;
      llvm::StringRef F(P.getFilename());
      if (!F.startswith(Prefix))
        continue;
      D->dump(llvm::outs(), /*Deserialize=*/false, ADOF_JSON);
      llvm::outs() << "\n";
    }
    llvm::outs().flush();
  }
};

class DumpAction : public PluginASTAction {
  std::string Prefix = "/repo/";
protected:
  std::unique_ptr<ASTConsumer> CreateASTConsumer(CompilerInstance &, llvm::StringRef) override {
    return std::make_unique<DumpConsumer>(Prefix);
  }
  bool ParseArgs(const CompilerInstance &, const std::vector<std::string> &Args) override {
    if (!Args.empty())
      Prefix = Args[0];
    return true;
  }
  PluginASTAction::ActionType getActionType() override { return ReplaceAction; }
};

} // namespace

static FrontendPluginRegistry::Add<DumpAction> X("dumprepo", "dump repository declarations as JSON");
