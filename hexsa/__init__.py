"""hexsa -- repository-specific static analysis of jameshanlon/hex-processor (see /verif/DESIGN.md)."""
