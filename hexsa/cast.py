"""Declaration index and helpers over clang's JSON AST (as produced by frontend.ast_dump)."""
import re
from . import frontend as fe
from .frontend import AnalysisBroken

FUNC_KINDS = ('FunctionDecl', 'CXXMethodDecl', 'CXXConstructorDecl', 'CXXDestructorDecl', 'CXXConversionDecl')
RECORD_KINDS = ('CXXRecordDecl',)
TRANSPARENT = ('ParenExpr', 'ExprWithCleanups', 'MaterializeTemporaryExpr', 'CXXBindTemporaryExpr',
               'ConstantExpr', 'ImplicitCastExpr', 'CXXFunctionalCastExpr', 'CXXStaticCastExpr',
               'CStyleCastExpr', 'CXXConstCastExpr', 'CXXReinterpretCastExpr')


def qt(n):
    t = n.get('type') or {}
    return t.get('qualType', '')


def dqt(n):
    t = n.get('type') or {}
    return t.get('desugaredQualType') or t.get('qualType', '')


def walk(n):
    """Pre-order traversal of AST nodes (dicts with 'kind')."""
    stack = [n]
    while stack:
        x = stack.pop()
        if isinstance(x, dict):
            if 'kind' in x:
                yield x
            inner = x.get('inner')
            if inner:
                stack.extend(reversed(inner))
        elif isinstance(x, list):
            stack.extend(reversed(x))


def children(n):
    return [c for c in n.get('inner', []) if isinstance(c, dict)]


def strip(n):
    """Skip value-preserving wrappers (parens, cleanups, implicit casts...)."""
    while n.get('kind') in TRANSPARENT and n.get('inner'):
        n = n['inner'][-1] if n['kind'] != 'CXXFunctionalCastExpr' else n['inner'][0]
    return n


def strip_noncast(n):
    while n.get('kind') in ('ParenExpr', 'ExprWithCleanups', 'MaterializeTemporaryExpr',
                            'CXXBindTemporaryExpr', 'ConstantExpr') and n.get('inner'):
        n = n['inner'][0]
    return n


def pos(n):
    p = n.get('_pos')
    if not p:
        return '?'
    f = p[0] or '?'
    if f.startswith(fe.REPO + '/'):
        f = f[len(fe.REPO) + 1:]
    return '%s:%s' % (f, p[1])


def nearest_pos(n):
    for x in walk(n):
        if x.get('_pos') and x['_pos'][0]:
            return pos(x)
    return '?'


class Func:
    def __init__(self, node, qname, cls):
        self.node = node
        self.qname = qname
        self.cls = cls  # qualified name of the enclosing record or None
        self.name = node.get('name', '')
        self.kind = node['kind']
        self.params = [c for c in children(node) if c['kind'] == 'ParmVarDecl']
        self.body = None
        for c in children(node):
            if c['kind'] == 'CompoundStmt':
                self.body = c
        self.inits = [c for c in children(node) if c['kind'] == 'CXXCtorInitializer']
        self.type = qt(node)
        self.id = node['id']

    @property
    def sig(self):
        return '%s(%s)' % (self.qname, ', '.join(qt(p) for p in self.params))

    def __repr__(self):
        return '<Func %s @%s>' % (self.sig, pos(self.node))


class Record:
    def __init__(self, node, qname):
        self.node = node
        self.qname = qname
        self.fields = [c for c in children(node) if c['kind'] == 'FieldDecl']
        self.bases = [b.get('type', {}).get('qualType', '') for b in node.get('bases', [])]
        self.methods = []
        self.ctors = []


class Index:
    """All declarations of a set of dumps, by id and by qualified name."""

    def __init__(self, tops):
        self.by_id = {}
        self.funcs = {}      # qname -> [Func]
        self.func_by_id = {}
        self.records = {}    # qname -> Record
        self.enums = {}      # qname -> {enumerator: value}
        self.enum_consts = {}  # id -> (qualified enumerator, value)
        self.vars = {}       # qname -> VarDecl (namespace / global scope)
        self.qname_of = {}
        self.tops = tops
        for t in tops:
            self._index(t, [], None)
        # link out-of-line definitions to their in-class declarations
        for f in list(self.func_by_id.values()):
            prev = f.node.get('previousDecl')
            if prev and f.body is not None and prev in self.func_by_id:
                if self.func_by_id[prev].body is None:
                    self.func_by_id[prev].body = f.body
                    self.func_by_id[prev].params = f.params     # the body refers to the definition's parameters
                self.func_by_id[prev].defn = f
        # redeclarations after the definition (e.g. `int numNibbles(int);` following the static definition)
        for f in list(self.func_by_id.values()):
            if f.body is None and not getattr(f, 'defn', None):
                prev = f.node.get('previousDecl')
                hops = 0
                while prev and prev in self.func_by_id and hops < 8:
                    g = self.func_by_id[prev]
                    if g.body is not None:
                        f.defn = g
                        break
                    prev = g.node.get('previousDecl')
                    hops += 1

    def _index(self, n, scope, cls):
        k = n.get('kind')
        nid = n.get('id')
        if nid:
            self.by_id[nid] = n
        if k == 'NamespaceDecl':
            sc = scope + [n.get('name', '(anon)')]
            for c in children(n):
                self._index(c, sc, None)
            return
        if k in RECORD_KINDS:
            if not n.get('completeDefinition') and not n.get('inner'):
                return
            if n.get('isImplicit'):
                return
            qn = '::'.join(scope + [n.get('name', '(anon)')])
            rec = self.records.get(qn)
            if rec is None or not rec.fields:
                rec = Record(n, qn)
                self.records[qn] = rec
            self.qname_of[nid] = qn
            sc = scope + [n.get('name', '(anon)')]
            for c in children(n):
                self._index(c, sc, qn)
            return
        if k == 'EnumDecl':
            qn = '::'.join(scope + [n.get('name', '(anon)')])
            vals = {}
            nxt = 0
            for c in children(n):
                if c['kind'] == 'EnumConstantDecl':
                    v = None
                    for x in walk(c):
                        if x['kind'] == 'ConstantExpr' and 'value' in x:
                            v = int(x['value'])
                            break
                        if x['kind'] == 'IntegerLiteral':
                            v = int(x['value'])
                            break
                    if v is None:
                        v = nxt
                    nxt = v + 1
                    vals[c['name']] = v
                    scoped = n.get('scopedEnumTag') is not None
                    qc = (qn + '::' + c['name']) if scoped else '::'.join(scope + [c['name']])
                    self.enum_consts[c['id']] = (qn, c['name'], v)
                    self.by_id[c['id']] = c
            self.enums[qn] = vals
            self.qname_of[nid] = qn
            return
        if k in FUNC_KINDS:
            name = n.get('name', '')
            # out-of-line definitions (hex.cpp) carry the qualifier only through previousDecl/parent
            qn = '::'.join(scope + [name])
            if n.get('parentDeclContextId') and n['parentDeclContextId'] in self.qname_of:
                qn = self.qname_of[n['parentDeclContextId']] + '::' + name
            elif n.get('parentDeclContextId') and n['parentDeclContextId'] in self.by_id:
                p = self.by_id[n['parentDeclContextId']]
                if p.get('kind') == 'NamespaceDecl' and not scope:
                    qn = p.get('name', '') + '::' + name
            f = Func(n, qn, cls)
            self.funcs.setdefault(qn, []).append(f)
            self.func_by_id[nid] = f
            self.qname_of[nid] = qn
            if cls and cls in self.records:
                (self.records[cls].ctors if k == 'CXXConstructorDecl' else self.records[cls].methods).append(f)
            for x in walk(n):
                if x.get('id'):
                    self.by_id.setdefault(x['id'], x)
            # classes declared inside the function body (local visitors and the like)
            for x in walk(n):
                if x is not n and x.get('kind') in RECORD_KINDS and x.get('completeDefinition') and x.get('name') and not x.get('isImplicit'):
                    lq = qn + '::' + x['name']
                    if lq not in self.records:
                        self._index(x, (qn.split('::')), None)
            return
        if k == 'VarDecl':
            qn = '::'.join(scope + [n.get('name', '')])
            self.vars[qn] = n
            self.qname_of[nid] = qn
            return
        if k == 'FieldDecl':
            self.qname_of[nid] = (cls or '') + '::' + n.get('name', '')
            return
        if k in ('FunctionTemplateDecl', 'ClassTemplateDecl', 'LinkageSpecDecl'):
            for c in children(n):
                self._index(c, scope, cls)

    # -------------------------------------------------------------------------------------------
    def overloads(self, qname):
        """All definitions of a (possibly overloaded) function."""
        return [f for f in self.funcs.get(qname, []) if f.body is not None]

    def func_where(self, qname, pred, required=True):
        """The single overload of qname whose body satisfies pred (falls back to func() when the name is not overloaded)."""
        ov = self.overloads(qname)
        if len(ov) <= 1:
            return self.func(qname, required=required)
        hit = [f for f in ov if pred(f)]
        if len(hit) == 1:
            return hit[0]
        if not hit and not required:
            return None
        raise AnalysisBroken('anchor function %s: %d overloads, %d with the expected content' % (qname, len(ov), len(hit)))

    def func(self, qname, param_contains=None, nparams=None, required=True, with_body=True):
        cands = list(self.funcs.get(qname, []))
        if with_body:
            cands = [f for f in cands if f.body is not None] or cands
        if param_contains is not None:
            cands = [f for f in cands if any(param_contains in qt(p) for p in f.params)]
        if nparams is not None:
            cands = [f for f in cands if len(f.params) == nparams]
        # de-duplicate declaration + definition pairs
        seen = []
        for f in cands:
            if not any(g.node.get('previousDecl') == f.id or f.node.get('previousDecl') == g.id for g in seen):
                seen.append(f)
        cands = seen
        if len(cands) == 1:
            return cands[0]
        if not cands:
            if required:
                raise AnalysisBroken('anchor function not found: %s (%s)' % (qname, param_contains))
            return None
        raise AnalysisBroken('anchor function ambiguous: %s (%s): %s' % (qname, param_contains, [c.sig for c in cands]))

    def funcs_named(self, qname):
        return [f for f in self.funcs.get(qname, [])]

    def record(self, qname, required=True):
        r = self.records.get(qname)
        if r is None and required:
            raise AnalysisBroken('anchor class not found: ' + qname)
        return r

    def enum(self, qname):
        if qname not in self.enums:
            raise AnalysisBroken('anchor enum not found: ' + qname)
        return self.enums[qname]

    def all_funcs(self):
        return list(self.func_by_id.values())

    def bases_of(self, qname, transitive=True):
        out = []
        todo = [qname]
        while todo:
            q = todo.pop()
            r = self.records.get(q)
            if not r:
                continue
            for b in r.bases:
                b = re.sub(r'^(class|struct) ', '', b)
                cand = self._resolve_record_name(b, q)
                if cand and cand not in out:
                    out.append(cand)
                    if transitive:
                        todo.append(cand)
        return out

    def _resolve_record_name(self, name, ctx):
        if name in self.records:
            return name
        parts = ctx.split('::')
        while parts:
            parts.pop()
            q = '::'.join(parts + [name])
            if q in self.records:
                return q
        for q in self.records:
            if q.endswith('::' + name):
                return q
        return None

    def derives_from(self, qname, base):
        return base == qname or base in self.bases_of(qname)


# ------------------------------------------------------------------------------------------------
# expression helpers
# ------------------------------------------------------------------------------------------------

def callee_of(call, idx=None):
    """(kind, name, decl_id, object_expr) of a call-like node.
    kind in 'method' | 'function' | 'operator' | 'ctor' | 'unknown'."""
    k = call['kind']
    ch = children(call)
    if k == 'CXXMemberCallExpr':
        m = strip_noncast(ch[0])
        if m['kind'] == 'MemberExpr':
            obj = children(m)[0] if children(m) else None
            return ('method', m.get('name', ''), m.get('referencedMemberDecl'), obj)
        return ('unknown', '', None, None)
    if k == 'CXXOperatorCallExpr':
        d = strip(ch[0])
        if d['kind'] == 'DeclRefExpr':
            r = d.get('referencedDecl', {})
            return ('operator', r.get('name', ''), r.get('id'), ch[1] if len(ch) > 1 else None)
        return ('unknown', '', None, None)
    if k == 'CallExpr':
        d = strip(ch[0])
        if d['kind'] == 'DeclRefExpr':
            r = d.get('referencedDecl', {})
            return ('function', r.get('name', ''), r.get('id'), None)
        if d['kind'] == 'MemberExpr':
            return ('method', d.get('name', ''), d.get('referencedMemberDecl'), children(d)[0] if children(d) else None)
        if d['kind'] == 'UnresolvedLookupExpr':
            return ('function', d.get('name', ''), None, None)
        return ('unknown', '', None, None)
    if k in ('CXXConstructExpr', 'CXXTemporaryObjectExpr'):
        return ('ctor', qt(call), None, None)
    return ('unknown', '', None, None)


def call_args(call):
    k = call['kind']
    ch = children(call)
    if k in ('CXXMemberCallExpr', 'CallExpr'):
        return ch[1:]
    if k == 'CXXOperatorCallExpr':
        return ch[1:]
    if k in ('CXXConstructExpr', 'CXXTemporaryObjectExpr'):
        return ch
    return []


CALL_KINDS = ('CallExpr', 'CXXMemberCallExpr', 'CXXOperatorCallExpr', 'CXXConstructExpr', 'CXXTemporaryObjectExpr')


def calls_in(n):
    return [x for x in walk(n) if x['kind'] in CALL_KINDS]


def const_int(n, idx=None):
    """Integer value of a constant expression node, or None."""
    n0 = n
    n = strip(n)
    k = n['kind']
    if k == 'IntegerLiteral':
        return int(n['value'])
    if k == 'CXXBoolLiteralExpr':
        return 1 if n['value'] else 0
    if k == 'CharacterLiteral':
        return int(n['value'])
    if k == 'ConstantExpr' and 'value' in n:
        return int(n['value'])
    if k == 'UnaryOperator' and n.get('opcode') == '-':
        v = const_int(children(n)[0], idx)
        return None if v is None else -v
    if k == 'UnaryExprOrTypeTraitExpr' and n.get('name') == 'sizeof':
        t = ((n.get('argType') or {}).get('desugaredQualType') or (n.get('argType') or {}).get('qualType') or '').replace('const ', '').strip()
        return {'char': 1, 'unsigned char': 1, 'signed char': 1, 'short': 2, 'unsigned short': 2, 'int': 4, 'unsigned int': 4, 'unsigned': 4,
                'uint32_t': 4, 'int32_t': 4, 'long': 8, 'unsigned long': 8, 'uint64_t': 8, 'size_t': 8, 'long long': 8,
                'unsigned long long': 8, 'uint8_t': 1, 'uint16_t': 2}.get(t)
    if k == 'DeclRefExpr' and idx is not None:
        r = n.get('referencedDecl', {})
        if r.get('kind') == 'EnumConstantDecl' and r.get('id') in idx.enum_consts:
            return idx.enum_consts[r['id']][2]
        if r.get('kind') == 'VarDecl':
            d = idx.by_id.get(r.get('id'))
            if d is not None and 'const' in qt(d) and children(d):
                return const_int(children(d)[-1], idx)
    if k == 'BinaryOperator' and idx is not None:
        a = const_int(children(n)[0], idx)
        b = const_int(children(n)[1], idx)
        if a is None or b is None:
            return None
        op = n['opcode']
        try:
            return {'+': a + b, '-': a - b, '*': a * b, '<<': a << b, '>>': a >> b, '|': a | b, '&': a & b}[op]
        except KeyError:
            return None
    return None


def enum_ref(n, idx):
    """(enum qname, enumerator, value) if the expression is an enumerator reference."""
    n = strip(n)
    if n['kind'] == 'DeclRefExpr':
        r = n.get('referencedDecl', {})
        if r.get('kind') == 'EnumConstantDecl':
            got = idx.enum_consts.get(r.get('id'))
            if got:
                return got
            return (None, r.get('name'), None)
    return None


def string_lit(n):
    for x in walk(n):
        if x['kind'] == 'StringLiteral':
            v = x.get('value', '')
            if len(v) >= 2 and v[0] == '"':
                try:
                    return bytes(v[1:-1], 'utf-8').decode('unicode_escape')
                except Exception:
                    return v[1:-1]
            return v
    return None


def decl_ref(n):
    """id of the variable/parameter a (stripped) expression refers to, or None."""
    n = strip(n)
    if n['kind'] == 'DeclRefExpr':
        return n.get('referencedDecl', {}).get('id')
    return None


def member_ref(n):
    """(name, member decl id) if the (stripped) expression is `this->m` / `m` / `obj.m`."""
    n = strip(n)
    if n['kind'] == 'MemberExpr':
        return (n.get('name'), n.get('referencedMemberDecl'))
    return None


def is_this_member(n):
    n = strip(n)
    if n['kind'] == 'MemberExpr':
        ch = children(n)
        return bool(ch) and strip(ch[0])['kind'] == 'CXXThisExpr'
    return False


_loaded = {}


def load(tu):
    """Index over all repository declarations of one translation unit (e.g. 'xcmp.cpp')."""
    if tu not in _loaded:
        _loaded[tu] = Index(fe.ast_dump(tu))
        _loaded[tu].tu = tu
    return _loaded[tu]


def format_arity(idx, func):
    """For every boost::format chain in a function: (position, literal, number of conversions, number of % operands)."""
    import re as _re
    out = []
    if func.body is None:
        return out
    inner_ids = set()
    chains = []
    for n in walk(func.body):
        if n['kind'] == 'CXXOperatorCallExpr' and callee_of(n)[1] == 'operator%':
            chains.append(n)
            a = call_args(n)
            for x in walk(a[0]):
                if x is not n and x['kind'] == 'CXXOperatorCallExpr' and callee_of(x)[1] == 'operator%':
                    inner_ids.add(x['id'])
    for n in chains:
        if n['id'] in inner_ids:
            continue
        # outermost: count operands down the left spine
        cnt = 0
        x = n
        while x['kind'] == 'CXXOperatorCallExpr' and callee_of(x)[1] == 'operator%':
            cnt += 1
            x = strip(call_args(x)[0])
            while x['kind'] in ('CXXBindTemporaryExpr', 'MaterializeTemporaryExpr', 'ExprWithCleanups', 'ParenExpr'):
                x = children(x)[0]
        lit = string_lit(x)
        if lit is None:
            continue
        body = lit.replace('%%', '')
        convs = _re.findall(r'%(?:\d+%|[#0\- +]*\d*(?:\.\d+)?[a-zA-Z])', body)
        pos_args = [int(c[1:-1]) for c in convs if c.endswith('%') and c[1:-1].isdigit()]
        need = max(pos_args) if pos_args else len(convs)
        out.append((pos(n), lit, need, cnt))
    return out
