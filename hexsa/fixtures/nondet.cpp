// Positive control for the nondeterminism-source scanner (hexsa/nondet.py): one instance of every pattern.
// Analysed with the same clang plugin on every run; the rule must find all of them, otherwise it is broken.
#include <locale>
#include <clocale>
#include <cerrno>
#include <cstdlib>
#include <chrono>
#include <cstdint>
#include <cstdlib>
#include <ctime>
#include <functional>
#include <iostream>
#include <map>
#include <random>
#include <set>
#include <string>
#include <unordered_map>
#include <unordered_set>
namespace fixture {
struct Node { int v; };
static int counter = 0;                       // mutable namespace-scope state
int bump() { static int calls = 0; return ++calls + counter; }   // mutable function-static state
int sources(Node *n, const std::string &s) {
  std::unordered_map<std::string, int> um;    // unordered container
  std::unordered_set<int> us;
  std::map<Node*, int> byPtr;                 // container keyed by pointer
  std::set<const Node*> ptrSet;
  um[s] = 1; us.insert(1); byPtr[n] = 2; ptrSet.insert(n);
  uintptr_t a = reinterpret_cast<uintptr_t>(n);       // pointer -> integer
  long b = (long)n;
  std::cout << n << "\n";                     // streaming a pointer
  const char *e = std::getenv("HOME");
  int r = std::rand();
  std::random_device rd;
  time_t t = std::time(nullptr);
  auto now = std::chrono::system_clock::now();
  size_t h = std::hash<std::string>()(s);
  clock_t c = std::clock();
  return (int)(a + b + r + t + h + c + (e ? 1 : 0) + rd() + now.time_since_epoch().count());
}
void useEnvironmentLocale() {
  std::locale::global(std::locale(""));      // locale named by LANG / LC_ALL
  std::setlocale(LC_ALL, "");
  std::ios::sync_with_stdio(false);          // read-ahead on the shared standard input
}
int buffers(size_t n, const char *digits) {
  char *raw = new char[n];                    // uninitialised dynamic buffer
  raw[0] = 1;
  int r = raw[n - 1];
  delete[] raw;
  unsigned long v = std::strtoul(digits, nullptr, 10);
  if (errno == ERANGE) r++;                   // errno read without having been reset in this function
  return r + (int)v;
}
}
