// Positive / negative controls for the recursion-depth rule (hexsa/callgraph.py).  Analysed on every run of C09 / C10:
// the rule must report exactly the cycles marked UNBOUNDED and accept the ones marked BOUNDED.
#include <stdexcept>
namespace fixture {

struct Node;
struct Visitor { virtual void visit(Node &) = 0; virtual ~Visitor() {} };
struct Node {
  Node *left = nullptr, *right = nullptr;
  virtual void accept(Visitor *v) { v->visit(*this); if (left) left->accept(v); if (right) right->accept(v); }
  virtual ~Node() {}
};

struct Reader {
  int pos = 0;
  const char *text = "";
  unsigned depth = 0;
  static const unsigned MAX_DEPTH = 100;

  // UNBOUNDED: self recursion, one level per '(' of the input
  int selfRecursive() { if (text[pos] == '(') { pos++; return 1 + selfRecursive(); } return 0; }

  // UNBOUNDED: mutual recursion
  int mutualA() { if (text[pos] == '[') { pos++; return mutualB(); } return 0; }
  int mutualB() { return 1 + mutualA(); }

  // BOUNDED: counter compared with a constant before the recursive call
  int guardedInline() {
    if (++depth > MAX_DEPTH) { throw std::runtime_error("too deep"); }
    int r = 0;
    if (text[pos] == '{') { pos++; r = 1 + guardedInline(); }
    depth--;
    return r;
  }

  // BOUNDED: the same through a scope guard object
  struct Scope {
    Reader &r;
    Scope(Reader &r) : r(r) { if (r.depth >= MAX_DEPTH) { throw std::runtime_error("too deep"); } r.depth++; }
    ~Scope() { r.depth--; }
  };
  int guardedRaii() { Scope s(*this); if (text[pos] == '<') { pos++; return 1 + guardedRaii(); } return 0; }

  // UNBOUNDED: the counter is compared but the recursion happens before the check
  int guardTooLate() {
    int r = 0;
    if (text[pos] == '^') { pos++; r = 1 + guardTooLate(); }
    if (++depth > MAX_DEPTH) { throw std::runtime_error("too deep"); }
    return r;
  }
};

int entry(Reader &r, Node &n, Visitor *v) {
  n.accept(v);
  return r.selfRecursive() + r.mutualA() + r.guardedInline() + r.guardedRaii() + r.guardTooLate();
}
}

// Second control: a visitor that applies accept() to a node it fetched from a table instead of to a child of the node it is
// visiting.  The cycle still passes through accept(), but nothing bounds it by the depth of the tree: UNBOUNDED.
namespace fixture2 {
struct Node;
struct Visitor { virtual void visit(Node &) = 0; virtual ~Visitor() {} };
struct Node {
  Node *child = nullptr;
  virtual void accept(Visitor *v) { v->visit(*this); if (child) child->accept(v); }
  virtual ~Node() {}
};
struct Table { Node *slots[4]; Node *find(int i) { return slots[i & 3]; } };
struct Resolver : Visitor {
  Table *table;
  void visit(Node &n) override {
    Node *other = table->find(1);
    if (other) other->accept(this);      // jump: `other` is not a child of n
  }
};
int entry(Node &n, Resolver *r) { n.accept(r); return 0; }
}
