"""Where do the label names that xcmp hands to the assembler come from?  (C01-R4 / C08: generated labels must not be able to
collide with the names of the user's procedures and globals, which share the assembler's single label namespace.)

Backward value-origin analysis over the resolved AST.  Sinks are the label operands of the hexasm::Label / Func / Proc /
InstrLabel directives constructed anywhere in xcmp::.  From a sink expression the analysis walks back through parameters (to
every call site, including make_unique / make_shared construction), locals, member fields (to every constructor initialiser
and assignment), getters and generator functions, until it reaches an *origin*:

  literal "..."          a name the compiler chose
  source name            a getter of a syntax-tree node or of the lexer: a name the user chose
  concatenation          operator+ of the above (and numbers)
  format                 boost::format("...") % ... .str()

A compiler-chosen name is safe iff it cannot be an X identifier: it starts with a character that cannot start an identifier,
or some literal part contains a character that cannot occur in one.  A user-chosen name is safe only when used unchanged.
"""
import re
from . import cast
from .cast import children, walk, pos, callee_of, call_args, qt, dqt

LABEL_CLASSES = ('hexasm::Label', 'hexasm::Func', 'hexasm::Proc', 'hexasm::InstrLabel')
WRAP = ('ImplicitCastExpr', 'MaterializeTemporaryExpr', 'CXXBindTemporaryExpr', 'ExprWithCleanups', 'ParenExpr', 'CXXFunctionalCastExpr',
        'ConstantExpr', 'CXXStaticCastExpr')


def ident_start(ch):
    return ch.isalpha()


def ident_char(ch):
    return ch.isalnum() or ch == '_'


class Origin:
    def __init__(self, kind, parts, where, trail):
        self.kind = kind          # literal | source | concat | format | number | unknown
        self.parts = parts        # list of (kind, text)
        self.where = where
        self.trail = trail

    def key(self):
        return '%s:%s' % (self.kind, '+'.join('%s(%s)' % p for p in self.parts))

    def verdict(self):
        """(ok, reason) ; ok None = cannot decide."""
        kinds = [k for k, _ in self.parts]
        if 'unknown' in kinds:
            return None, 'origin not recognised: %s' % self.parts
        lits = [t for k, t in self.parts if k in ('literal', 'format')]
        if kinds == ['source']:
            return True, 'a user-chosen name used unchanged'
        if kinds == ['number']:
            return True, 'a number cannot be an identifier'
        first_k, first_t = self.parts[0]
        if first_k in ('literal', 'format') and first_t and not ident_start(first_t[0]):
            return True, 'starts with %r, which cannot start an identifier' % first_t[0]
        if first_k == 'number':
            return True, 'starts with a digit'
        for t in lits:
            bad = [c for c in t if not ident_char(c) and c != '%']
            if bad:
                return True, 'contains %r, which cannot occur in an identifier' % bad[0]
        if kinds == ['literal']:
            return False, 'the compiler-chosen label %r is also a valid X identifier: a user procedure or global of that name collides with it' % first_t
        return False, ('the label is built as %s: every such name is also a valid X identifier, so a user procedure of that name collides '
                       'with the generated label' % ' + '.join('<%s>' % t if k == 'source' else repr(t) if k != 'number' else '<number>' for k, t in self.parts))


class LabelFlow:
    def __init__(self, idx, source_bases=('xcmp::AstNode',), source_classes=('xcmp::Lexer', 'hexasm::Lexer'), namespaces=('xcmp::', 'hexasm::')):
        self.idx = idx
        self.source_bases = source_bases
        self.source_classes = source_classes
        self.ns = namespaces
        self.callsites = {}     # callee func id -> [(caller Func, [arg nodes])]
        self.field_writes = {}  # field decl id -> [(Func, expr)]
        self._index()
        self.origins = []
        self.seen = set()

    # -------------------------------------------------------------------------------------------
    def _funcs(self):
        for f in self.idx.all_funcs():
            if f.body is None:
                continue
            if f.node.get('isImplicit') or not f.qname.startswith(self.ns):
                continue
            yield f

    def _ctor_for(self, cls, nargs):
        rec = self.idx.records.get(cls)
        if not rec:
            return None
        c = [x for x in rec.ctors if not x.node.get('isImplicit') and len(x.params) == nargs]
        return c[0] if len(c) >= 1 else None

    def _made_class(self, c):
        for tn in re.findall(r'[\w:]+', (dqt(c) + ' ' + qt(c)).replace('std::', '')):
            if tn in ('unique_ptr', 'shared_ptr', '_NonArray', '__detail', 'default_delete'):
                continue
            if tn in self.idx.records:
                return tn
            r = self.idx._resolve_record_name(tn.split('::')[-1], 'xcmp::CodeBuffer') if tn[:1].isupper() else None
            if r:
                return r
        return None

    def _index(self):
        idx = self.idx
        for f in self._funcs():
            roots = [f.body] if f.body is not None else []
            # constructor initialisers: member(expr)
            for ini in children(f.node):
                if ini.get('kind') == 'CXXCtorInitializer':
                    fid = (ini.get('anyInit') or {}).get('id')
                    ch = children(ini)
                    if fid and ch:
                        self.field_writes.setdefault(fid, []).append((f, ch[0]))
                    roots += ch
            for r in roots:
                for n in walk(r):
                    k = n.get('kind')
                    if k in ('CallExpr', 'CXXMemberCallExpr'):
                        kind, name, did, obj = callee_of(n)
                        args = call_args(n)
                        if k == 'CXXMemberCallExpr' and name == 'assign' and obj is not None and len(args) == 1:
                            l = self._container_member(obj)
                            if l is not None:
                                self.field_writes.setdefault(l, []).append((f, args[0]))
                            continue
                        if name in ('make_unique', 'make_shared'):
                            cls = self._made_class(n)
                            ctor = self._ctor_for(cls, len(args)) if cls else None
                            if ctor is not None:
                                self.callsites.setdefault(ctor.id, []).append((f, args))
                                if getattr(ctor, 'defn', None):
                                    self.callsites.setdefault(ctor.defn.id, []).append((f, args))
                            continue
                        t = idx.func_by_id.get(did) if did else None
                        if t is not None:
                            for x in {t.id, getattr(t, 'defn', t).id if getattr(t, 'defn', None) else t.id}:
                                self.callsites.setdefault(x, []).append((f, args))
                    elif k in ('CXXConstructExpr', 'CXXTemporaryObjectExpr'):
                        from .callgraph import ctor_of
                        t = ctor_of(idx, n)
                        if t is not None:
                            self.callsites.setdefault(t.id, []).append((f, [a for a in children(n)]))
                    elif k == 'BinaryOperator' and n.get('opcode') == '=':
                        lhs, rhs = children(n)
                        l = self._unwrap(lhs)
                        if l.get('kind') == 'MemberExpr' and l.get('referencedMemberDecl'):
                            self.field_writes.setdefault(l['referencedMemberDecl'], []).append((f, rhs))
                    elif k == 'CXXOperatorCallExpr' and callee_of(n)[1] == 'operator=':
                        a = call_args(n)
                        if len(a) == 2:
                            l = self._container_member(a[0])
                            if l is not None:
                                self.field_writes.setdefault(l, []).append((f, a[1]))

    def _container_member(self, e):
        """Field id if e is `member` or `member[key]` (an element of a member container stands for the member)."""
        e = self._unwrap(e)
        if e.get('kind') == 'CXXOperatorCallExpr' and callee_of(e)[1] == 'operator[]':
            e = self._unwrap(call_args(e)[0])
        if e.get('kind') == 'MemberExpr' and e.get('referencedMemberDecl'):
            return e['referencedMemberDecl']
        return None

    def _unwrap(self, n):
        while True:
            k = n.get('kind')
            ch = children(n)
            if k in WRAP and ch:
                n = ch[-1] if k != 'CXXFunctionalCastExpr' else ch[0]
                continue
            if k in ('CXXConstructExpr', 'CXXTemporaryObjectExpr') and 'basic_string' in (qt(n) + dqt(n)):
                real = [c for c in ch if c.get('kind') != 'CXXDefaultArgExpr']
                if len(real) == 1:
                    n = real[0]        # std::string(x), copy / conversion construction
                    continue
            return n

    # -------------------------------------------------------------------------------------------
    def sinks(self):
        """(function, label-argument expression, description) for every label directive constructed in the namespaces."""
        out = []
        for f in self._funcs():
            if f.body is None or not f.qname.startswith('xcmp::'):
                continue
            for n in walk(f.body):
                if n.get('kind') == 'CallExpr' and callee_of(n)[1] == 'make_unique':
                    cls = self._made_class(n)
                    if cls in LABEL_CLASSES:
                        args = call_args(n)
                        sargs = [a for a in args if 'basic_string' in (qt(a) + dqt(a))]
                        if sargs:
                            out.append((f, sargs[0], '%s constructed in %s at %s' % (cls.split('::')[-1], f.qname, pos(n))))
        return out

    def is_source_getter(self, g):
        if not g.cls:
            return False
        if g.cls in self.source_classes:
            return True
        return any(self.idx.derives_from(g.cls, b) for b in self.source_bases)

    def leaves(self, f, e, trail, depth=0):
        """List of lists of (kind, text): the alternatives for the value of e, each a sequence of concatenated parts."""
        e = self._unwrap(e)
        key = (f.id, e.get('id'))
        if depth > 14 or key in self.seen and depth > 0 and e.get('kind') in ('DeclRefExpr', 'MemberExpr'):
            if key in self.seen and depth <= 14:
                return []           # already explored through another path
            return [[('unknown', 'depth limit at %s' % pos(e))]]
        self.seen.add(key)
        k = e.get('kind')
        if k == 'StringLiteral':
            return [[('literal', cast.string_lit(e))]]
        if k in ('IntegerLiteral',):
            return [[('number', e.get('value', ''))]]
        if k == 'CXXOperatorCallExpr' and callee_of(e)[1] == 'operator+':
            a = call_args(e)
            L = self.leaves(f, a[0], trail, depth + 1)
            R = self.leaves(f, a[1], trail, depth + 1)
            return [x + y for x in (L or [[('unknown', 'left operand')]]) for y in (R or [[('unknown', 'right operand')]])]
        if k in ('CallExpr', 'CXXMemberCallExpr'):
            kind, name, did, obj = callee_of(e)
            if name == 'to_string':
                return [[('number', 'to_string')]]
            if name == 'str' and obj is not None:
                lits = [cast.string_lit(x) for x in walk(obj) if x.get('kind') == 'StringLiteral']
                if lits:
                    return [[('format', lits[0])]]
            g = self.idx.func_by_id.get(did) if did else None
            if g is not None and getattr(g, 'defn', None) and g.body is None:
                g = g.defn
            if g is not None and self.is_source_getter(g):
                return [[('source', g.qname)]]
            if g is not None and g.body is not None:
                out = []
                for r in walk(g.body):
                    if r.get('kind') == 'ReturnStmt' and children(r):
                        out += self.leaves(g, children(r)[0], trail + ['returned by %s' % g.qname], depth + 1)
                return out or [[('unknown', 'no return in %s' % g.qname)]]
            return [[('unknown', 'call of %s at %s' % (name, pos(e)))]]
        if k == 'CXXOperatorCallExpr' and callee_of(e)[1] == 'operator[]' and self._container_member(e) is not None:
            e = self._unwrap(call_args(e)[0])
            k = 'MemberExpr'
        if k in ('CXXConstructExpr', 'CXXTemporaryObjectExpr') and 'basic_string' in (qt(e) + dqt(e)) and \
                not [c for c in children(e) if c.get('kind') != 'CXXDefaultArgExpr']:
            return []            # default-constructed (empty) string: not a label value
        if k == 'MemberExpr' and e.get('referencedMemberDecl'):
            ws = self.field_writes.get(e['referencedMemberDecl'], [])
            out = []
            for wf, we in ws:
                out += self.leaves(wf, we, trail + ['stored in member %s by %s' % (e.get('name'), wf.qname)], depth + 1)
            return out or [[('unknown', 'member %s is never written' % e.get('name'))]]
        if k == 'DeclRefExpr':
            r = e.get('referencedDecl') or {}
            if r.get('kind') == 'ParmVarDecl':
                owner = f if f.body is None or True else f
                # position of the parameter
                plist = f.params
                pi = next((i for i, p in enumerate(plist) if p.get('id') == r.get('id')), None)
                if pi is None and getattr(f, 'defn', None):
                    pi = next((i for i, p in enumerate(f.defn.params) if p.get('id') == r.get('id')), None)
                sites = self.callsites.get(f.id, [])
                out = []
                for cf, args in sites:
                    if pi is not None and pi < len(args):
                        out += self.leaves(cf, args[pi], trail + ['passed by %s' % cf.qname], depth + 1)
                if not sites:
                    return [[('unknown', 'parameter %s of %s has no call site in the repository' % (r.get('name'), f.qname))]]
                return out
            if r.get('kind') == 'VarDecl':
                d = self.idx.by_id.get(r.get('id'))
                out = []
                if d is not None and children(d):
                    out += self.leaves(f, children(d)[-1], trail, depth + 1)
                if f.body is not None:
                    for n in walk(f.body):
                        if n.get('kind') == 'CXXOperatorCallExpr' and callee_of(n)[1] == 'operator=':
                            a = call_args(n)
                            if len(a) == 2 and cast.decl_ref(a[0]) == r.get('id'):
                                out += self.leaves(f, a[1], trail, depth + 1)
                return out or [[('unknown', 'local %s without initialiser' % r.get('name'))]]
        if k == 'ConditionalOperator':
            ch = children(e)
            return self.leaves(f, ch[1], trail, depth + 1) + self.leaves(f, ch[2], trail, depth + 1)
        return [[('unknown', '%s at %s' % (k, pos(e)))]]

    def run(self):
        res = {}
        for f, e, what in self.sinks():
            self.seen = set()
            for parts in self.leaves(f, e, [what]):
                # merge adjacent literals
                merged = []
                for kd, t in parts:
                    if merged and kd == 'literal' and merged[-1][0] == 'literal':
                        merged[-1] = ('literal', merged[-1][1] + t)
                    else:
                        merged.append((kd, t))
                kind = merged[0][0] if len(merged) == 1 else 'concat'
                o = Origin(kind, merged, what, [])
                res.setdefault(o.key(), o)
        return list(res.values())
