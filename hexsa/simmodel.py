"""Symbolic step summaries of hexsim::Processor (shared by C02, C06, C12, C15) and the ISA-side expectation
for the simulator's I/O primitives (stream routing of hexsimio.hpp)."""
from . import cast, spec_isa
from .cxxsym import Interp, Hooks, Path, StrV, Ref, tinfo
from .terms import *
from .frontend import AnalysisBroken
from .cast import children, strip_noncast, callee_of, qt, dqt, pos

MEM = 'MEM'


class SimHooks(Hooks):
    """Primitives are the std stream operations; HexSimIO's own methods are inlined."""

    def __init__(self, mem_fields=('memory',), conn_fields=('io.connected', 'connected')):
        self.mem_fields = mem_fields
        self.conn_fields = conn_fields
        self.roles = None

    def attach(self, idx):
        """Called by the interpreter that uses these hooks: the roles of the I/O members are read from the class before anything runs."""
        self.io_roles(idx)

    def io_roles(self, idx):
        """Roles of the members of hex::HexSimIO, read from the class: the per-index file objects (arrays of / structs with stream
        members) and the per-index connection flags (bool).  With exactly one of each they are the ISA's single handle and single
        "connected" flag per stream index, whatever they are called; otherwise every member keeps its own name (and the comparison
        with the ISA, which has one handle per index, shows the difference)."""
        if self.roles is not None:
            return self.roles
        files, flags = [], []
        rec = idx.records.get('hex::HexSimIO')
        if rec is not None:
            import re as _re
            for fd in rec.fields:
                t = dqt(fd) + ' ' + qt(fd)
                if 'array<' not in t:
                    continue
                el = _re.search(r'array<\s*((?:class |struct )?[\w:<> ,]+?)\s*,\s*\d+', qt(fd))
                eln = el.group(1).replace('class ', '').replace('struct ', '').strip() if el else ''
                if 'stream' in t:
                    files.append(fd['name'])
                elif _re.search(r'array<\s*bool', t):
                    flags.append(fd['name'])
                else:
                    sub = idx.records.get(eln) or idx.records.get(idx._resolve_record_name(eln.split('::')[-1], 'hex::HexSimIO') or '')
                    for sf in (sub.fields if sub is not None else []):
                        st = dqt(sf) + ' ' + qt(sf)
                        if 'stream' in st:
                            files.append(fd['name'] + '.' + sf['name'])
                        elif st.strip().endswith('bool') or qt(sf) == 'bool':
                            flags.append(fd['name'] + '.' + sf['name'])
        self.roles = {'files': files, 'flags': flags}
        if len(flags) == 1:
            self.conn_fields = tuple(self.conn_fields) + (flags[0], 'io.' + flags[0])
        return self.roles

    def file_name(self, name):
        """Canonical name of the file-object array in events (the ISA side calls it <prefix>fileIO)."""
        r = self.roles or {}
        if len(r.get('files', ())) == 1:
            f = r['files'][0]
            if name == f or name.endswith('.' + f):
                return name[:len(name) - len(f)] + 'fileIO'
        return name

    def array_space(self, field):
        if field in self.mem_fields or field.endswith('memory_q'):
            return MEM
        if field in self.conn_fields:
            return 'CONNECTED'
        # any other array-like member is its own store, named after the member
        return 'ARRAY:' + field

    def initial_field(self, name, w):
        return var(name, w)

    def member_call(self, I, node, name, obj, args, p):
        o = strip_noncast(obj) if obj is not None else None
        if o is None:
            return None
        while o['kind'] == 'ImplicitCastExpr' and o.get('castKind') in ('DerivedToBase', 'UncheckedDerivedToBase', 'NoOp'):
            o = strip_noncast(children(o)[0])
        t = dqt(o) + ' ' + qt(o)
        # std::istream::get() on the input stream
        if name == 'get' and 'istream' in t and o['kind'] == 'MemberExpr':
            out = []
            for q, lv in I.lval(o, p):
                q.nin += 1
                q.events.append(('get', lv[1]))
                out.append((q, var('GETC%d' % q.nin, 32)))
            return out
        # get() on a stream object handed out by a member function (`inputStream(n).get()`): decided per returned object
        if name in ('get', 'put') and 'stream' in t and o['kind'] == 'CXXMemberCallExpr':
            out = []
            for q, lv in I.lval(o, p):
                for q3, vals in I.eval_args([a for a in args if name == 'put'], q):
                    if name == 'get':
                        q3.nin += 1
                        g = var('GETC%d' % q3.nin, 32)
                        if lv[0] == 'field':
                            q3.events.append(('get', lv[1]))
                        elif lv[0] == 'mem' and str(lv[1]).startswith('ARRAY:'):
                            q3.events.append(('fget', lv[1][len('ARRAY:'):], lv[2]))
                        else:
                            raise AnalysisBroken('get() on an unmodelled stream object %r at %s' % (lv[:2], pos(node)))
                        if args:
                            # get(char &c): c is assigned the character, and left unchanged at end of input (the int form returns EOF)
                            for q4, clv in I.lval(args[0], q3):
                                old = I.load(q4, clv)
                                I.store(q4, clv, ite(p_eq(g, const(32, 0xFFFFFFFF)), old, I.conv(trunc(g, 8), old.w if isinstance(old, V) else 8, False) if False else trunc(g, 8)))
                                out.append((q4, Ref('stream', lv[1])))
                        else:
                            out.append((q3, g))
                    else:
                        if lv[0] == 'field':
                            q3.events.append(('print', 'field:' + lv[1], vals[0]))
                        elif lv[0] == 'mem' and str(lv[1]).startswith('ARRAY:'):
                            q3.events.append(('fput', lv[1][len('ARRAY:'):], lv[2], vals[0]))
                        else:
                            raise AnalysisBroken('put() on an unmodelled stream object %r at %s' % (lv[:2], pos(node)))
                        out.append((q3, const(1, 0)))
            return out
        # std::cin.get() etc.: a read from a namespace-scope stream object (not through the routing object)
        if name in ('get', 'peek') and 'istream' in t and o['kind'] == 'DeclRefExpr' and (o.get('referencedDecl') or {}).get('kind') == 'VarDecl':
            p.nin += 1 if name == 'get' else 0
            p.events.append((name, 'global:' + str((o.get('referencedDecl') or {}).get('name'))))
            return [(p, var('GETC%d' % p.nin, 32))]
        # <file object of stream index i>.open / put / get / write / read: the object is an element of an array member, or a stream
        # member of an element of an array of structs
        if name in ('open', 'put', 'get', 'write', 'read') and 'stream' in t and o['kind'] in ('CXXOperatorCallExpr', 'MemberExpr') and \
                self._is_file_object(I, o, p):
            out = []
            for q, flv in I.lval(o, p):
                if not (flv[0] == 'mem' and str(flv[1]).startswith('ARRAY:')):
                    raise AnalysisBroken('stream operation %s on an unmodelled object %r at %s' % (name, flv[:2], pos(node)))
                alv = ('field', self.file_name(flv[1][len('ARRAY:'):]))
                for q2, iv in [(q, flv[2])]:
                    for q3, vals in I.eval_args(args, q2):
                        if name == 'open':
                            q3.events.append(('fopen', alv[1], iv, vals[0], vals[1] if len(vals) > 1 else None))
                            out.append((q3, const(1, 0)))
                        elif name == 'put':
                            q3.events.append(('fput', alv[1], iv, vals[0]))
                            out.append((q3, const(1, 0)))
                        elif name == 'get':
                            q3.nin += 1
                            q3.events.append(('fget', alv[1], iv))
                            out.append((q3, var('GETC%d' % q3.nin, 32)))
                        elif name in ('write', 'read') and len(args) == 2 and isinstance(vals[1], V) and vals[1].isconst() and vals[1].c == 1:
                            # unformatted transfer of exactly one character through a pointer to it
                            tgt = strip_noncast(args[0])
                            while tgt['kind'] in ('ImplicitCastExpr', 'CXXReinterpretCastExpr', 'CStyleCastExpr', 'ParenExpr') and children(tgt):
                                tgt = strip_noncast(children(tgt)[0])
                            if not (tgt['kind'] == 'UnaryOperator' and tgt.get('opcode') == '&'):
                                raise AnalysisBroken('fstream %s through an unmodelled pointer at %s' % (name, pos(node)))
                            for q4, clv in I.lval(children(tgt)[0], q3):
                                if name == 'write':
                                    q4.events.append(('fput', alv[1], iv, I.load(q4, clv)))
                                else:
                                    q4.nin += 1
                                    g = var('GETC%d' % q4.nin, 32)
                                    q4.events.append(('fget', alv[1], iv))
                                    # read() stores nothing when no character is available: the target keeps what it held
                                    I.store(q4, clv, ite(p_eq(g, const(32, 0xFFFFFFFF)), I.load(q4, clv), trunc(g, 8)))
                                out.append((q4, const(1, 0)))
                        else:
                            raise AnalysisBroken('unmodelled fstream operation %s at %s' % (name, pos(node)))
            return out
        if name in ('c_str', 'str', 'data') and ('basic_string' in t or 'basic_format' in t):
            return [(q, v) for q, v in I.expr(o, p)]
        if name == 'size' and 'array<' in t:
            import re as _re
            m_ = _re.search(r'array<[^<>]*?,\s*(\d+)\s*>', dqt(o) or t)
            if m_:
                return [(p, const(64, int(m_.group(1))))]
        if name == 'size' and ('vector' in t or 'basic_string' in t):
            out = []
            for q, lv in I.lval(o, p):
                out.append((q, var('size(%s)' % lv[1], 64)))
            return out
        return None

    def _is_file_object(self, I, o, p):
        self.io_roles(I.idx)
        x = o
        while x is not None and x.get('kind') in ('MemberExpr', 'ImplicitCastExpr', 'ParenExpr') and children(x):
            x = strip_noncast(children(x)[0])
        if x is not None and x.get('kind') == 'CXXOperatorCallExpr' and callee_of(x)[1] == 'operator[]':
            return True
        if x is not None and x.get('kind') == 'DeclRefExpr':
            al = p.locals.get((x.get('referencedDecl') or {}).get('id'))
            return al is not None and al.__class__.__name__ == '_Alias' and al.lv[0] == 'mem'
        return False

    def free_call(self, I, node, name, args, p):
        if name in ('to_string',):
            return [(q, StrV('to_string', vals[0])) for q, vals in I.eval_args(args, p)]
        if name in ('instrEnumToStr', 'oprInstrEnumToStr', 'syscallEnumToStr'):
            # defined in hex.cpp (another translation unit of the same executable): interpret that definition
            out = []
            for q, vals in I.eval_args(args, p):
                out.append((q, call_other_tu('hex.cpp@hexsim', 'hex::' + name, vals)))
            return out
        return None


def call_other_tu(tu, qname, vals):
    idx2 = cast.load(tu)
    f = idx2.func(qname)
    I2 = Interp(idx2, None, Hooks())
    p2 = Path({})
    for prm, v in zip(f.params, vals):
        p2.locals[prm['id']] = v
    res = I2.stmt(f.body, p2)
    rets = [(q, rv) for q, fl, rv in res if fl == 'return']
    if len(rets) != 1:
        raise AnalysisBroken('%s does not return a single value for %r' % (qname, vals))
    return rets[0][1]


def processor_fields(tracing=0, truncate=1, O=None):
    return {
        'pc': var('PC', 32), 'areg': var('A', 32), 'breg': var('B', 32), 'oreg': O if O is not None else var('O', 32),
        'running': const(1, 1), 'tracing': const(1, tracing), 'truncateInputs': const(1, truncate),
        'cycles': var('CYC', 64), 'maxCycles': var('MAXCYC', 64), 'lastPC': var('LASTPC', 32), 'instr': var('INSTR', 32),
        'instrEnum': var('INSTRENUM', 32), 'exitCode': var('EXITCODE', 32),
    }


def run_loop_parts(idx):
    """(loop statement, loop condition, list of body statements, statements after the loop) of Processor::run."""
    f = idx.func('hexsim::Processor::run')
    top = children(f.body)
    loops = [s for s in top if s['kind'] in ('WhileStmt', 'ForStmt', 'DoStmt')]
    if len(loops) != 1:
        raise AnalysisBroken('hexsim::Processor::run no longer has exactly one top-level loop')
    loop = loops[0]
    i = top.index(loop)
    if loop['kind'] == 'ForStmt':
        # for (init; cond; inc) body  ==  init; while (cond) { body; inc; }   provided the body has no `continue`
        raw = loop.get('inner', [])
        if len(raw) != 5 or not raw[2] or not raw[4]:
            raise AnalysisBroken('hexsim::Processor::run: for-loop without a condition or body')
        init, _condvar, cond, inc, body = raw
        if _condvar:
            raise AnalysisBroken('hexsim::Processor::run: for-loop with a condition variable')
        if any(x['kind'] == 'ContinueStmt' for x in cast.walk(body)):
            raise AnalysisBroken('hexsim::Processor::run: `continue` inside the for-loop body is not modelled')
        stmts = children(body) if body['kind'] == 'CompoundStmt' else [body]
        return f, loop, cond, stmts + ([inc] if inc else []), top[:i] + ([init] if init else []), top[i + 1:]
    if loop['kind'] != 'WhileStmt':
        raise AnalysisBroken('hexsim::Processor::run: unsupported loop kind %s' % loop['kind'])
    cc = children(loop)
    body = cc[1]
    stmts = children(body) if body['kind'] == 'CompoundStmt' else [body]
    return f, loop, cc[0], stmts, top[:i], top[i + 1:]


def step_paths(idx, byte, tracing=0, truncate=1, O=None, hooks=None):
    """Interpret one iteration of the run loop with the fetched instruction bound to `byte`.
    Returns (fetch term, leaves) where leaves = [(Path, flow)]."""
    f, loop, cond, stmts, pre, post = run_loop_parts(idx)
    I = Interp(idx, 'hexsim::Processor', hooks or SimHooks())
    p = Path(processor_fields(tracing, truncate, O))
    # the fetch = the statements up to and including the first assignment to `instr` (may fork, e.g. a fetch buffer)
    cur = [p]
    early = []
    k = 0
    while k < len(stmts) and any('instr' not in q.written for q in cur):
        nxt = []
        for q in cur:
            for r, fl, rv in I.stmt(stmts[k], q):
                if fl is None and r.status == 'throw':
                    early.append((r, fl, rv))       # a guard in front of the fetch that refuses some states: a leaf of its own
                    continue
                if fl is not None or r.status != 'run':
                    raise AnalysisBroken('control leaves the run loop body before the instruction fetch')
                nxt.append(r)
        cur = nxt
        k += 1
    if any('instr' not in q.written for q in cur) or k > 4:
        raise AnalysisBroken('no assignment to `instr` (the instruction fetch) at the top of the run loop')
    fetch = [(q.pc, q.fields['instr']) for q in cur]
    if byte is not None:
        for q in cur:
            q.fields['instr'] = const(32, byte)
    leaves = I.seq(stmts[k:], cur) + early
    return fetch, leaves, I


# ------------------------------------------------------------------------------------------------
# ISA-side expectation including stream routing (hexb.pdf simout/simin; hexsim names the files simout<n>/simin<n>)
# ------------------------------------------------------------------------------------------------

def slt_const(a, c):
    """The predicate the interpreter builds for a signed `a < c` with symbolic a."""
    return v_to_pred(app('slt', 1, a, const(a.w, c)))


def Msim(a32):
    return mem(MEM, zext(a32, 64))


def expected_leaves(byte, io_prefix='io.', O=None):
    """ISA leaves refined by the stream-routing cases; events are in the vocabulary of SimHooks."""
    PC, A, B = var('PC', 32), var('A', 32), var('B', 32)
    Ov = O if O is not None else var('O', 32)
    getc = var('GETC1', 32)
    base_leaves = spec_isa.step(byte, PC, A, B, Ov, Msim, inval=trunc(getc, 8))
    out = []
    for l in base_leaves:
        if l.undefined or not l.events:
            out.append(l)
            continue
        ev = l.events[0]
        if ev[0] == 'output':
            val8, stream = ev[1], ev[2]
            stdio = slt_const(stream, 256)
            idxv = zext(bitop('and', ashr(stream, 8), const(32, 7)), 64)
            conn = v_to_pred(mem('CONNECTED', idxv))
            name = StrV('concat', StrV('lit', 'simout'), StrV('to_string', idxv))
            out.append(_clone(l, p_and(l.cond, stdio), [('print', 'field:' + io_prefix + 'out', val8)], l.stores, 'WRITE to stdout'))
            out.append(_clone(l, p_and(p_and(l.cond, p_not(stdio)), conn),
                              [('fput', io_prefix + 'fileIO', idxv, val8)], l.stores, 'WRITE to an open simout file'))
            out.append(_clone(l, p_and(p_and(l.cond, p_not(stdio)), p_not(conn)),
                              [('fopen', io_prefix + 'fileIO', idxv, name, 'out'), ('fput', io_prefix + 'fileIO', idxv, val8)],
                              [('CONNECTED', idxv, const(1, 1))] + l.stores, 'WRITE opening simout<n>'))
        elif ev[0] == 'input':
            stream = ev[1]
            stdio = slt_const(stream, 256)
            idxv = zext(bitop('and', ashr(stream, 8), const(32, 7)), 64)
            conn = v_to_pred(mem('CONNECTED', idxv))
            name = StrV('concat', StrV('lit', 'simin'), StrV('to_string', idxv))
            out.append(_clone(l, p_and(l.cond, stdio), [('get', io_prefix + 'in')], l.stores, 'READ from stdin'))
            out.append(_clone(l, p_and(p_and(l.cond, p_not(stdio)), conn), [('fget', io_prefix + 'fileIO', idxv)], l.stores,
                              'READ from an open simin file'))
            out.append(_clone(l, p_and(p_and(l.cond, p_not(stdio)), p_not(conn)),
                              [('fopen', io_prefix + 'fileIO', idxv, name, 'in'), ('fget', io_prefix + 'fileIO', idxv)],
                              [('CONNECTED', idxv, const(1, 1))] + l.stores, 'READ opening simin<n>'))
        else:
            out.append(l)
    return out


def _clone(l, cond, events, stores, what):
    n = spec_isa.Leaf(cond, pc=l.pc, areg=l.areg, breg=l.breg, oreg=l.oreg, stores=stores, events=events,
                      running=l.running, exit=l.exit, what=l.what + ': ' + what)
    return n


def norm_event(e):
    """Bring an interpreter event into the vocabulary used by expected_leaves."""
    if e[0] == 'print':
        return ('print', e[1], e[2])
    if e[0] == 'fopen':
        mode = e[4]
        m = None
        if isinstance(mode, V) and mode.isconst():
            # std::ios::binary (4) has no effect on the POSIX hosts this code base builds for: not part of the observable mode
            m = {16: 'out', 8: 'in'}.get(mode.c & ~4, 'mode%d' % mode.c)
        elif isinstance(mode, Ref) and mode.what in ('global', 'param'):
            m = mode.data
        return ('fopen', e[1], e[2], e[3], m)
    return e
