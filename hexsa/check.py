"""Entry point:  python3 -m hexsa.check <Cxx> [--tier quick|thorough]   |   --replay <path>

exit 0: every rule instance of the property was decided and held (known findings are printed)
exit 1: at least one instance is violated and not listed in known_findings.json (VIOLATION lines)
exit 2: the analysis could not be carried out (anchor vanished, unsupported construct, floor not met)
"""
import argparse, importlib, json, os, sys, traceback
from . import report
from .frontend import AnalysisBroken

sys.setrecursionlimit(20000)


def run_property(prop, tier, seed, only=None):
    mod = importlib.import_module('hexsa.rules.' + prop.lower())
    rep = report.Report(prop, tier, seed)
    try:
        mod.run(rep, tier)
    except AnalysisBroken as e:
        rep.broken.append(str(e))
    except Exception as e:  # an unsupported construct is analysis-broken, never a pass
        rep.broken.append('internal error: %r\n%s' % (e, traceback.format_exc()[-1500:]))
    if only is not None:
        return rep
    return rep.finish()


def main(argv=None):
    ap = argparse.ArgumentParser()
    ap.add_argument('prop', nargs='?')
    ap.add_argument('--tier', default=os.environ.get('VERIF_TIER', 'quick'))
    ap.add_argument('--replay')
    a = ap.parse_args(argv)
    seed = int(os.environ.get('VERIF_SEED', '0') or 0)
    tier = a.tier if a.tier in ('quick', 'thorough') else 'quick'
    if a.replay:
        with open(a.replay) as fh:
            r = json.load(fh)
        rep = run_property(r['property'], tier, seed, only=(r['rule'], r['instance']))
        hit = [i for i in rep.instances if i.rule == r['rule'] and i.key == r['instance']]
        if not hit:
            print('replay: instance %s [%s] no longer exists on the current tree' % (r['rule'], r['instance']))
            return 2
        bad = [i for i in hit if not i.ok]
        for i in hit:
            print('replay %s %s [%s] at %s: %s -- %s' % (r['property'], i.rule, i.key, i.where,
                                                        'VIOLATED' if not i.ok else 'holds', i.detail))
        if bad:
            print('VIOLATION property=%s replay=%s' % (r['property'], a.replay))
            return 1
        return 0
    if not a.prop:
        ap.error('property id required')
    return run_property(a.prop.upper(), tier, seed)


if __name__ == '__main__':
    sys.exit(main())
