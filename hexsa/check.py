"""Entry point:  python3 -m hexsa.check <Cxx> [--tier quick|thorough]   |   --replay <path>

exit 0: every rule instance of the property was decided and held (known findings are printed)
exit 1: at least one instance is violated and not listed in known_findings.json (VIOLATION lines)
exit 2: the analysis could not be carried out (anchor vanished, unsupported construct, floor not met)
"""
import argparse, importlib, json, os, sys, traceback
from . import report
from .frontend import AnalysisBroken

sys.setrecursionlimit(20000)


class _TimeBudget(Exception):
    pass


def _alarm(signum, frame):
    raise _TimeBudget()


def run_property(prop, tier, seed, only=None):
    import signal
    mod = importlib.import_module('hexsa.rules.' + prop.lower())
    rep = report.Report(prop, tier, seed)
    budget = int(os.environ.get('HEXSA_TIME_BUDGET', '0') or 0) or (3600 if tier == 'thorough' else 1200)
    signal.signal(signal.SIGALRM, _alarm)
    signal.alarm(budget)
    try:
        from . import anchors
        anchors.verify(prop)
        mod.run(rep, tier)
    except _TimeBudget:
        # an analysis that does not converge on a changed tree is undecided, never a hang (quick runs take < 30 s on the repaired tree)
        rep.broken.append('time budget of %d s exceeded: the analysis does not converge on this tree' % budget)
    except AnalysisBroken as e:
        rep.broken.append(str(e))
    except Exception as e:  # an unsupported construct is analysis-broken, never a pass
        rep.broken.append('internal error: %r\n%s' % (e, traceback.format_exc()[-1500:]))
    signal.alarm(0)
    if only is not None:
        return rep
    if tier == 'thorough' and not os.environ.get('HEXSA_NO_SENSITIVITY') and not rep.broken:
        try:
            sensitivity(prop, rep)
        except Exception as e:       # sensitivity results are evidence only; they never change the verdict
            rep.note('sensitivity bank could not be run: %r' % (e,))
    return rep.finish()


def sensitivity(prop, rep):
    """Thorough tier: apply every kept seeded change of this property to a scratch copy of the current tree (outside /repo and /verif,
    removed afterwards) and run this same check on it.  Recorded in the evidence; never turns a clean tree into a failure."""
    import glob, shutil, subprocess, tempfile, re
    from .frontend import REPO, VERIF
    seeds = sorted(glob.glob(os.path.join(VERIF, 'seeded', prop + '-*', 'patch.diff')))
    results = []
    for sp in seeds:
        name = os.path.basename(os.path.dirname(sp))
        scratch = tempfile.mkdtemp(prefix='hexsa-sens-')
        try:
            subprocess.run('git -C %s ls-files -z | (cd %s && xargs -0 cp --parents -t %s)' % (REPO, REPO, scratch), shell=True, check=True,
                           stdout=subprocess.DEVNULL, stderr=subprocess.DEVNULL)
            r = subprocess.run(['patch', '-p1', '-s', '-i', sp], cwd=scratch, capture_output=True, text=True)
            if r.returncode != 0:
                results.append({'seed': name, 'result': 'patch does not apply to the current tree'})
                continue
            ev = os.path.join(scratch, '.ev')
            env = dict(os.environ, HEXSA_REPO=scratch, HEXSA_EVIDENCE_DIR=ev, HEXSA_NO_SENSITIVITY='1', VERIF_TIER='quick')
            r = subprocess.run([sys.executable, '-m', 'hexsa.check', prop, '--tier', 'quick'], cwd=VERIF, env=env, capture_output=True, text=True)
            m = re.search(r'(\d+) violations', r.stdout)
            first = next((l.strip() for l in r.stdout.splitlines() if l.startswith('  ' + prop)), '')
            results.append({'seed': name, 'exit': r.returncode, 'violations': int(m.group(1)) if m else None,
                            'result': {0: 'MISSED', 1: 'detected', 2: 'analysis broken'}.get(r.returncode, '?'), 'first_report': first[:240]})
        finally:
            shutil.rmtree(scratch, ignore_errors=True)
    app = [x for x in results if 'exit' in x]
    rep.extra['sensitivity'] = {'what': 'independently seeded property-breaking changes (seeded/*/patch.diff) applied to a scratch copy of the current tree',
                                'mutants_applicable': len(app), 'mutants_detected': sum(1 for x in app if x['exit'] == 1), 'results': results}
    for x in app:
        if x['exit'] != 1:
            rep.note('sensitivity: seeded change %s is not detected on the current tree (%s)' % (x['seed'], x['result']))


def main(argv=None):
    ap = argparse.ArgumentParser()
    ap.add_argument('prop', nargs='?')
    ap.add_argument('--tier', default=os.environ.get('VERIF_TIER', 'quick'))
    ap.add_argument('--replay')
    a = ap.parse_args(argv)
    seed = int(os.environ.get('VERIF_SEED', '0') or 0)
    tier = a.tier if a.tier in ('quick', 'thorough') else 'quick'
    if a.replay:
        with open(a.replay) as fh:
            r = json.load(fh)
        rep = run_property(r['property'], tier, seed, only=(r['rule'], r['instance']))
        hit = [i for i in rep.instances if i.rule == r['rule'] and i.key == r['instance']]
        if not hit:
            print('replay: instance %s [%s] no longer exists on the current tree' % (r['rule'], r['instance']))
            return 2
        bad = [i for i in hit if not i.ok]
        for i in hit:
            print('replay %s %s [%s] at %s: %s -- %s' % (r['property'], i.rule, i.key, i.where,
                                                        'VIOLATED' if not i.ok else 'holds', i.detail))
        if bad:
            print('VIOLATION property=%s replay=%s' % (r['property'], a.replay))
            return 1
        return 0
    if not a.prop:
        ap.error('property id required')
    return run_property(a.prop.upper(), tier, seed)


if __name__ == '__main__':
    sys.exit(main())
