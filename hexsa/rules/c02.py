"""C02 -- hexsim executes every instruction exactly as the Hex ISA defines (engine S)."""
from .. import cast, spec_isa, simmodel
from ..simmodel import MEM
from ..cxxsym import Interp, Path, StrV, Ref
from ..terms import *
from ..frontend import AnalysisBroken
from ..cast import children, pos, walk, callee_of


def leaf_record(p, flow):
    d = {'pc': p.fields['pc'], 'areg': p.fields['areg'], 'breg': p.fields['breg'], 'oreg': p.fields['oreg'],
         'stores': [(s, a, v) for (s, a, v) in p.stores],
         'events': [simmodel.norm_event(e) for e in p.events],
         'running': p.fields['running']}
    if p.fields['running'] == const(1, 0):
        d['exit'] = p.fields['exitCode']
    return d


def expected_record(l):
    stores = []
    for s in l.stores:
        if len(s) == 2:
            stores.append((MEM, zext(s[0], 64), s[1]))
        else:
            stores.append(s)
    d = {'pc': l.pc, 'areg': l.areg, 'breg': l.breg, 'oreg': l.oreg, 'stores': stores, 'events': list(l.events),
         'running': const(1, 1 if l.running else 0)}
    if not l.running:
        d['exit'] = l.exit
    return d


def compare_step(rep, rule, idx, b, tracing=0, keyprefix='', fields=None, where_extra=''):
    """Compare the simulator's step summary for byte b with the ISA leaves; adds instances to rep."""
    opc, opr = b >> 4, b & 15
    fetch, leaves, I = simmodel.step_paths(idx, b, tracing=tracing)
    exp = simmodel.expected_leaves(b)
    got = []
    for p, flow, rv in leaves:
        if p.status == 'throw':
            got.append((p.pc, None, p))
            continue
        if flow not in (None,):
            raise AnalysisBroken('run loop body leaves by %r for byte 0x%02X' % (flow, b))
        got.append((p.pc, leaf_record(p, flow), p))
    where = 'hexsim.hpp hexsim::Processor::run (%s %d)' % (spec_isa.MNEMONIC_OF.get(opc, 'opcode 0x%X' % opc), opr)
    n = 0
    for l in exp:
        if l.undefined or l.cond == F:
            continue
        key = '%sbyte=0x%02X:%s' % (keyprefix, b, l.what)
        match = [g for g in got if g[0] == l.cond]
        if not match:
            # look for paths whose condition is implied/overlapping: report the nearest by evaluation
            rep.add(rule, key + ':path', False, where,
                    'no simulator path with condition %r; simulator paths: %s' % (l.cond, [repr(g[0]) for g in got]))
            continue
        if len(match) > 1:
            rep.undecided(rule, key, 'several simulator paths with the same condition', where)
            continue
        cond, rec, p = match[0]
        if rec is None:
            rep.add(rule, key + ':path', False, where, 'simulator throws (%s) where the ISA defines the instruction' % p.thrown)
            continue
        e = expected_record(l)
        for f in sorted(e):
            if fields and f not in fields:
                continue
            a, c = e[f], rec.get(f)
            n += 1
            if repr(a) == repr(c):
                rep.add(rule, key + ':' + f, True, where, nontrivial=not (isinstance(a, V) and a.isconst()))
                continue
            detail = 'ISA %r | hexsim %r' % (a, c)
            if isinstance(a, V) and isinstance(c, V):
                cx = distinguish(a, c, seed=rep.seed)
                if cx is None:
                    rep.undecided(rule, key + ':' + f, 'forms differ, no distinguishing state: ' + detail, where)
                    continue
                detail = 'in state %s the ISA gives %s=0x%x, hexsim gives 0x%x  [%s]' % (
                    {k: hex(v) for k, v in cx[0].items()}, f, cx[1], cx[2], detail)
            rep.add(rule, key + ':' + f, False, where, detail, data={'byte': b, 'field': f, 'isa': repr(a), 'sim': repr(c)})
    # simulator paths that the ISA does not know for a defined condition (extra behaviour)
    expconds = {repr(l.cond) for l in exp}
    for cond, rec, p in got:
        if repr(cond) not in expconds:
            rep.add(rule, '%sbyte=0x%02X:extra-path:%r' % (keyprefix, b, cond), False, where,
                    'simulator has a path (condition %r) that matches no ISA case' % (cond,))
    # paths on undefined conditions must not be compared; throwing there is fine
    return fetch, I


def run(rep, tier):
    idx = cast.load('hexsim.cpp')
    rep.analysed(unit='hexsim.cpp')
    rep.rule('R1', 'one iteration of the loop in hexsim::Processor::run (syscall and HexSimIO inlined down to the std stream '
             'primitives) has, for every defined instruction byte, exactly the ISA\'s cases, and in each case the same pc/areg/'
             'breg/oreg, memory stores, I/O primitive sequence, running flag and exit value as canonical terms over symbolic '
             'registers and memory', floor=1600, floor_reason='240 defined bytes x >=7 fields, more for BRZ/BRN/OPR/SVC cases')
    rep.rule('R1f', 'the fetch expression is byte (pc & 3) of little-endian word memory[pc >> 2]', floor=1)
    rep.rule('R2', 'initial state and configuration: constructor zeroes pc/areg/breg/oreg and sets running; truncateInputs '
             'defaults to true and the executables never change it; load() copies (length word << 2) bytes to byte offset 0 of memory',
             floor=6)
    rep.rule('R4', 'hex::Instr / hex::OprInstr / hex::Syscall enumerators equal the ISA encodings and each has a case in '
             'Processor::run resp. syscall and in the *EnumToStr switches', floor=22)
    rep.exhaustive = True
    rep.trusted = ['clang 14 AST', 'ISA transcription hexsa/spec_isa.py (docs/PDFs/hexb.pdf pp. 7-10) incl. simout/simin routing',
                   'term algebra: pass only on identical canonical forms']
    rep.assumptions = ['effective addresses inside the simulated memory (property quantifier); std::array::operator[] has no bounds check',
                       'std stream primitives (get/put/open/operator<<) are modelled as events; host file behaviour is not decided',
                       'hexsim names stream files simout<n>/simin<n> (documented deviation from the ISA text, which uses sim<n>)']
    f, loop, cond, stmts, pre, post = simmodel.run_loop_parts(idx)
    rep.analysed(f.sig)
    fetch = None
    for b in range(256):
        if (b >> 4) == 12:
            continue
        fetch, I = compare_step(rep, 'R1', idx, b)
    for q in sorted(I.inlined):
        rep.analysed(q)
    exp_fetch = zext(spec_isa.fetch_byte(simmodel.Msim(shr(var('PC', 32), 2)), var('PC', 32)), 32)
    where = pos(stmts[0]) + ' hexsim::Processor::run'
    for cond_, ft in fetch:
        key = 'fetch' if cond_ == T else 'fetch[%r]' % (cond_,)
        if ft == exp_fetch:
            rep.add('R1f', key, True, where, repr(ft))
            continue
        cx = distinguish(exp_fetch, ft, seed=rep.seed) if isinstance(ft, V) else None
        if cx is None:
            rep.undecided('R1f', key, 'forms differ: ISA %r | hexsim %r' % (exp_fetch, ft))
        else:
            rep.add('R1f', key, False, where,
                    'on the path %r, state %s: the ISA fetches 0x%x from memory, hexsim uses 0x%x [ISA %r | hexsim %r]' % (
                        cond_, {k: hex(v) for k, v in cx[0].items()}, cx[1], cx[2], exp_fetch, ft))
    rule_r2(rep, idx)
    rule_r4(rep, idx)
    rule_streams_flushed(rep, {"hexsim.cpp": idx, "xrun.cpp": cast.load("xrun.cpp")})


# --------------------------------------------------------------------------------------------------

def ctor_inits(idx, cls):
    """{field: initialiser node} for the user-provided constructors of a class (list of dicts)."""
    rec = idx.record(cls)
    out = []
    for c in rec.ctors:
        if c.node.get('isImplicit') or c.body is None:
            continue
        d = {}
        for ini in c.inits:
            any_ = ini.get('anyInit') or {}
            if any_.get('kind') == 'FieldDecl':
                d[any_.get('name')] = ini
        out.append((c, d))
    return out


def _owns_stream(idx, qn, seen=None):
    """Does an object of class qn contain (transitively, by value) a std file stream?"""
    import re
    seen = seen if seen is not None else set()
    if qn in seen or qn not in idx.records:
        return False
    seen.add(qn)
    for c in [qn] + idx.bases_of(qn):
        rec = idx.records.get(c)
        for fd in (rec.fields if rec else []):
            from ..cast import qt as _qt, dqt as _dqt
            t = _dqt(fd) + ' ' + _qt(fd)
            if '&' in _qt(fd) or '*' in _qt(fd):
                continue
            if re.search(r'\b(basic_)?o?fstream\b|basic_ofstream|basic_fstream', t):
                return True
            for tn in re.findall(r'[A-Za-z_][\w:]*', t):
                q = tn if tn in idx.records else idx._resolve_record_name(tn.split('::')[-1], c)
                if q and q != c and _owns_stream(idx, q, seen):
                    return True
    return False


def rule_streams_flushed(rep, idxs):
    rep.rule('R5', 'what the program writes to simout<n> reaches the file: the simulator object, which owns the lazily opened file streams, is '
             'destroyed before the process ends -- a Processor created with new and never deleted (or leaked through release()) leaves the '
             'last buffer of every simout file unwritten, while stdout and the exit status look right', floor=2)
    from ..cast import qt as _qt, dqt as _dqt
    import re
    for tu, ix in idxs.items():
        m = [f for f in ix.all_funcs() if f.name == 'main' and f.body is not None and not f.cls]
        if len(m) != 1:
            continue
        m = m[0]
        n = 0
        for d in walk(m.body):
            if d.get('kind') == 'VarDecl' and re.search(r'(unique_ptr|shared_ptr)<', _qt(d) + ' ' + _dqt(d)):
                mm = re.search(r'(?:unique_ptr|shared_ptr)<\s*((?:class |struct )?[\w:]+)', _dqt(d) + ' ' + _qt(d))
                tn = mm.group(1).replace('class ', '').replace('struct ', '') if mm else ''
                tq = tn if tn in ix.records else (ix._resolve_record_name(tn.split('::')[-1], 'hexsim::Processor') or tn)
                if tq in ix.records and _owns_stream(ix, tq):
                    n += 1
                    rep.add('R5', '%s:main:%s' % (tu, d.get('name')), True, pos(d) + ' main(%s)' % tu,
                            'a %s owned by a smart pointer: destroyed when main returns' % tq, nontrivial=False)
                    continue
            if d.get('kind') == 'VarDecl':
                t = re.sub(r'^(const )?(class |struct )?', '', _qt(d)).strip()
                if t in ix.records and _owns_stream(ix, t):
                    n += 1
                    rep.add('R5', '%s:main:%s' % (tu, d.get('name')), True, pos(d) + ' main(%s)' % tu,
                            'automatic object of %s: destroyed (files flushed and closed) when main returns' % t, nontrivial=False)
            if d.get('kind') == 'CXXNewExpr':
                t = re.sub(r'^(const )?(class |struct )?', '', _qt(d)).replace('*', '').strip()
                if t in ix.records and _owns_stream(ix, t):
                    n += 1
                    deleted = any(x.get('kind') == 'CXXDeleteExpr' for x in walk(m.body))
                    # owned by a smart pointer?
                    owned = False
                    for v in walk(m.body):
                        if v.get('kind') in ('VarDecl', 'CXXConstructExpr') and ('unique_ptr' in (_qt(v) + _dqt(v)) or 'shared_ptr' in (_qt(v) + _dqt(v))) \
                                and any(x is d for x in walk(v)):
                            owned = True
                    rep.add('R5', '%s:main:new %s@%s' % (tu, t.split('::')[-1], pos(d).split(':')[-1]), deleted or owned, pos(d) + ' main(%s)' % tu,
                            'released by delete / owned by a smart pointer' if deleted or owned else
                            'a %s is created with new and never destroyed: its std::fstream members are not flushed at exit, so bytes the '
                            'program wrote to simout<n> are missing from the files' % t)
        if n == 0:
            rep.undecided('R5', '%s:main' % tu, 'no object that owns the simulator I/O streams found in main', pos(m.node) + ' main(%s)' % tu)


def rule_r2(rep, idx):
    cls = 'hexsim::Processor'
    ctors = ctor_inits(idx, cls)
    if not ctors:
        raise AnalysisBroken('no user-provided constructor of hexsim::Processor')
    for c, inits in ctors:
        for fld, want in (('pc', 0), ('areg', 0), ('breg', 0), ('oreg', 0), ('running', 1), ('truncateInputs', 1)):
            ini = inits.get(fld)
            v = cast.const_int(children(ini)[0], idx) if ini is not None and children(ini) else None
            rep.add('R2', 'ctor:%s=%d' % (fld, want), v == want, pos(c.node) + ' ' + c.qname,
                    'initialised to %r' % v if ini is not None else 'not in the member initialiser list', nontrivial=False)
    # executables never change truncateInputs
    for tu in ('hexsim.cpp', 'xrun.cpp'):
        ix = cast.load(tu)
        m = ix.func('main')
        calls = [c for c in cast.calls_in(m.body) if callee_of(c)[1] == 'setTruncateInputs']
        rep.add('R2', '%s:no-setTruncateInputs' % tu, not calls, pos(m.node) + ' main(%s)' % tu,
                'main calls setTruncateInputs at %s' % pos(calls[0]) if calls else 'truncateInputs stays at its default (true)',
                nontrivial=False)
    # loader: memory.data() is the destination of a read of (header << 2) bytes
    f = idx.func('hexsim::Processor::load')
    rep.analysed(f.sig)
    reads = []
    for c in cast.calls_in(f.body):
        kind, name, did, obj = callee_of(c)
        if name == 'read':
            reads.append(c)
    ok_dest = False
    size_var = None
    for c in reads:
        args = cast.call_args(c)
        if any(callee_of(x)[1] == 'data' and any(y.get('name') == 'memory' for y in walk(x)) for x in cast.calls_in(args[0])):
            ok_dest = True
            size_var = cast.decl_ref(args[1])
            where = pos(c)
    detail = 'no istream::read into memory.data()'
    ok = False
    if not ok_dest:
        # another loader shape: the image reaches memory through memcpy from a staging buffer
        mcs = [c for c in cast.calls_in(f.body) if callee_of(c)[1] == 'memcpy' and
               any(callee_of(x)[1] == 'data' and any(y.get('name') == 'memory' for y in walk(x)) for x in cast.calls_in(cast.call_args(c)[0]))]
        hdr_vars = set()
        for c in reads:
            a_ = cast.call_args(c)
            if len(a_) > 1 and cast.const_int(a_[1], idx) == 4:
                for y in walk(a_[0]):
                    if y['kind'] == 'DeclRefExpr' and (y.get('referencedDecl') or {}).get('kind') == 'VarDecl':
                        hdr_vars.add(y['referencedDecl']['id'])
        if len(mcs) == 1 and hdr_vars:
            inits = {d['id']: children(d)[-1] for d in walk(f.body) if d['kind'] == 'VarDecl' and children(d)}
            todo, seen, uses_hdr, sizes_of = [cast.call_args(mcs[0])[2]], set(), False, []
            while todo:
                e = todo.pop()
                for x in walk(e):
                    if x['kind'] == 'DeclRefExpr':
                        r = x.get('referencedDecl') or {}
                        if r.get('id') in hdr_vars:
                            uses_hdr = True
                        elif r.get('kind') == 'VarDecl' and r.get('id') in inits and r['id'] not in seen:
                            seen.add(r['id'])
                            todo.append(inits[r['id']])
                    if x['kind'] == 'CXXMemberCallExpr' and callee_of(x)[1] == 'size':
                        sizes_of.append(pos(x))
            if not uses_hdr:
                rep.add('R2', 'load:image-at-0-length-word<<2', False, pos(mcs[0]) + ' ' + f.qname,
                        'the number of bytes copied into memory does not depend on the length word of the header (it is the size of what was '
                        'read from the file): the symbol tables behind the image land in simulated memory, which must read as zero there')
                return
            lenvar = cast.decl_ref(cast.call_args(mcs[0])[2])
            if lenvar in hdr_vars and not any(y['kind'] == 'BinaryOperator' for y in walk(cast.call_args(mcs[0])[0])):
                # staging buffer copied to memory.data() with exactly the header-derived byte count: judged like the direct read
                ok_dest, size_var, where = True, lenvar, pos(mcs[0])
        if not ok_dest:
            rep.undecided('R2', 'load:image-at-0-length-word<<2', 'the loader does not read the image straight into memory.data(): idiom not recognised', pos(f.node))
            return
    if ok_dest and size_var:
        # size variable: read as 4 bytes from the file, then `<<= 2`, no other modification before the image read
        mods = []
        for n in walk(f.body):
            if n['kind'] == 'CompoundAssignOperator' and cast.decl_ref(children(n)[0]) == size_var:
                mods.append((n['opcode'], cast.const_int(children(n)[1], idx)))
            if n['kind'] == 'BinaryOperator' and n.get('opcode') == '=' and cast.decl_ref(children(n)[0]) == size_var:
                mods.append(('=', None))
        hdr = any(callee_of(c)[1] == 'read' and cast.const_int(cast.call_args(c)[1], idx) == 4 and
                  any(y['kind'] == 'DeclRefExpr' and y.get('referencedDecl', {}).get('id') == size_var for y in walk(cast.call_args(c)[0]))
                  for c in reads)
        scaled = mods in ([('<<=', 2)], [('*=', 4)])
        ok = hdr and scaled
        detail = 'header read as 4 bytes: %s; size modifications: %s' % (hdr, mods)
        if hdr and not scaled and not any(m_[0] in ('<<=', '*=', '>>=', '/=') for m_ in mods):
            # the scaling may be written in a form this rule does not recognise: not a verdict
            rep.undecided('R2', 'load:image-at-0-length-word<<2', 'size computation idiom not recognised: %s' % mods, pos(f.node))
            return
    rep.add('R2', 'load:image-at-0-length-word<<2', ok, pos(f.node) + ' ' + f.qname, detail)
    # no image that fits into the simulated memory is turned away: a size guard must compare like with like (bytes vs words)
    memw = None
    for fld in idx.record('hexsim::Processor').fields:
        if fld.get('name') == 'memory':
            import re as _re
            m_ = _re.search(r'(\d+)', cast.dqt(fld) or qt(fld))
            if m_:
                memw = int(m_.group(1))
    if ok_dest and size_var and memw:
        order = {id(n): k for k, n in enumerate(walk(f.body))}
        scale_at = min([order[id(n)] for n in walk(f.body) if n['kind'] == 'CompoundAssignOperator' and cast.decl_ref(children(n)[0]) == size_var] or [1 << 30])
        for st in walk(f.body):
            if st['kind'] != 'IfStmt':
                continue
            ch = children(st)
            if not any(x['kind'] == 'CXXThrowExpr' for x in walk(ch[1])):
                continue
            cnd = cast.strip(ch[0])
            if cnd['kind'] != 'BinaryOperator' or cnd.get('opcode') not in ('>', '>='):
                continue
            a, b = children(cnd)
            if cast.decl_ref(a) != size_var:
                continue
            bound = cast.const_int(b, idx)
            if bound is None:
                continue
            in_bytes = order[id(st)] > scale_at
            need = memw * 4 if in_bytes else memw
            too_small = bound + (1 if cnd['opcode'] == '>' else 0) <= need - (0 if in_bytes else 0) and bound < need
            rep.add('R2', 'load:size-guard@%s' % pos(st).split(':')[-1], not too_small, pos(st) + ' ' + f.qname,
                    ('the loader rejects an image of more than %d %s, but the memory holds %d words = %d bytes: every image between the two sizes '
                     'is turned away although it fits' % (bound, 'bytes' if in_bytes else 'words', memw, memw * 4)) if too_small else
                    'size guard %s %d %s covers the memory' % (cnd['opcode'], bound, 'bytes' if in_bytes else 'words'))


def switch_cases(idx, func, selector_hint=None):
    """All integer case labels of the switch statements in a function: list of sets."""
    out = []
    for n in walk(func.body):
        if n['kind'] == 'SwitchStmt':
            vals = set()
            for c in walk(n):
                if c['kind'] == 'CaseStmt':
                    v = cast.const_int(children(c)[0], idx)
                    if v is not None:
                        vals.add(v)
            out.append(vals)
    return out


def rule_r4(rep, idx):
    tables = (('hex::Instr', spec_isa.OPCODES), ('hex::OprInstr', spec_isa.OPR), ('hex::Syscall', spec_isa.SYSCALL))
    run_ = idx.func('hexsim::Processor::run')
    sysc = idx.func('hexsim::Processor::syscall')
    tostr = {'hex::Instr': 'hex::instrEnumToStr', 'hex::OprInstr': 'hex::oprInstrEnumToStr', 'hex::Syscall': 'hex::syscallEnumToStr'}
    for en, table in tables:
        vals = idx.enum(en)
        for name, code in sorted(table.items(), key=lambda kv: kv[1]):
            rep.add('R4', '%s::%s=%d' % (en, name, code), vals.get(name) == code, 'hex.hpp ' + en,
                    'enumerator value is %r' % vals.get(name), nontrivial=False)
        extra = {k: v for k, v in vals.items() if k not in table and k != 'NUM_VALUES'}
        if extra:
            rep.add('R4', '%s:extra-enumerators' % en, False, 'hex.hpp ' + en, 'enumerators not in the ISA: %r' % extra)
        # exhaustiveness of the switches
        want = set(table.values())
        host = sysc if en == 'hex::Syscall' else run_
        sw = switch_cases(idx, host)
        ok = any(want <= s for s in sw)
        rep.add('R4', '%s:cases-in-%s' % (en, host.name), ok, pos(host.node) + ' ' + host.qname,
                'switch case sets: %s, needed %s' % ([sorted(s) for s in sw], sorted(want)))
        tf = idx.func(tostr[en], required=False)
        if tf is not None and tf.body is not None:
            sw = switch_cases(idx, tf)
            ok = any(want <= s for s in sw)
            rep.add('R4', '%s:cases-in-%s' % (en, tf.name), ok, pos(tf.node) + ' ' + tf.qname,
                    'switch case sets: %s' % [sorted(s) for s in sw], nontrivial=False)
