"""C15 -- trace and debug symbols report what is actually executing (engines S + I + Q)."""
import re
from .. import cast, simmodel, spec_isa, ivinterp
from ..cxxsym import Interp, Path, StrV, Ref
from ..terms import *
from ..ivinterp import Obj, Vec, IV
from ..frontend import AnalysisBroken
from ..cast import children, pos, walk, callee_of, qt, dqt
from . import c05


class TraceHooks(simmodel.SimHooks):
    """Symbol lookup is opaque (its own rule R4 decides it); everything else of trace() is interpreted."""

    def member_call(self, I, node, name, obj, args, p):
        o = cast.strip_noncast(obj) if obj is not None else None
        if o is not None and o['kind'] == 'CXXThisExpr' and name == 'lookupSymbol':
            return [(p, Ref('symbol', 'lookupSymbol(lastPC)'))]
        if o is not None and o['kind'] == 'CXXThisExpr' and name == 'traceSyscall':
            return [(p, const(1, 0))]
        if name == 'operator[]' and o is not None and o['kind'] == 'MemberExpr' and o.get('name') == 'debugInfoMap':
            out = []
            for q, key in I.expr(args[0], p):
                out.append((q, var('SYMOFF', 32)))
                q.events.append(('symmap-lookup', repr(key)))
            return out
        if o is not None and o['kind'] == 'CXXThisExpr' and name not in ('trace', 'syscall', 'run') and len(args) == 1:
            f = I.idx.func_by_id.get(cast.callee_of(node)[2])
            if f is not None and f.type.rstrip().endswith('const') and 'char' in qt(f.params[0]) if f is not None and f.params else False:
                # a const helper that maps the looked-up name to its table offset: opaque here, decided by rule R5
                out = []
                for q, key in I.expr(args[0], p):
                    out.append((q, var('SYMOFF', 32)))
                    q.events.append(('symmap-lookup', repr(key)))
                return out
        if name == 'str' and o is not None and 'basic_format' in (dqt(o) + qt(o)):
            return I.expr(o, p)
        return simmodel.SimHooks.member_call(self, I, node, name, obj, args, p)


def flatten_format(v):
    """('format', fmt, arg1, ...) -> (fmt, [args])."""
    if isinstance(v, StrV) and v.kind == 'format':
        return v.args[0], list(v.args[1:])
    return None, []


def run(rep, tier):
    idx = cast.load('hexsim.cpp')
    rep.analysed(unit='hexsim.cpp')
    rep.trusted = ['clang 14 AST', 'boost::format prints its arguments in order', 'ISA opcode table']
    rep.assumptions = ['symbol tables are written by hexasm (ascending offsets, one entry per FUNC/PROC directive: rule R3)']
    def rule_calls_not_elided(rep):
        from .. import report as _report
        from . import c01
        rep.rule('R6', '"the sequence of procedure entries in a trace equals the call sequence of the source": every call statement generates a '
                 'transfer of control to its callee, whatever the callee\'s body is (import of C01-R15, call-statement instances)', floor=2)
        c01.rule_variable_slots(_report.Import(rep, 'R6', 'C01', key_filter=lambda r, k: k.startswith('call statement')), cast.load('xcmp.cpp'))
    def rule_calls_not_folded(rep):
        """Expression side of "the sequence of procedure entries in a trace equals the call sequence of the source": constant folding and
        the expression optimiser never delete a call that X evaluates (import of C07-R8, instances with a call operand)."""
        from . import c07
        from .. import report as _report
        rep.rule('R9', 'no call that the source evaluates is removed at compile time: folding an operator with one constant operand keeps a '
                 'call in the other operand (f(x) and 0, 0 and f(x), ...), so the trace shows its entry (import of C07-R8, call instances)', floor=4)
        c07.rule_fold_effects(_report.Import(rep, 'R9', 'C07', key_filter=lambda r, k: 'call' in k), cast.load('xcmp.cpp'))

    def rule_call_statement_calls(rep):
        """Every path through the code generator for a call statement emits a call sequence: a shortcut that re-enters the callee
        anywhere but at its entry (a hand-made tail call, an elided call) removes an entry from the trace."""
        from .. import flow
        rep.rule('R10', 'a call statement is always compiled into a call: StmtCodeGen::visitPost(CallStatement&) reaches genProcCall or '
                 'genSysCall on every path (no branch that returns after emitting a jump instead), so the callee is entered at offset 0 as '
                 'often as the source calls it', floor=1)
        ix = cast.load('xcmp.cpp')
        cands = [g for g in ix.all_funcs() if g.name == 'visitPost' and g.body is not None and len(g.params) == 1 and
                 'CallStatement' in qt(g.params[0]) and 'StmtCodeGen' in g.qname]
        if len(cands) != 1:
            raise AnalysisBroken('StmtCodeGen::visitPost(CallStatement&) not found (candidates: %d)' % len(cands))
        f = cands[0]

        class C(flow.Client):
            def expr(self_, e, s_):
                return [s_ or any(callee_of(c)[1] in ('genProcCall', 'genSysCall', 'genFuncCall') for c in cast.calls_in(e))]
        o = flow.Flow(C(), ix).run(f.body, {False})
        exits = set(o.normal) | {s_ for s_, _ in o.ret}
        rep.add('R10', 'StmtCodeGen::visitPost(CallStatement):call-on-every-path', bool(exits) and all(exits), pos(f.node) + ' ' + f.qname,
                'a call sequence is generated on every path' if exits and all(exits) else
                'code generation for a call statement can return without generating a call (e.g. a jump back into the body for a self tail '
                'call): the callee is then not entered at its entry, the trace shows no name+0 for that call')

    def rule_every_proc_listed(rep):
        """Compiler side of "the symbol table lists every procedure and function of the program once": code generation for a Proc node
        reaches the prologue directive (which lowering turns into the PROC / FUNC directive the assembler records) on every path."""
        from .. import flow
        rep.rule('R7', 'every procedure of the source gets its PROC/FUNC directive: CodeGen::visitPre(Proc&) reaches genPrologue on every path '
                 '(no procedure is skipped, e.g. because nothing calls it), and lowering turns every prologue into genProc/genFunc', floor=2)
        ix = cast.load('xcmp.cpp')
        f = ix.func('xcmp::CodeGen::visitPre', 'Proc')

        class C(flow.Client):
            def expr(self_, e, s_):
                return [s_ or any(callee_of(c)[1] == 'genPrologue' for c in cast.calls_in(e))]
        o = flow.Flow(C(), ix).run(f.body, {False})
        exits = set(o.normal) | {s_ for s_, _ in o.ret}
        rep.add('R7', 'CodeGen::visitPre(Proc):prologue-on-every-path', bool(exits) and all(exits), pos(f.node) + ' ' + f.qname,
                'genPrologue is reached on every path' if exits and all(exits) else
                'code generation for a procedure can return without emitting its prologue: the procedure gets no PROC/FUNC directive and is '
                'missing from the symbol table of the binary')
        low = [g for g in ix.all_funcs() if g.qname.startswith('xcmp::LowerDirectives') and g.body is not None and
               any(callee_of(c)[1] in ('genProc', 'genFunc') for c in cast.calls_in(g.body))]
        rep.add('R7', 'LowerDirectives:prologue-to-PROC/FUNC', bool(low), low[0].qname if low else 'xcmp::LowerDirectives',
                'lowering emits genProc / genFunc' if low else 'no genProc / genFunc in LowerDirectives', nontrivial=False)
    for fn, a in ((rule_calls_not_elided, (rep,)), (rule_calls_not_folded, (rep,)), (rule_call_statement_calls, (rep,)), (rule_every_proc_listed, (rep,)), (rule_prefix, (rep, idx)), (rule_format, (rep, idx)), (rule_symbols, (rep,)), (rule_lookup, (rep, idx)), (rule_symbol_offset, (rep, idx)), (rule_loader_keeps, (rep, idx))):
        try:
            fn(*a)
        except AnalysisBroken as e:
            rep.broken.append('%s: %s' % (fn.__name__, e))     # the other rules still report


# --------------------------------------------------------------------------------------------------

def _outside_memory(pc):
    """Does the path condition contain  not (address < K)  for an unsigned comparison of the (zero-extended) fetch address with a constant
    K of at least the memory size in bytes?  Such a path exists only for addresses outside memory."""
    conj = list(pc[1:]) if isinstance(pc, tuple) and pc and pc[0] == 'and' else [pc]
    for c in conj:
        try:
            if c[0] == 'not' and c[1][0] == 'bit' and c[1][1][0][0] == 'app' and c[1][1][0][1] in ('ult', 'ule'):
                a, k = c[1][1][0][3]
                if isinstance(k, V) and k.isconst() and k.c >= spec_isa.MEMORY_BYTES and re.fullmatch(r'\[\d+\]\((PC|LASTPC)\)', repr(a)):
                    return True
        except (TypeError, IndexError, AttributeError):
            continue
    return False


def rule_prefix(rep, idx):
    rep.rule('R1', 'for every instruction byte, the first text printed in a traced step is formatted from (instruction count before the '
             'step, byte address of the instruction, symbol+offset, mnemonic of the executed opcode, low nibble of the byte), with no '
             'truncating precision, in both the with-symbols and the without-symbols layout', floor=2 * 240)
    tr = idx.func('hexsim::Processor::trace')
    rep.analysed(tr.sig)
    hooks = TraceHooks()
    mn_of = {v: k for k, v in spec_isa.OPCODES.items()}
    for b in range(256):
        opc = b >> 4
        if opc == 12:
            continue
        _, leaves, I = simmodel.step_paths(idx, b, tracing=1, hooks=hooks)
        seen_layouts = set()
        seen_list = []
        for p, fl, rv in leaves:
            prints = [e for e in p.events if e[0] == 'print']
            if not prints:
                continue
            if _outside_memory(p.pc):
                continue        # a path taken only for an address beyond the memory: outside the property's quantifier
            first = prints[0]
            fmt, args = flatten_format(first[2])
            sizecond = [c for c in (list(p.pc[1:]) if p.pc[0] == 'and' else [p.pc]) if 'size(debugInfo)' in repr(c)]
            with_syms = bool(sizecond) and all(c[0] == 'not' for c in sizecond)
            layout = 'symbols' if with_syms else 'no-symbols'
            # every path is judged (a second path of the same layout differs from the first by some other condition, e.g. on the
            # address: it must print the same columns)
            nth = sum(1 for l_ in seen_list if l_ == layout)
            seen_list.append(layout)
            seen_layouts.add(layout)
            key = 'byte=0x%02X:%s' % (b, layout) + ('' if nth == 0 else ':path%d' % (nth + 1))
            problems = []
            if fmt is None:
                problems.append('first print of the step is not a formatted prefix: %r' % (first[2],))
            else:
                convs = re.findall(r'%[#0\- +]*\d*(?:\.\d+)?[a-zA-Z]', fmt)
                if any('.' in c for c in convs):
                    problems.append('format %r truncates a column (precision)' % fmt)
                want_n = 5 if with_syms else 4
                if len(args) != want_n or len(convs) != want_n:
                    problems.append('%d arguments / %d conversions, expected %d' % (len(args), len(convs), want_n))
                else:
                    if args[0] != var('CYC', 64):
                        problems.append('count column is %r, not the number of instructions executed before this one' % (args[0],))
                    if args[1] != var('PC', 32):
                        problems.append('address column is %r, not the address the byte was fetched from' % (args[1],))
                    mn = args[-2]
                    if not (isinstance(mn, StrV) and mn.kind == 'lit' and mn.args[0] == mn_of.get(opc)):
                        problems.append('mnemonic column is %r, executed opcode is %s' % (mn, mn_of.get(opc)))
                    if args[-1] != const(32, b & 15):
                        problems.append('operand column is %r, the byte\'s low nibble is %d' % (args[-1], b & 15))
                    if with_syms:
                        sfmt, sargs = flatten_format(args[2]) if isinstance(args[2], StrV) else (None, [])
                        if isinstance(args[2], StrV) and args[2].kind == 'lit' and args[2].args[0] == '':
                            pass   # no symbol found: empty column
                        elif sfmt is None or len(sargs) != 2 or sargs[1] != sub(var('PC', 32), var('SYMOFF', 32)) or \
                                not (isinstance(sargs[0], Ref) and sargs[0].what == 'symbol'):
                            problems.append('symbol column is %r, expected "<symbol>+<address - symbol offset>"' % (args[2],))
                        elif '.' in sfmt:
                            problems.append('symbol format %r truncates' % sfmt)
            rep.add('R1', key, not problems, pos(tr.node) + ' hexsim::Processor::trace',
                    '; '.join(problems) if problems else 'format %r' % fmt)
        for layout in ('symbols', 'no-symbols'):
            if layout not in seen_layouts:
                rep.add('R1', 'byte=0x%02X:%s' % (b, layout), False, pos(tr.node) + ' hexsim::Processor::trace',
                        'a traced step prints nothing in the %s layout' % layout)


# --------------------------------------------------------------------------------------------------

def io_sequence(func, names, idx):
    """Sequence of primitive stream transfers in a function: list of (op, size or 'cstr', loop depth)."""
    out = []

    inlined = []

    def visit(n, depth):
        k = n.get('kind')
        if k in ('ForStmt', 'WhileStmt', 'CXXForRangeStmt', 'DoStmt'):
            for c in children(n):
                visit(c, depth + 1)
            return
        if k in cast.CALL_KINDS:
            kind, name, did, obj = callee_of(n)
            g = idx.func_by_id.get(did) if did else None
            if g is not None and getattr(g, 'defn', None) and g.body is None:
                g = g.defn
            if name not in names and g is not None and g.body is not None and len(inlined) < 12 and g.id not in inlined and \
                    g.qname.split('::')[0] in ('hexasm', 'hexsim', 'hex'):
                # a helper of the repository that does the transfer (writeWord, readWord ...): its transfers happen here
                inlined.append(g.id)
                for c in children(n):
                    visit(c, depth)
                visit(g.body, depth)
                inlined.pop()
                return
            if name in names:
                a = cast.call_args(n)
                size = None
                if len(a) >= 2:
                    size = cast.const_int(a[1], idx)
                    if size is None:
                        for x in walk(a[1]):
                            if x['kind'] == 'UnaryExprOrTypeTraitExpr':
                                at = (x.get('argType') or {}).get('qualType', '')
                                size = 4 if 'int' in at else None
                        if size is None:
                            txt = ' '.join(y.get('name', '') for y in walk(a[1]) if y['kind'] in ('MemberExpr', 'DeclRefExpr'))
                            size = 'cstr' if ('length' in txt or 'size' in txt) and depth > 0 else 'var'
                elif name == 'get':
                    size = 'char'
                out.append((name, size, depth))
        for c in children(n):
            visit(c, depth)
    visit(func.body, 0)
    return out


def rule_format(rep, idx):
    rep.rule('R2', 'the symbol-table layout written by hexasm::CodeGen::emitBin/emitDebugInfo (u32 count, NUL-terminated names, u32 count, '
             '(u32 index, u32 offset) pairs after the image) is the layout hexsim::Processor::load reads, element for element', floor=3)
    ia = cast.load('hexasm.cpp')
    wdbg = ia.func('hexasm::CodeGen::emitDebugInfo')
    wbin = ia.func_where('hexasm::CodeGen::emitBin', lambda g: any(callee_of(c)[1] == 'emitProgramBin' for c in cast.calls_in(g.body)))
    rd = idx.func('hexsim::Processor::load')
    w = io_sequence(wdbg, {'write'}, ia)
    r = io_sequence(rd, {'read', 'get'}, idx)
    # writer: [4@0, cstr@1, 4@0, 4@1, 4@1]; reader after the image: [4@0, char-loop@2 (get in while in for), 4@0, 4@1, 4@1]
    wshape = [(s, d) for (n, s, d) in w]
    # reader: drop header word and image read (first two reads)
    rreads = [(n, s, d) for (n, s, d) in r]
    hdr = rreads[:2]
    rest = rreads[2:]
    rshape = []
    for n, s, d in rest:
        if n == 'get':
            if not rshape or rshape[-1] != ('cstr', 1):
                rshape.append(('cstr', 1))
        else:
            rshape.append((s, d))
    ok_hdr = len(hdr) == 2 and hdr[0][1] == 4 and hdr[1][1] == 'var'
    rep.add('R2', 'load:header-then-image', ok_hdr, pos(rd.node) + ' hexsim::Processor::load', 'first reads: %s' % hdr)
    def opaque(fn):
        """Does the function move data through something this rule does not look into (templates, lambdas, std algorithms, helper classes)?"""
        for x in walk(fn.body):
            if x.get('kind') == 'LambdaExpr':
                return True
            if x.get('kind') in cast.CALL_KINDS:
                nm = callee_of(x)[1]
                if nm in ('copy', 'for_each', 'accumulate', 'transform', 'getline', 'readsome', 'rdbuf', 'object', 'bytes', 'raw'):
                    return True
                ob = callee_of(x)[3]
                if ob is not None and any(t_ in (qt(ob) + dqt(ob)) for t_ in ('Writer', 'Reader', 'Buffer')):
                    return True
        return False
    if wshape != rshape and (opaque(wdbg) or opaque(rd)):
        rep.undecided('R2', 'symbol-table-shape', 'writer %s | reader %s differ, but one side moves data through constructs this rule does not look '
                      'into' % (wshape, rshape), pos(wdbg.node) + ' / ' + pos(rd.node))
    else:
      rep.add('R2', 'symbol-table-shape', wshape == rshape and bool(wshape), pos(wdbg.node) + ' hexasm::CodeGen::emitDebugInfo / ' + pos(rd.node) + ' hexsim::Processor::load',
            'writer %s | reader %s' % (wshape, rshape))
    # pair roles: writer (index from a counter, offset from pair.second); reader (first indexes the strings, second is stored as the offset)
    wr_ok = False
    wr_known = True
    pair_writes = [c for c in cast.calls_in(wdbg.body) if callee_of(c)[1] == 'write']
    pair_args = [cast.call_args(c)[0] for c in pair_writes[-2:]] if len(pair_writes) >= 2 else None
    if pair_args is None:
        # the words may be written through a helper (writeWord(stream, value)): the value argument of its last two calls
        helper_calls = []
        for c in cast.calls_in(wdbg.body):
            g = ia.func_by_id.get(callee_of(c)[2]) if callee_of(c)[2] else None
            if g is not None and getattr(g, 'defn', None) and g.body is None:
                g = g.defn
            if g is not None and g.body is not None and any(callee_of(x)[1] == 'write' for x in cast.calls_in(g.body)) and cast.call_args(c):
                helper_calls.append(c)
        if len(helper_calls) >= 2:
            pair_args = [[a for a in cast.call_args(c) if 'stream' not in (qt(a) + dqt(a))][-1] for c in helper_calls[-2:]]
        else:
            wr_known = False
    if pair_args is not None:
        a_idx, a_off = pair_args
        vi = [x.get('referencedDecl', {}).get('name') for x in walk(a_idx) if x['kind'] == 'DeclRefExpr']
        vo = [x.get('referencedDecl', {}).get('id') for x in walk(a_off) if x['kind'] == 'DeclRefExpr']
        off_decl = ia.by_id.get(vo[0]) if vo else None
        from_second = (off_decl is not None and any(y['kind'] == 'MemberExpr' and y.get('name') == 'second' for y in walk(off_decl))) or \
            any(y['kind'] == 'MemberExpr' and y.get('name') == 'second' for y in walk(a_off))
        incr = any(x['kind'] == 'UnaryOperator' and x.get('opcode') == '++' and vi and
                   x.get('inner') and cast.strip(children(x)[0]).get('referencedDecl', {}).get('name') == vi[0] for x in walk(wdbg.body))
        wr_ok = from_second and incr
    rd_ok = False
    rd_known = True
    pushes = [c for c in cast.calls_in(rd.body) if callee_of(c)[1] == 'push_back' and any(callee_of(x)[1] == 'make_pair' for x in cast.calls_in(c))]
    emplaces = [c for c in cast.calls_in(rd.body) if callee_of(c)[1] == 'emplace_back' and len(cast.call_args(c)) == 2 and
                callee_of(c)[3] is not None and any(y.get('kind') == 'MemberExpr' and 'debug' in str(y.get('name', '')).lower() for y in walk(callee_of(c)[3]))]
    if not pushes and not emplaces:
        rd_known = False

    def resolve_ref(e):
        """A local reference / value initialised from an expression stands for that expression."""
        x = cast.strip(e)
        while x.get('kind') in ('ImplicitCastExpr', 'ParenExpr', 'MaterializeTemporaryExpr', 'CXXConstructExpr', 'CXXBindTemporaryExpr') and len(children(x)) == 1:
            x = cast.strip(children(x)[0])
        if x.get('kind') == 'DeclRefExpr' and (x.get('referencedDecl') or {}).get('kind') == 'VarDecl':
            d_ = idx.by_id.get(x['referencedDecl'].get('id'))
            if d_ is not None and children(d_) and 'string' in qt(d_):
                return children(d_)[-1]
        return e
    if pushes or emplaces:
        if pushes:
            mp = [x for x in cast.calls_in(pushes[-1]) if callee_of(x)[1] == 'make_pair'][0]
            a = cast.call_args(mp)
        else:
            a = cast.call_args(emplaces[-1])
        a = [resolve_ref(a[0]), a[1]]
        first_is_string = any(callee_of(x)[1] == 'operator[]' for x in cast.calls_in(a[0]))
        second_names = [x.get('referencedDecl', {}).get('name') for x in walk(a[1]) if x['kind'] == 'DeclRefExpr']
        reads = [c for c in cast.calls_in(rd.body) if callee_of(c)[1] == 'read']
        last_read_var = [x.get('referencedDecl', {}).get('name') for x in walk(cast.call_args(reads[-1])[0]) if x['kind'] == 'DeclRefExpr']
        rd_ok = first_is_string and bool(second_names) and second_names[:1] == last_read_var[:1]
    if not wr_known or not rd_known:
        rep.undecided('R2', 'pair-roles', 'the %s of the (index, offset) pairs is not in a recognised shape' % ('writer' if not wr_known else 'reader'), pos(wdbg.node))
    else:
      rep.add('R2', 'pair-roles', wr_ok and rd_ok, pos(wdbg.node) + ' / ' + pos(rd.node),
            'writer emits (running index, pair.second): %s; reader stores (strings[first word], second word): %s' % (wr_ok, rd_ok))
    # emitBin: image then debug info
    order = [callee_of(c)[1] for c in cast.calls_in(wbin.body) if callee_of(c)[1] in ('emitProgramBin', 'emitDebugInfo')]
    rep.add('R2', 'emitBin:image-then-tables', order == ['emitProgramBin', 'emitDebugInfo'], pos(wbin.node) + ' hexasm::CodeGen::emitBin',
            'call order %s' % order, nontrivial=False)


# --------------------------------------------------------------------------------------------------

class _File:
    """A well-formed binary as the writer lays it out: header word, image, string table, symbol table."""

    def __init__(self, image_bytes, names, offsets):
        self.words = []
        self.items = [('u32', image_bytes // 4), ('skip', image_bytes), ('u32', len(names))]
        for nm in names:
            self.items += [('chr', ord(c)) for c in nm] + [('chr', 0)]
        self.items.append(('u32', len(names)))
        for i, off in enumerate(offsets):
            self.items += [('u32', i), ('u32', off)]
        self.size = 4 + image_bytes + 4 + sum(len(nm) + 1 for nm in names) + 4 + 8 * len(names)
        self.pos = 0
        self.failed = False

    def peek(self):
        return self.items[self.pos] if self.pos < len(self.items) and not self.failed else None

    def next(self, kind):
        if self.failed:
            return None         # a stream whose failbit is set transfers nothing
        if self.pos >= len(self.items) or self.items[self.pos][0] != kind:
            self.failed = True
            return None
        v = self.items[self.pos][1]
        self.pos += 1
        return v


def load_symbols(idx, image_bytes, names, offsets):
    """Interpret hexsim::Processor::load (engine I) on a well-formed binary; returns the list of (name, offset) the simulator keeps."""
    from ..ivinterp import const as iconst, Thrown, NeedSplit
    fm = _File(image_bytes, names, offsets)

    def target(I, a, env):
        a = cast.strip(a)
        while a.get('kind') in ('CXXReinterpretCastExpr', 'ImplicitCastExpr', 'ParenExpr', 'CStyleCastExpr', 'CXXStaticCastExpr'):
            a = cast.strip(children(a)[0])
        if a.get('kind') == 'UnaryOperator' and a.get('opcode') == '&':
            return I.lval(children(a)[0], env)
        return None

    def hooks(I, n, kind, name, did, obj, args, env):
        t = (dqt(obj) + ' ' + qt(obj)) if obj is not None else ''
        if kind == 'method' and ('stream' in t or 'basic_ios' in t or 'ios_base' in t):
            if name in ('seekg', 'close', 'clear'):
                return None
            if name == 'tellg':
                return iconst(64, True, fm.size)
            if name in ('good', 'is_open', 'operator bool'):
                return iconst(1, False, 0 if fm.failed else 1)
            if name in ('fail', 'bad', 'eof', 'operator!'):
                return iconst(1, False, 1 if fm.failed else 0)
            if name == 'gcount':
                return iconst(64, True, 4)
            if name == 'get' and not args:
                v = fm.next('chr')
                return iconst(32, True, -1 if v is None else v)
            if name == 'getline' and len(args) in (2, 3):
                # istream::getline(char *s, count, delim): characters up to the delimiter (extracted, not stored); failbit when count-1
                # characters were stored and the next one is not the delimiter
                cnt = I.expr(args[1], env)
                dl = I.expr(args[2], env) if len(args) == 3 else iconst(8, True, 10)
                if not (isinstance(cnt, IV) and cnt.concrete() and isinstance(dl, IV) and dl.concrete()):
                    raise AnalysisBroken('getline with a count / delimiter that is not constant at %s' % pos(n))
                a0 = cast.strip(args[0])
                while a0.get('kind') in ('ImplicitCastExpr', 'ParenExpr', 'CStyleCastExpr') and children(a0):
                    a0 = cast.strip(children(a0)[0])
                if a0.get('kind') != 'DeclRefExpr':
                    raise AnalysisBroken('getline into something that is not a local buffer at %s' % pos(n))
                chars = []
                while True:
                    nx = fm.peek()
                    if nx is None or nx[0] != 'chr':
                        fm.failed = True
                        break
                    if nx[1] == dl.lo:
                        fm.next('chr')
                        break
                    if len(chars) >= cnt.lo - 1:
                        fm.failed = True
                        break
                    chars.append(fm.next('chr'))
                I.store(I.lval(a0, env), ('str', ''.join(chr(c) for c in chars)), env)
                return None
            if name == 'read' and len(args) == 2:
                nbytes = I.expr(args[1], env)
                lv = target(I, args[0], env)
                if lv is None:
                    # the image: read into the memory array
                    want = fm.next('skip')
                    if not (isinstance(nbytes, IV) and nbytes.concrete() and nbytes.lo == want):
                        raise AnalysisBroken('image read of %r bytes, the header announces %r' % (nbytes, want))
                    return None
                if not (isinstance(nbytes, IV) and nbytes.concrete() and nbytes.lo == 4):
                    raise AnalysisBroken('read of %r bytes into a scalar at %s' % (nbytes, pos(n)))
                v = fm.next('u32')
                if v is not None:
                    I.store(lv, iconst(32, False, v), env)
                return None
        if kind == 'method' and name == 'data' and 'array' in t:
            return ('memory',)
        if kind == 'function' and name in ('memcpy', 'memset', 'memmove'):
            return None
        if kind == 'function' and name == 'make_pair':
            return ('pair',) + tuple(I.expr(a, env) for a in args)
        if name == 'eof' and kind == 'function':
            return iconst(32, True, -1)
        if n['kind'] == 'CXXOperatorCallExpr' and name == 'operator=' and 'fpos' in (dqt(args[0]) + qt(args[0])):
            v = I.expr(args[1], env)
            I.store(I.lval(args[0], env), v, env)
            return v
        if kind == 'method' and name.startswith('operator ') and 'fpos' in t:
            return I.expr(obj, env)
        return NotImplemented
    I = ivinterp.Interp(idx, hooks, max_iter=4000)
    f = idx.func('hexsim::Processor::load')
    proc = Obj('hexsim::Processor', {'debugInfo': Vec([]), 'debugInfoMap': {}, 'memory': Obj('std::array', {}, 'memory')}, 'processor')
    I.invoke(f, proc, [('str', 'a.bin'), iconst(1, False, 0)])
    kept = []
    for it in proc.fields['debugInfo'].items:
        if isinstance(it, tuple) and it[0] == 'pair' and isinstance(it[1], tuple) and it[1][0] == 'str' and isinstance(it[2], IV) and it[2].concrete():
            kept.append((it[1][1], it[2].lo))
        else:
            kept.append(('?', repr(it)))
    return kept, proc.fields['debugInfoMap'], list(I.ub)


def rule_loader_keeps(rep, idx, rid='R8'):
    rep.rule(rid, 'the loader keeps every symbol of a well-formed binary: hexsim::Processor::load, interpreted on files laid out as '
             'emitBin/emitDebugInfo write them (header, image, names, (index, offset) pairs), ends with exactly the written (name, offset) '
             'list in debugInfo and the same offsets in debugInfoMap -- for programs of 1, 3, 12 and 40 procedures of the smallest size xcmp '
             'generates (5 bytes each behind 14 bytes of start-up code)', floor=4)
    from ..ivinterp import Thrown, NeedSplit
    f = idx.func('hexsim::Processor::load')
    # sizes as xcmp produces them: 14 bytes of start-up code, then procedures of at least 5 bytes (empty frame, trivial body), image
    # padded to a word boundary
    def shape(n):
        return ((14 + 5 * n + 3) & ~3, ['main'] + ['p%d' % i for i in range(1, n)], [14 + 5 * i for i in range(n)])
    long_ = shape(3)
    long_[1][1] = 'p' + 'x' * 39             # names are as long as the programmer makes them
    cases = [shape(1), shape(3), shape(12), shape(40), long_]
    for image, names, offs in cases:
        key = 'image=%d:symbols=%d' % (image, len(names)) + (':name of %d characters' % max(len(n_) for n_ in names) if max(len(n_) for n_ in names) > 8 else '')
        try:
            kept, mp, ub = load_symbols(idx, image, names, offs)
        except Thrown as e:
            rep.add(rid, key, False, pos(f.node) + ' hexsim::Processor::load', 'loading a well-formed binary fails: %s' % (e.what,))
            continue
        except (NeedSplit, AnalysisBroken) as e:
            rep.undecided(rid, key, 'loader not interpreted: %s' % e, pos(f.node) + ' hexsim::Processor::load')
            continue
        want = list(zip(names, offs))
        if any(k_[0] == '?' for k_ in kept):
            rep.undecided(rid, key, 'the entries the loader keeps are not (name, offset) pairs this rule can read: %s' % kept[:2], pos(f.node) + ' hexsim::Processor::load')
            continue
        mp_ok = all(isinstance(mp.get(nm), IV) and mp[nm].concrete() and mp[nm].lo == off for nm, off in want) and len(mp) == len(want)
        ok = kept == want and mp_ok and not ub
        rep.add(rid, key, ok, pos(f.node) + ' hexsim::Processor::load',
                'keeps %d of %d symbols' % (len(kept), len(want)) if ok else
                'a %d-byte image with symbols %s is loaded with the table %s (map %s)%s: the trace then labels no instruction with its procedure'
                % (image, want[:4], kept[:4], sorted(mp)[:4], '; UB %s' % ub if ub else ''))


def rule_symbols(rep):
    rep.rule('R3', 'every FUNC/PROC directive is recorded once with the emitter\'s running offset, which equals its layout offset '
             '(import of C05-R5 over all directive sequences); the compiler emits exactly one FUNC/PROC directive per procedure', floor=60)
    ia = cast.load('hexasm.cpp')
    from .c17 import _SubReport
    c05.rule_layout_emission(_SubReport(rep, 'R3'), ia)
    ix = cast.load('xcmp.cpp')
    low = [c for c in ix.record('xcmp::LowerDirectives').ctors if not c.node.get('isImplicit')][0]
    # in the PROLOGUE case: genFunc under type==FUNC, genProc under type==PROC, once each
    # ... in the constructor or in the member functions of LowerDirectives it calls (the lowering may be split into helpers)
    bodies = [low.body]
    seen_ids = set()
    for _ in range(3):
        for b_ in list(bodies):
            for c in cast.calls_in(b_):
                g = ix.func_by_id.get(callee_of(c)[2]) if callee_of(c)[2] else None
                if g is not None and getattr(g, 'defn', None) and g.body is None:
                    g = g.defn
                if g is not None and g.body is not None and g.qname.startswith('xcmp::LowerDirectives::') and g.id not in seen_ids:
                    seen_ids.add(g.id)
                    bodies.append(g.body)
    calls = [callee_of(c)[1] for b_ in bodies for c in cast.calls_in(b_) if callee_of(c)[1] in ('genFunc', 'genProc')]
    if sorted(calls) != ['genFunc', 'genProc']:
        rep.undecided('R3', 'LowerDirectives:one-symbol-per-prologue', 'symbol directives generated by the lowering: %s (expected one genFunc and one '
                      'genProc site): shape not recognised' % calls, pos(low.node) + ' xcmp::LowerDirectives') if calls else None
    if sorted(calls) != ['genFunc', 'genProc'] and calls:
        calls = None
    if calls is not None:
      rep.add('R3', 'LowerDirectives:one-symbol-per-prologue', sorted(calls) == ['genFunc', 'genProc'], pos(low.node) + ' xcmp::LowerDirectives',
            'symbol directives generated: %s' % calls, nontrivial=False)
    vp = ix.func('xcmp::CodeGen::visitPre', 'Proc')
    pro = [c for c in cast.calls_in(vp.body) if callee_of(c)[1] == 'genPrologue']
    loops = [n for n in walk(vp.body) if n['kind'] in ('ForStmt', 'WhileStmt', 'CXXForRangeStmt')]
    rep.add('R3', 'CodeGen::visitPre(Proc):one-prologue', len(pro) == 1 and not loops, pos(vp.node) + ' ' + vp.qname,
            '%d genPrologue call(s), %d loop(s)' % (len(pro), len(loops)), nontrivial=False)


# --------------------------------------------------------------------------------------------------

def rule_lookup(rep, idx):
    rep.rule('R4', 'lookupSymbol returns the last symbol whose offset is <= the address and nothing below the first symbol, for every '
             'position of the address among 1..3 ascending offsets (all orderings), also when it is called for two addresses in '
             'succession on the same simulator object (whatever it remembers between calls must not change the answer)', floor=10)
    f = idx.func('hexsim::Processor::lookupSymbol')
    rep.analysed(f.sig)

    def fresh(tab):
        I = ivinterp.Interp(idx)
        try:
            this = I.construct('hexsim::Processor', [Obj('std::istream', {}, 'in'), Obj('std::ostream', {}, 'out'), ivinterp.const(64, False, 0)])
        except (AnalysisBroken, ivinterp.Thrown, ivinterp.NeedSplit):
            this = Obj('hexsim::Processor', {}, 'processor')
        this.fields['debugInfo'] = tab
        return I, this

    def expected(offs, pc):
        want = None
        for i, o in enumerate(offs):
            if pc >= o:
                want = ('str', 'sym%d' % i)
        return want
    for ntab in (1, 2, 3):
        offs = [10 * (i + 1) for i in range(ntab)]
        points = sorted(set([10 * i + 5 for i in range(ntab + 1)] + offs + [o - 1 for o in offs]))
        tabf = lambda: Vec([Obj('pair', {'first': ('str', 'sym%d' % i), 'second': ivinterp.const(32, False, o)}) for i, o in enumerate(offs)])
        for pc in points:
            I, this = fresh(tabf())
            this.fields['lastPC'] = ivinterp.const(32, False, pc)
            try:
                r = I.invoke(f, this, [])
            except ivinterp.Thrown as e:
                r = ('thrown', e.what)
            want = expected(offs, pc)
            rel = 'below the first' if want is None else 'in/at %s' % want[1]
            rep.add('R4', 'table=%d:address-%s:%d' % (ntab, rel.replace(' ', '-'), pc), r == want, pos(f.node) + ' hexsim::Processor::lookupSymbol',
                    'offsets %s, address %d: returns %r, expected %r%s' % (offs, pc, r, want, ('; UB: %s' % I.ub) if I.ub else ''))
        # two lookups in succession (history independence)
        bad = []
        n = 0
        for pc1 in points:
            for pc2 in points:
                I, this = fresh(tabf())
                try:
                    this.fields['lastPC'] = ivinterp.const(32, False, pc1)
                    I.invoke(f, this, [])
                    this.fields['lastPC'] = ivinterp.const(32, False, pc2)
                    r = I.invoke(f, this, [])
                except ivinterp.Thrown as e:
                    r = ('thrown', e.what)
                n += 1
                if r != expected(offs, pc2):
                    bad.append('after a lookup of address %d, address %d gives %r instead of %r' % (pc1, pc2, r, expected(offs, pc2)))
        rep.add('R4', 'table=%d:two-lookups-in-succession' % ntab, not bad, pos(f.node) + ' hexsim::Processor::lookupSymbol',
                '; '.join(bad[:3]) if bad else '%d ordered pairs of addresses agree with the single lookup' % n)


def rule_symbol_offset(rep, idx):
    """The offset printed next to a symbol is measured from *that* symbol: trace() computes  lastPC - <offset of the name that
    lookupSymbol returned>;  the name -> offset step (a map, a search ...) is interpreted on tables whose names are related the way
    real programs' names are (one a prefix of another, defined in either order)."""
    rep.rule('R5', 'symbol+offset: the offset printed is the address minus the table offset of exactly the symbol lookupSymbol returned, for '
             'tables whose names are prefixes of one another in either order (mul_step/mul, div/div_step) and for every address class', floor=4)
    tr = idx.func('hexsim::Processor::trace')
    lk = idx.func('hexsim::Processor::lookupSymbol')
    # the declaration  <offset var> = lastPC - <name -> offset>  inside trace()
    cand = []
    for d in walk(tr.body):
        if d['kind'] == 'VarDecl' and children(d):
            ini = cast.strip(children(d)[-1])
            if ini['kind'] == 'BinaryOperator' and ini.get('opcode') == '-' and (cast.member_ref(children(ini)[0]) or (None,))[0] == 'lastPC':
                cand.append((d, ini))
    where = pos(tr.node) + ' hexsim::Processor::trace'
    if len(cand) != 1:
        rep.undecided('R5', 'symbol-offset-expression', 'trace() does not compute `lastPC - <offset of the symbol>` in one declaration: idiom not recognised', where)
        return
    decl, ini = cand[0]
    namevars = [x for x in walk(children(ini)[1]) if x['kind'] == 'DeclRefExpr' and (x.get('referencedDecl') or {}).get('kind') == 'VarDecl']
    if not namevars:
        rep.undecided('R5', 'symbol-offset-expression', 'the offset expression does not use the looked-up name: idiom not recognised', where)
        return
    name_id = namevars[0]['referencedDecl']['id']
    for names in (('main', 'mul_step', 'mul'), ('main', 'mul', 'mul_step'), ('a', 'ab', 'abc'), ('abc', 'ab', 'a')):
        offs = [10 * (i + 1) for i in range(len(names))]
        bad = []
        n = 0
        for pc in [o + k for o in offs for k in (0, 3, 9)]:
            I = ivinterp.Interp(idx)
            tab = Vec([Obj('pair', {'first': ('str', nm), 'second': ivinterp.const(32, False, o)}) for nm, o in zip(names, offs)])
            try:
                this = I.construct('hexsim::Processor', [Obj('std::istream', {}, 'in'), Obj('std::ostream', {}, 'out'), ivinterp.const(64, False, 0)])
            except (AnalysisBroken, ivinterp.Thrown, ivinterp.NeedSplit):
                this = Obj('hexsim::Processor', {}, 'processor')
            this.fields['debugInfo'] = tab
            this.fields['debugInfoMap'] = {nm: ivinterp.const(32, False, o) for nm, o in zip(names, offs)}
            this.fields['lastPC'] = ivinterp.const(32, False, pc)
            try:
                sym = I.invoke(lk, this, [])
                env = {'this': this, 'locals': {name_id: sym}}
                v = I.expr(ini, env)
            except ivinterp.Thrown as e:
                v = ('thrown', e.what)
            except ivinterp.NeedSplit as e:
                rep.undecided('R5', 'names=%s' % (names,), 'not concrete: %s' % e, where)
                bad = None
                break
            want_sym = [nm for nm, o in zip(names, offs) if pc >= o][-1]
            want = pc - dict(zip(names, offs))[want_sym]
            n += 1
            got = v.lo if isinstance(v, IV) and v.concrete() else v
            if not (isinstance(sym, tuple) and sym[1] == want_sym and got == want):
                bad.append('address %d: symbol %r, offset printed %r, expected %s+%d' % (pc, sym[1] if isinstance(sym, tuple) else sym, got, want_sym, want))
        if bad is None:
            continue
        rep.add('R5', 'names=%s' % ','.join(names), not bad, where, '; '.join(bad[:3]) if bad else '%d addresses: offset is measured from the symbol shown' % n)
