"""C12 -- a simulator run depends only on the binary, the input and the options (engines Q + S)."""
import re
from .. import cast, simmodel, initrules, nondet
from ..cxxsym import Interp, Path
from ..terms import *
from ..frontend import AnalysisBroken
from ..cast import children, pos, walk, callee_of, qt

CLS = 'hexsim::Processor'
TRACE_FUNCS = ('trace', 'traceSyscall', 'lookupSymbol')
# members that need no constructor initialisation because every path of the run loop writes them before reading them
# (verified on the step summaries on every run)
WRITTEN_FIRST = {
    'hexsim::Processor::instr': 'assigned by the instruction fetch, the first statement of every loop iteration',
    'hexsim::Processor::instrEnum': 'assigned from instr before the decode switch in every loop iteration',
}
# members the trace functions may write (text-only state)
TRACE_MAY_WRITE = {'debugInfoMap': 'std::map::operator[] lookup of a symbol name that is always present; affects trace text only'}


class StubTrace(simmodel.SimHooks):
    def member_call(self, I, node, name, obj, args, p):
        o = cast.strip_noncast(obj) if obj is not None else None
        if o is not None and o['kind'] == 'CXXThisExpr' and name in TRACE_FUNCS:
            p.events.append(('trace-call', name))
            return [(p, const(1, 0))]
        return simmodel.SimHooks.member_call(self, I, node, name, obj, args, p)


def _nonempty_polarity(cond, member):
    """True: cond true implies this->member is non-empty; False: cond false implies it; 'mentions': member occurs but undecided; None."""
    c = cast.strip(cond)
    while c.get('kind') in ('ImplicitCastExpr', 'ParenExpr', 'ExprWithCleanups') and children(c):
        c = cast.strip(children(c)[0])

    def is_call(e, names):
        e = cast.strip(e)
        while e.get('kind') in ('ImplicitCastExpr', 'ParenExpr') and children(e):
            e = cast.strip(children(e)[0])
        if e.get('kind') == 'CXXMemberCallExpr' and callee_of(e)[1] in names:
            o = callee_of(e)[3]
            return o is not None and any(y['kind'] == 'MemberExpr' and y.get('name') == member for y in walk(o))
        return False
    if is_call(c, ('size', 'length')):
        return True
    if is_call(c, ('empty',)):
        return False
    if c.get('kind') == 'UnaryOperator' and c.get('opcode') == '!':
        r = _nonempty_polarity(children(c)[0], member)
        return (not r) if r in (True, False) else r
    if c.get('kind') == 'BinaryOperator' and len(children(c)) == 2:
        a, b = children(c)
        op = c.get('opcode')
        if op in ('>', '!=', '==', '>=') and is_call(a, ('size', 'length')):
            k = cast.const_int(b, None)
            if k == 0 and op in ('>', '!='):
                return True
            if k == 0 and op == '==':
                return False
            if k is not None and k >= 1 and op == '>=':
                return True
        if op == '&&':
            ra, rb = _nonempty_polarity(a, member), _nonempty_polarity(b, member)
            if ra is True or rb is True:
                return True
        if op == '||':
            ra, rb = _nonempty_polarity(a, member), _nonempty_polarity(b, member)
            if ra is False or rb is False:
                return False
    if any(y['kind'] == 'MemberExpr' and y.get('name') == member for y in walk(c)):
        return 'mentions'
    return None


def run(rep, tier):
    idx = cast.load('hexsim.cpp')
    rep.analysed(unit='hexsim.cpp')
    rep.trusted = ['clang 14 AST', 'frozen tables WRITTEN_FIRST / TRACE_MAY_WRITE in hexsa/rules/c12.py (named symbols with reasons)']
    rep.assumptions = ['the std streams themselves are deterministic', 'boost::format/std::ostream insertion have no effect on Processor state']
    rule_r1(rep, idx)
    rule_r2(rep, idx)
    rule_r3(rep)
    rule_loader_locals(rep, idx)
    rule_r4(rep, idx)
    from .. import report as _report
    from . import c02
    rep.rule('R5', '"memory not covered by the loaded image reads as zero": the loader writes exactly the image (length word << 2 bytes at '
             'word 0) into the zero-initialised memory and nothing behind it (import of C02-R2)', floor=1)
    c02.rule_r2(_report.Import(rep, 'R5', 'C02', key_filter=lambda r, k: k.startswith('load:')), idx)


def rule_r1(rep, idx):
    rep.rule('R1', 'every scalar/array data member of hexsim::Processor and hex::HexSimIO is initialised by every constructor; '
             'memory is zero (value) initialised so that words outside the image read as zero; members exempted as '
             '"written first" are proved to be written before read on every path of the run loop', floor=15,
             floor_reason='15 scalar members on the pinned tree')
    _, leaves, I = simmodel.step_paths(idx, None)
    rbw = set()
    for p, fl, rv in leaves:
        rbw |= p.read_before_write
    for qn, f, hows in initrules.audit(idx, ['hexsim', 'hex']):
        name = qn + '::' + f['name']
        bad = [c for c, h in hows if h is None]
        where = pos(f) + ' ' + qn
        if name in WRITTEN_FIRST:
            ok = f['name'] not in rbw
            rep.add('R1', name + ':written-before-read', ok, where,
                    WRITTEN_FIRST[name] if ok else 'exempted as written-first but the run loop reads it before writing it')
            continue
        if bad:
            rep.add('R1', name + ':initialised', False, where,
                    'not initialised by %s: its value is whatever the host memory holds%s' % (
                        ', '.join(c.sig if c else 'the implicit constructor' for c in bad),
                        ' (read by the run loop before any write)' if f['name'] in rbw else ''))
            continue
        rep.add('R1', name + ':initialised', True, where, ', '.join(sorted({h[0] for c, h in hows})), nontrivial=False)
        if f['name'] == 'memory':
            z = all(initrules.is_zero_init(h) for c, h in hows)
            rep.add('R1', name + ':zero-initialised', z, where,
                    'value-initialised (reads as zero)' if z else 'initialised, but not to zero: memory outside the image does not read as zero')


def writes_of(idx, f, seen=None, depth=0):
    """Fields of `this` that a method (and this-methods it calls) may write; plus io/in uses."""
    seen = seen if seen is not None else set()
    out = []
    if f.id in seen or f.body is None or depth > 6:
        return out
    seen.add(f.id)
    for n in walk(f.body):
        k = n['kind']
        tgt = None
        if k == 'BinaryOperator' and n.get('opcode') == '=':
            tgt = children(n)[0]
        elif k == 'CompoundAssignOperator':
            tgt = children(n)[0]
        elif k == 'UnaryOperator' and n.get('opcode') in ('++', '--'):
            tgt = children(n)[0]
        if tgt is not None:
            for x in walk(tgt):
                if x['kind'] == 'MemberExpr' and cast.is_this_member(x):
                    out.append(('write', x['name'], pos(n), f.qname))
                    break
        if k == 'CXXOperatorCallExpr':
            kind, name, did, obj = callee_of(n)
            args = cast.call_args(n)
            if name == 'operator[]' and args:
                m = cast.member_ref(args[0])
                if m and cast.is_this_member(args[0]) and 'const' not in qt(args[0]):
                    # non-const operator[] of a map may insert; of array/vector it yields an lvalue (write only if assigned)
                    if 'map' in cast.dqt(args[0]):
                        out.append(('write', m[0], pos(n), f.qname))
            if name in ('operator=', 'operator+=', 'operator>>') and args:
                m = cast.member_ref(args[0])
                if m and cast.is_this_member(args[0]):
                    out.append(('write', m[0], pos(n), f.qname))
        if k == 'CXXMemberCallExpr':
            kind, name, did, obj = callee_of(n)
            o = cast.strip_noncast(obj) if obj is not None else None
            if o is not None and o['kind'] == 'CXXThisExpr':
                g = idx.func_by_id.get(did)
                if g is not None:
                    out += writes_of(idx, g, seen, depth + 1)
            elif o is not None:
                m = cast.member_ref(o)
                if m and cast.is_this_member(o):
                    const_call = 'const' in (idx.func_by_id.get(did).type.split(')')[-1] if idx.func_by_id.get(did) else '')
                    if m[0] in ('io', 'in'):
                        out.append(('io-call', m[0] + '.' + name, pos(n), f.qname))
                    elif name in ('push_back', 'insert', 'erase', 'clear', 'emplace', 'emplace_back', 'resize', 'open', 'close', 'get',
                                  'read', 'put', 'write', 'fill', 'assign', 'swap'):
                        out.append(('write', m[0], pos(n), f.qname))
    return out


def rule_r2(rep, idx):
    rep.rule('R2a', 'the trace functions (trace, traceSyscall, lookupSymbol and their callees) write no Processor member other '
             'than text-only state and never call the I/O object', floor=3)
    rep.rule('R2b', 'for every instruction byte the step summary of the run loop with tracing on (trace functions as no-ops, '
             'justified by R2a) equals the summary with tracing off: registers, stores, I/O primitives, running, exit value, '
             'cycle count', floor=240)
    # members that only the trace functions touch are text-only state by construction: nothing outside can observe them
    closure = set()
    for nm in TRACE_FUNCS:
        f0 = idx.func(CLS + '::' + nm)
        todo = [f0]
        while todo:
            g = todo.pop()
            if g.id in closure or g.body is None:
                continue
            closure.add(g.id)
            for c in cast.calls_in(g.body):
                kind, name, did, obj = callee_of(c)
                o = cast.strip(obj) if obj is not None else None
                h = idx.func_by_id.get(did) if did else None
                if h is not None and o is not None and o['kind'] == 'CXXThisExpr':
                    todo.append(h if h.body is not None else getattr(h, 'defn', h))
    seen_outside = set()
    for m_ in idx.record(CLS).methods + [c_ for c_ in idx.record(CLS).ctors if c_.body is not None and c_.params]:
        if m_.body is None or m_.id in closure or m_.name in ('setTracing',):
            continue
        for x in walk(m_.body):
            if x['kind'] == 'MemberExpr' and cast.is_this_member(x):
                seen_outside.add(x['name'])
    for nm in TRACE_FUNCS:
        f = idx.func(CLS + '::' + nm)
        rep.analysed(f.sig)
        eff = writes_of(idx, f)
        bad = [e for e in eff if not (e[0] == 'write' and (e[1] in TRACE_MAY_WRITE or e[1] not in seen_outside))]
        private = sorted({e[1] for e in eff if e[0] == 'write' and e[1] not in TRACE_MAY_WRITE and e[1] not in seen_outside})
        rep.add('R2a', '%s::%s:effects' % (CLS, nm), not bad, pos(f.node) + ' ' + f.qname,
                ('; '.join('%s %s at %s' % (e[0], e[1], e[2]) for e in bad)) if bad else
                'writes only %s%s' % (sorted({e[1] for e in eff}), (' (%s are touched by the trace functions alone)' % private) if private else ''))
    # R2e: the trace flag itself is consulted only where R2b compares the two settings (the run loop and what it calls)
    rep.rule('R2e', 'the trace flag is read only by the run loop and the functions it calls (whose two settings R2b compares) and by the '
             'trace functions: no other member function (the loader, the constructor, a configuration call) does anything that '
             'depends on -t', floor=3)
    runf = idx.func(CLS + '::run')
    reach, todo = set(), [runf]
    while todo:
        g = todo.pop()
        if g is None or g.id in reach or g.body is None:
            continue
        reach.add(g.id)
        for c in cast.calls_in(g.body):
            kind, name, did, obj = callee_of(c)
            o = cast.strip(obj) if obj is not None else None
            h = idx.func_by_id.get(did) if did else None
            if h is not None and o is not None and o['kind'] == 'CXXThisExpr':
                todo.append(h if h.body is not None else getattr(h, 'defn', h))
    for m_ in idx.record(CLS).methods + [c_ for c_ in idx.record(CLS).ctors if c_.body is not None]:
        if m_.body is None or m_.id in reach or m_.id in closure:
            continue
        lhs = set()
        for x in walk(m_.body):
            if x['kind'] == 'BinaryOperator' and x.get('opcode') == '=':
                for y in walk(children(x)[0]):
                    lhs.add(id(y))
        reads = [x for x in walk(m_.body) if x['kind'] == 'MemberExpr' and x.get('name') == 'tracing' and cast.is_this_member(x) and id(x) not in lhs]
        sts_ = children(m_.body)
        if reads and len(sts_) == 1 and sts_[0]['kind'] == 'ReturnStmt' and children(sts_[0]) and \
                cast.strip(children(sts_[0])[0]) is reads[0]:
            reads = []          # a plain accessor: it does nothing itself
        key = m_.qname + ('(%d)' % len(m_.params) if m_.name == CLS.split('::')[-1] else '')
        rep.add('R2e', key, not reads, pos(m_.node) + ' ' + m_.qname,
                ('reads the trace flag at %s: what this function does (and whether it fails) then differs between a run with -t and one without'
                 % pos(reads[0])) if reads else 'does not read the trace flag', nontrivial=False)
    rep.rule('R2c', 'the trace functions cannot throw: every boost::format chain they evaluate is fed exactly as many operands as its '
             'format string has conversions (a mismatch raises too_few_args/too_many_args at run time and aborts the traced run)', floor=20)
    for nm in TRACE_FUNCS:
        f = idx.func(CLS + '::' + nm)
        for (where_, lit, need, got) in cast.format_arity(idx, f):
            rep.add('R2c', '%s::%s:format %r' % (CLS, nm, lit[:40]), need == got, where_ + ' ' + f.qname,
                    'format %r has %d conversions and is given %d operands' % (lit, need, got), nontrivial=False)
        throws = [x for x in walk(f.body) if x['kind'] == 'CXXThrowExpr']
        rep.add('R2c', '%s::%s:no-throw-expression' % (CLS, nm), not throws, pos(f.node) + ' ' + f.qname,
                'throw at %s' % pos(throws[0]) if throws else 'no throw expression', nontrivial=False)
    # calls that can throw (checked element access, string -> number conversions) inside the trace functions make a traced run end
    # where the untraced run goes on
    MAY_THROW = {'at', 'stoi', 'stol', 'stoul', 'stoull', 'substr', 'value'}
    for nm in TRACE_FUNCS:
        f = idx.func(CLS + '::' + nm)
        todo, seen, hits = [f], set(), []
        while todo:
            g = todo.pop()
            if g.id in seen or g.body is None:
                continue
            seen.add(g.id)
            for c in cast.calls_in(g.body):
                kind, name, did, obj = callee_of(c)
                if kind == 'method' and name in MAY_THROW and obj is not None and not idx.func_by_id.get(did):
                    hits.append('%s() at %s' % (name, pos(c)))
                h = idx.func_by_id.get(did) if did else None
                o = cast.strip(obj) if obj is not None else None
                if h is not None and o is not None and o['kind'] == 'CXXThisExpr':
                    todo.append(h if h.body is not None else getattr(h, 'defn', h))
        rep.add('R2c', '%s::%s:no-throwing-library-call' % (CLS, nm), not hits, pos(f.node) + ' ' + f.qname,
                ('the trace path calls %s, which throws on a value the untraced run handles (e.g. an address outside memory): only the traced '
                 'run aborts' % ', '.join(hits)) if hits else 'no checked access / conversion that can throw', nontrivial=False)
    # the symbol lookup reads debugInfo[0]: every call of it must be guarded by a non-empty test of the table
    lk = idx.func(CLS + '::lookupSymbol')
    needs_guard = any(x['kind'] == 'CXXOperatorCallExpr' and callee_of(x)[1] == 'operator[]' for x in walk(lk.body)) and not any(
        callee_of(c)[1] in ('empty', 'size') for c in cast.calls_in(children(lk.body)[0]) if True) if children(lk.body) else False
    for m_ in idx.record(CLS).methods:
        if m_.body is None:
            continue
        parents = {}
        for n_ in walk(m_.body):
            for c_ in children(n_):
                parents[id(c_)] = n_
        for c in cast.calls_in(m_.body):
            if callee_of(c)[1] != 'lookupSymbol' or callee_of(c)[2] != lk.id:
                continue
            guarded, unknown = False, False
            x = c
            while id(x) in parents:
                p_ = parents[id(x)]
                if p_['kind'] in ('IfStmt', 'ConditionalOperator') and children(p_)[0] is not x:
                    cc_ = children(p_)
                    pol = _nonempty_polarity(cc_[0], 'debugInfo')
                    in_then = len(cc_) > 1 and any(z is x for z in walk(cc_[1]))
                    in_else = len(cc_) > 2 and any(z is x for z in walk(cc_[2]))
                    if (pol is True and in_then) or (pol is False and in_else):
                        guarded = True
                        break
                    if pol == 'mentions':
                        unknown = True
                if p_['kind'] == 'BinaryOperator' and p_.get('opcode') == '&&' and children(p_)[1] is x and _nonempty_polarity(children(p_)[0], 'debugInfo') is True:
                    guarded = True
                    break
                x = p_
            if not guarded and unknown and needs_guard:
                rep.undecided('R2c', '%s::%s:lookupSymbol-guarded@%s' % (CLS, m_.name, pos(c).split(':')[-1]),
                              'the call is under a condition that mentions debugInfo in a shape this rule does not decide', pos(c) + ' ' + m_.qname)
                continue
            rep.add('R2c', '%s::%s:lookupSymbol-guarded@%s' % (CLS, m_.name, pos(c).split(':')[-1]), guarded or not needs_guard, pos(c) + ' ' + m_.qname,
                    'called under a test of debugInfo' if guarded else
                    ('lookupSymbol() indexes debugInfo[0] unconditionally and this call is not under a test that the table is non-empty: on a '
                     'binary without symbols (plain assembly) the run crashes here' if needs_guard else 'lookupSymbol tests the table itself'))
    rep.rule('R2d', 'no register, store, output or exit value of any instruction byte is computed from an uninitialised local variable', floor=240)
    hooks = StubTrace()
    for b in range(256):
        if (b >> 4) == 12:
            continue
        _, off, _ = simmodel.step_paths(idx, b, tracing=0, hooks=hooks)
        _, on, _ = simmodel.step_paths(idx, b, tracing=1, hooks=hooks)
        key = 'byte=0x%02X' % b

        def summ(leaves):
            d = {}
            for p, fl, rv in leaves:
                rec = (p.status, fl, tuple(sorted((k, repr(v)) for k, v in p.fields.items() if k not in ('tracing',))),
                       tuple(map(repr, p.stores)), tuple(repr(e) for e in p.events if e[0] != 'trace-call'))
                d[repr(p.pc)] = rec
            return d
        a, c = summ(off), summ(on)
        diffs = []
        for k in sorted(set(a) | set(c)):
            if a.get(k) != c.get(k):
                if k not in a or k not in c:
                    diffs.append('path %s exists only with tracing %s' % (k, 'off' if k in a else 'on'))
                else:
                    for (fa, fc, nm) in zip(a[k], c[k], ('status', 'flow', 'fields', 'stores', 'events')):
                        if fa != fc:
                            if nm == 'fields':
                                da, dc = dict(fa), dict(fc)
                                diffs.append('; '.join('%s: %s (off) vs %s (on)' % (x, da.get(x), dc.get(x)) for x in sorted(set(da) | set(dc)) if da.get(x) != dc.get(x)))
                            else:
                                diffs.append('%s differ: %s (off) vs %s (on)' % (nm, fa, fc))
        rep.add('R2b', key, not diffs, 'hexsim.hpp hexsim::Processor::run', ' | '.join(diffs)[:900] if diffs else
                '%d paths identical' % len(a))
        # R2d: nothing a step produces may be computed from a local variable that was never given a value
        ind = sorted({m for rec in a.values() for part in rec[2:] for m in re.findall(r'uninit:(\w+)', repr(part))})
        rep.add('R2d', key, not ind, 'hexsim.hpp hexsim::Processor::run / hexsimio.hpp',
                ('registers, stores or output of this step depend on the uninitialised local(s) %s on some path (e.g. a read() at end of input that '
                 'stores nothing leaves the target as it was): the run is not a function of binary, input and options' % ind) if ind else
                'no step effect depends on an uninitialised local', nontrivial=False)


def rule_loader_locals(rep, idx):
    rep.rule('R6', 'the loader never acts on a value it did not read: every local that hexsim::Processor::load fills through '
             'file.read(reinterpret_cast<char*>(&x), n) has an initialiser, or the state of the stream is tested directly after the read and '
             'before x is used -- on a missing, empty or truncated file the read stores nothing, and an uninitialised x (a size, a count) '
             'then steers the loader by whatever the stack held', floor=3)
    f = idx.func('hexsim::Processor::load')
    stmts = []

    def flat(n):
        for c in children(n):
            if c.get('kind') == 'CompoundStmt':
                flat(c)
            else:
                stmts.append(c)
                for g in children(c):
                    if g.get('kind') in ('CompoundStmt', 'ForStmt', 'WhileStmt', 'IfStmt', 'DoStmt'):
                        flat(g if g.get('kind') == 'CompoundStmt' else {'inner': [g]})
    flat(f.body)
    n_sites = 0
    seen_sites = set()
    for i, st in enumerate(stmts):
        for c in cast.calls_in(st):
            if callee_of(c)[1] != 'read' or len(cast.call_args(c)) != 2:
                continue
            tgt = cast.strip(cast.call_args(c)[0])
            while tgt.get('kind') in ('CXXReinterpretCastExpr', 'ImplicitCastExpr', 'CStyleCastExpr', 'ParenExpr') and children(tgt):
                tgt = cast.strip(children(tgt)[0])
            if not (tgt.get('kind') == 'UnaryOperator' and tgt.get('opcode') == '&'):
                continue
            vid = cast.decl_ref(children(tgt)[0])
            d = idx.by_id.get(vid) if vid else None
            if d is None or d.get('kind') != 'VarDecl':
                continue
            if (d.get('id'), pos(c)) in seen_sites:
                continue
            seen_sites.add((d.get('id'), pos(c)))
            n_sites += 1
            init = [k for k in children(d) if 'kind' in k]
            nxt = stmts[i + 1] if i + 1 < len(stmts) else None
            tested = nxt is not None and nxt.get('kind') == 'IfStmt' and any(
                callee_of(x)[1] in ('good', 'fail', 'bad', 'eof', 'operator!', 'operator bool', 'gcount') for x in cast.calls_in(children(nxt)[0]))
            ok = bool(init) or tested
            rep.add('R6', 'load:%s@%s' % (d.get('name'), pos(c).split(':')[-1]), ok, pos(c) + ' hexsim::Processor::load',
                    ('initialised' if init else 'stream state tested directly after the read') if ok else
                    '%s is declared without a value and filled by read(): on an empty, truncated or missing file it stays indeterminate and is '
                    'used (as a size / count / index) all the same -- two runs on the same file can differ' % d.get('name'))
    if n_sites == 0:
        rep.undecided('R6', 'load', 'no read() into a local found in the loader: shape not recognised', pos(f.node) + ' hexsim::Processor::load')


def rule_r3(rep):
    rep.rule('R3', 'no source of run-to-run nondeterminism (unordered/pointer-keyed containers, pointer->integer, streamed '
             'pointers, getenv, rand, time/clock, std::hash) and no mutable static state in hexsim/hex code and the hexsim/xrun '
             'drivers; the scanner must find every pattern in its positive-control fixture', floor=3)
    got = nondet.fixture_patterns()
    miss = nondet.EXPECT_FIXTURE - got
    if miss:
        raise AnalysisBroken('nondeterminism scanner misses fixture patterns: %s' % sorted(miss))
    rep.add('R3', 'fixture:positive-control', True, 'hexsa/fixtures/nondet.cpp', '%d patterns recognised' % len(got), nontrivial=False)
    for tu in ('hexsim.cpp', 'xrun.cpp'):
        idx = cast.load(tu)
        hits = nondet.scan(idx, ['hexsim', 'hex'], funcs={'main'})
        rep.add('R3', tu + ':no-nondeterminism-source', not hits, tu,
                '; '.join('%s in %s at %s' % (h[1], h[0], h[2]) for h in hits) or 'none found in hexsim::, hex::, main')
        rep.analysed(unit=tu)


def rule_r4(rep, idx):
    rep.rule('R4', 'the run loop is left only through the running flag or the cycle limit (its condition reads nothing else, in '
             'particular not the tracing flag) and run() then returns the exit-status member on every path', floor=2)
    f, loop, cond, stmts, pre, post = simmodel.run_loop_parts(idx)
    fields = sorted({x['name'] for x in walk(cond) if x['kind'] == 'MemberExpr' and cast.is_this_member(x)})
    ok = 'tracing' not in fields and 'running' in fields
    rep.add('R4', 'run:loop-condition', ok, pos(cond) + ' ' + f.qname, 'loop condition reads %s' % fields)
    rets = [r for r in walk(f.body) if r['kind'] == 'ReturnStmt']
    kinds = [(cast.member_ref(children(r)[0]) or (None,))[0] if children(r) else None for r in rets]
    if rets and any(k is None for k in kinds):
        rep.undecided('R4', 'run:returns-exit-status', 'run() returns an expression that is not a plain member: idiom not recognised', pos(rets[0]))
    else:
        good = bool(rets) and all(k == 'exitCode' for k in kinds)
        rep.add('R4', 'run:returns-exit-status', good, pos(rets[0]) + ' ' + f.qname if rets else pos(f.node),
                '%d return statement(s), all return the exitCode member' % len(rets) if good else 'run() returns member(s) %s, not exitCode' % kinds)
