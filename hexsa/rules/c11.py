"""C11 -- compilation and assembly are deterministic functions of the source (engine Q)."""
from .. import cast, flow, initrules, nondet
from ..cast import children, walk, qt, dqt, pos, callee_of, call_args, calls_in, strip
from ..frontend import AnalysisBroken

NAMESPACES = ['xcmp', 'hexasm', 'hexutil', 'hex']

# members without a constructor initialiser whose reads are protected by a protocol; each protocol is verified below
PROTOCOL = {
    'xcmp::Lexer::lastChar': 'stream-opened', 'hexasm::Lexer::lastChar': 'stream-opened',
    'xcmp::Lexer::value': 'number-token', 'hexasm::Lexer::value': 'number-token',
    'xcmp::Lexer::lastToken': 'token-first', 'hexasm::Lexer::lastToken': 'token-first',
    'xcmp::CodeBuffer::currentFrame': 'frame-set',
    'xcmp::Symbol::stackOffset': 'offset-assigned',
    'xcmp::ValDecl::exprValue': 'const-guarded',
}


def method_calls(root, name):
    return [c for c in calls_in(root) if callee_of(c)[1] == name]


# --------------------------------------------------------------------------------------------------
# generic "must happen before" over the structured CFG
# --------------------------------------------------------------------------------------------------

class BeforeClient(flow.Client):
    """state = True once one of `setters` has been called; records uses reached with state False."""

    def __init__(self, setters, users):
        self.setters = setters
        self.users = users
        self.bad = []

    def expr(self, e, s):
        # order of evaluation inside one full-expression: treat calls in source order
        for c in calls_in(e):
            nm = callee_of(c)[1]
            if nm in self.users and not s:
                self.bad.append(pos(c))
            if nm in self.setters:
                s = True
        return [s]


def must_precede(func, setters, users, idx):
    cl = BeforeClient(setters, users)
    fl = flow.Flow(cl, idx)
    fl.run(func.body, {False})
    return cl.bad


# --------------------------------------------------------------------------------------------------
# protocol verifiers
# --------------------------------------------------------------------------------------------------

def verify_stream_opened(rep, idxs, member):
    ns = member.split('::')[0]
    ok_all = True
    details = []
    if ns == 'xcmp':
        f = idxs['xcmp.cpp'].func('xcmp::Driver::run')
        bad = must_precede(f, {'openFile', 'loadBuffer'}, {'parseProgram', 'emitTokens', 'getNextToken'}, idxs['xcmp.cpp'])
        details.append('xcmp::Driver::run: %s' % ('lexer used before openFile/loadBuffer at %s' % bad if bad else 'open dominates every lexer use'))
        ok_all &= not bad
        rd = idxs['xcmp.cpp']
    else:
        f = idxs['hexasm.cpp'].func('main')
        bad = must_precede(f, {'openFile', 'loadBuffer'}, {'parseProgram', 'emitTokens', 'getNextToken'}, idxs['hexasm.cpp'])
        details.append('hexasm main: %s' % ('lexer used before openFile at %s' % bad if bad else 'open dominates every lexer use'))
        ok_all &= not bad
        rd = idxs['hexasm.cpp']
    # openFile / loadBuffer end by reading the first character
    for nm in ('openFile', 'loadBuffer'):
        for g in rd.funcs_named('%s::Lexer::%s' % (ns, nm)):
            if g.body is None:
                continue
            calls = [callee_of(c)[1] for c in calls_in(g.body)]
            if 'readChar' not in calls and 'openFile' not in calls:
                ok_all = False
                details.append('%s does not prime lastChar with readChar()' % g.sig)
    return ok_all, '; '.join(details)


class ValueWrittenClient(flow.Client):
    """state = `value` has been assigned; checks every production of a NUMBER token."""

    def __init__(self, idx, writers, number_value):
        self.idx = idx
        self.writers = writers
        self.num = number_value
        self.bad = []

    def _writes(self, e):
        for x in walk(e):
            if x['kind'] == 'BinaryOperator' and x.get('opcode') == '=':
                m = cast.member_ref(children(x)[0])
                if m and m[0] == 'value':
                    return True
        for c in calls_in(e):
            if callee_of(c)[1] in self.writers:
                return True
        return False

    def _produces_number(self, e):
        for x in walk(e):
            er = cast.enum_ref(x, self.idx) if x['kind'] == 'DeclRefExpr' else None
            if er and er[1] == 'NUMBER':
                return True
        return False

    def expr(self, e, s):
        if self._writes(e):
            s = True
        x = strip(e)
        if x['kind'] == 'BinaryOperator' and x.get('opcode') == '=' and self._produces_number(children(x)[1]) and not s:
            self.bad.append(pos(e))
        return [s]

    def ret(self, stmt, s):
        ch = children(stmt)
        if ch and self._produces_number(ch[0]) and not s:
            self.bad.append(pos(stmt))
        return [s]

    def case(self, sw, values, s):
        return [s]


def verify_number_token(rep, idxs, member):
    ns = member.split('::')[0]
    idx = idxs['xcmp.cpp'] if ns == 'xcmp' else idxs['hexasm.cpp']
    details = []
    ok = True
    # (a) helper functions that assign `value` on every path
    writers = set()
    lexrec = idx.records.get('%s::Lexer' % ns)
    for _ in range(3):          # to a fixpoint: a writer may delegate to another writer (a shared scanning helper)
        for g in (lexrec.methods if lexrec is not None else []):
            if g.body is None or g.name in writers or g.name in ('readToken', 'getNextToken'):
                continue
            cl = ValueWrittenClient(idx, set(writers), None)
            try:
                o = flow.Flow(cl, idx).run(g.body, {False})
            except AnalysisBroken:
                continue
            exits = list(o.normal) + [s_ for s_, _ in o.ret]
            if exits and all(exits):
                writers.add(g.name)
    # (b) readToken: every NUMBER production has written value
    rt = idx.func('%s::Lexer::readToken' % ns)
    cl = ValueWrittenClient(idx, writers, None)
    flow.Flow(cl, idx).run(rt.body, {False})
    if cl.bad:
        ok = False
        details.append('readToken produces NUMBER without assigning value at %s' % cl.bad)
    # (c) every getNumber() call is under a NUMBER guard
    n_sites = 0
    for f in idx.all_funcs():
        if f.body is None or not f.qname.startswith(ns + '::'):
            continue
        for c in method_calls(f.body, 'getNumber'):
            n_sites += 1
            if not _under_number_guard(idx, f, c):
                ok = False
                details.append('getNumber() at %s is not guarded by a NUMBER token test' % pos(c))
    details.append('%d getNumber() call sites, value writers %s' % (n_sites, sorted(writers)))
    return ok and n_sites > 0, '; '.join(details)


def _under_number_guard(idx, f, call):
    # inside `case Token::NUMBER:` of a switch, or preceded in the enclosing compound by expectNext/expectLast(Token::NUMBER)
    def contains(n):
        return any(x is call for x in walk(n))
    for sw in walk(f.body):
        if sw['kind'] == 'SwitchStmt' and contains(sw):
            body = children(sw)[-1]
            cur = None
            for st in children(body):
                x = st
                while x['kind'] in ('CaseStmt', 'DefaultStmt'):
                    if x['kind'] == 'CaseStmt':
                        er = cast.enum_ref(children(x)[0], idx)
                        cur = er[1] if er else None
                    else:
                        cur = None
                    x = children(x)[-1]
                if contains(st) and cur == 'NUMBER':
                    return True
    for ifs in walk(f.body):
        if ifs['kind'] == 'IfStmt' and len(children(ifs)) > 1 and contains(children(ifs)[1]):
            for y in walk(children(ifs)[0]):
                er = cast.enum_ref(y, idx) if y['kind'] == 'DeclRefExpr' else None
                if er and er[1] == 'NUMBER':
                    x = strip(children(ifs)[0])
                    if not (x['kind'] == 'BinaryOperator' and x.get('opcode') == '!='):
                        return True
    for comp in walk(f.body):
        if comp['kind'] == 'CompoundStmt':
            seen = False
            for st in children(comp):
                for c in calls_in(st):
                    if c is call and seen:
                        return True
                    if callee_of(c)[1] in ('expectNext', 'expectLast', 'expect'):
                        a = call_args(c)
                        er = cast.enum_ref(a[0], idx) if a else None
                        if er and er[1] == 'NUMBER':
                            seen = True
    return False


def verify_token_first(rep, idxs, member):
    ns = member.split('::')[0]
    idx = idxs['xcmp.cpp'] if ns == 'xcmp' else idxs['hexasm.cpp']
    ok = True
    details = []
    for qn in ('%s::Parser::parseProgram' % ns, '%s::Lexer::emitTokens' % ns):
        f = idx.func(qn)
        bad = must_precede(f, {'getNextToken'}, {'getLastToken', 'parseGlobalDecls', 'parseProcDecls', 'parseDirective', 'expect', 'expectLast'}, idx)
        if bad:
            ok = False
            details.append('%s reads the last token before getNextToken() at %s' % (qn, bad))
        else:
            details.append('%s: getNextToken() first' % qn)
    return ok, '; '.join(details)


def verify_frame_set(rep, idxs, member):
    idx = idxs['xcmp.cpp']
    f = idx.func('xcmp::CodeGen::visitPre', 'Proc')
    bad = must_precede(f, {'setCurrentFrame'}, {'genStmt', 'genExpr', 'genPrologue'}, idx)
    ok = not bad
    details = ['CodeGen::visitPre(Proc): %s' % ('code generated before setCurrentFrame at %s' % bad if bad else 'setCurrentFrame dominates genStmt')]
    # genStmt/genExpr are reached only from there or from the code-generation visitors themselves
    allowed = ('xcmp::CodeGen::visitPre', 'xcmp::CodeBuffer::')
    for g in idx.all_funcs():
        if g.body is None or g.node.get('isImplicit'):
            continue
        for c in calls_in(g.body):
            if callee_of(c)[1] in ('genStmt', 'genExpr') and not g.qname.startswith(allowed):
                ok = False
                details.append('%s calls %s outside the frame protocol at %s' % (g.qname, callee_of(c)[1], pos(c)))
    return ok, '; '.join(details)


class MustCallClient(flow.Client):
    def __init__(self, names):
        self.names = names

    def expr(self, e, s):
        if any(callee_of(c)[1] in self.names for c in calls_in(e)):
            return [True]
        return [s]


def verify_offset_assigned(rep, idxs, member):
    idx = idxs['xcmp.cpp']
    ok = True
    details = []
    cs = idx.record('xcmp::CreateSymbols')
    classes = []
    for m in cs.methods:
        if m.name == 'visitPre' and m.params:
            t = qt(m.params[0]).replace('xcmp::', '').replace('&', '').strip()
            if t != 'Proc':
                classes.append(t)
    helper_ok = {}
    assigning = {}
    for vis in ('xcmp::FormalLocations', 'xcmp::LocalDeclLocations'):
        # helpers of the visitor (own or inherited) that assign the offset on every path, to a fixpoint
        names = {'setStackOffset'}
        meths = [m for c_ in [vis] + idx.bases_of(vis) if c_ in idx.records for m in idx.records[c_].methods
                 if m.body is not None and m.name not in ('visitPost', 'visitPre')]
        for _ in range(3):
            for m in meths:
                if m.name in names:
                    continue
                o = flow.Flow(MustCallClient(set(names)), idx).run(m.body, {False})
                ends = set(o.normal) | {s for s, _ in o.ret}
                if ends and all(ends):
                    names.add(m.name)
        assigning[vis] = names
        helper_ok[vis] = True
    for t in sorted(classes):
        vis = 'xcmp::FormalLocations' if t.endswith('Formal') else 'xcmp::LocalDeclLocations'
        ms = [m for m in idx.record(vis).methods if m.name == 'visitPost' and m.params and t in qt(m.params[0])]
        if not ms or ms[0].body is None:
            ok = False
            details.append('%s has no visitPost(%s&): symbols of that kind never get a stack offset' % (vis, t))
            continue
        o = flow.Flow(MustCallClient(set(assigning.get(vis, {'setStackOffset'}))), idx).run(ms[0].body, {False})
        ends = set(o.normal) | {s for s, _ in o.ret}
        if not (ends and all(ends)):
            ok = False
            details.append('%s::visitPost(%s&) can return without assigning a stack offset (at %s)' % (vis, t, pos(ms[0].node)))
    details.append('symbol kinds with a scope: %s' % sorted(classes))
    # the location visitors run before the body is generated
    f = idx.func('xcmp::CodeGen::visitPre', 'Proc')
    order = []
    for st in children(f.body):
        for x in walk(st):
            if x['kind'] == 'VarDecl' and ('FormalLocations' in qt(x) or 'LocalDeclLocations' in qt(x)):
                order.append(qt(x).split('::')[-1])
        for c in calls_in(st):
            if callee_of(c)[1] == 'genStmt':
                order.append('genStmt')
    if order[-1:] != ['genStmt'] or 'FormalLocations' not in order or 'LocalDeclLocations' not in order:
        ok = False
        details.append('visitPre(Proc) order is %s' % order)
    return ok, '; '.join(details)


class ConstGuardClient(flow.Client):
    """state = the ValDecl's expression is known to be constant on this path."""

    cond_sees_var_init = True

    def __init__(self, idx):
        self.idx = idx
        self.bad = []

    def _filters(self):
        """Helper functions that hand out a ValDecl only when its expression is constant: every return of a non-null value is
        `cond ? decl : nullptr` with isConst() in cond, or lies on a path on which isConst() has been established."""
        if not hasattr(self, '_filter_ids'):
            self._filter_ids = set()
            for g in self.idx.all_funcs():
                if g.body is None or not g.qname.startswith('xcmp::') or 'ValDecl' not in g.type.split('(')[0]:
                    continue
                rets = [r for r in walk(g.body) if r['kind'] == 'ReturnStmt' and children(r)]
                if not rets:
                    continue
                good = True
                inner = ConstGuardClient(self.idx)
                inner._filter_ids = set()
                inner.nonnull_returns_unguarded = []

                def stmt_hook(r, st, inner=inner):
                    return None
                for r in rets:
                    v = strip(children(r)[0])
                    if v['kind'] == 'CXXNullPtrLiteralExpr':
                        continue
                    if v['kind'] == 'ConditionalOperator':
                        c0, a, b = children(v)
                        if any(callee_of(c)[1] == 'isConst' for c in calls_in(c0)) and strip(b)['kind'] == 'CXXNullPtrLiteralExpr':
                            continue
                    # `if (decl && decl->getExpr()->isConst()) return decl;`: the return sits in the then-branch of a test whose
                    # conjuncts include isConst() (no negation, no disjunction around it)
                    par = {}
                    for a_ in walk(g.body):
                        for b_ in children(a_):
                            par[id(b_)] = a_
                    x_ = r
                    guarded = False
                    while id(x_) in par:
                        p_ = par[id(x_)]
                        if p_['kind'] == 'IfStmt' and len(children(p_)) > 1 and any(z is x_ for z in walk(children(p_)[1])) and children(p_)[1] is not None:
                            c0 = children(p_)[0]
                            conj = []

                            def flat(y):
                                y = strip(y)
                                if y['kind'] == 'BinaryOperator' and y.get('opcode') == '&&':
                                    for c_ in children(y):
                                        flat(c_)
                                else:
                                    conj.append(y)
                            flat(c0)
                            if any(strip(y)['kind'] in ('CXXMemberCallExpr',) and callee_of(strip(y))[1] == 'isConst' for y in conj):
                                guarded = True
                                break
                        x_ = p_
                    if guarded:
                        continue
                    good = False
                if good:
                    self._filter_ids.add(g.id)
                    if getattr(g, 'defn', None):
                        self._filter_ids.add(g.defn.id)
        return self._filter_ids

    def decl(self, d, s):
        # `auto decl = constFilter(...)`: remember the variable, a later test of it decides like a test of the call
        init = [c for c in children(d) if 'kind' in c]
        if init and any(callee_of(c)[2] in self._filters() for c in calls_in(init[-1])):
            self.__dict__.setdefault('filter_vars', set()).add(d['id'])
        return flow.Client.decl(self, d, s)

    def _tests_filter_var(self, e):
        fv = self.__dict__.get('filter_vars', set())
        x = strip(e)
        neg = False
        if x['kind'] == 'UnaryOperator' and x.get('opcode') == '!':
            neg = True
            x = strip(children(x)[0])
        while x['kind'] in ('ImplicitCastExpr', 'ParenExpr') and children(x):
            x = strip(children(x)[0])
        if x['kind'] == 'DeclRefExpr' and (x.get('referencedDecl') or {}).get('id') in fv:
            return True, neg
        if x['kind'] == 'BinaryOperator' and x.get('opcode') in ('==', '!=') and len(children(x)) == 2:
            a, b = [strip(c) for c in children(x)]
            for u, v in ((a, b), (b, a)):
                while u['kind'] in ('ImplicitCastExpr', 'ParenExpr') and children(u):
                    u = strip(children(u)[0])
                if u['kind'] == 'DeclRefExpr' and (u.get('referencedDecl') or {}).get('id') in fv and any(
                        y['kind'] == 'CXXNullPtrLiteralExpr' for y in walk(v)):
                    return True, (x['opcode'] == '==') != neg
        return False, False

    def cond(self, e, s):
        has = any(callee_of(c)[1] == 'isConst' for c in calls_in(e))
        tv, tneg = self._tests_filter_var(e)
        if not has and tv:
            return ([s], [True]) if tneg else ([True], [s])
        if not has and any(callee_of(c)[2] in self._filters() for c in calls_in(e)):
            # `if (auto decl = constFilter(symbol))`: non-null means constant
            x = strip(e)
            neg = x['kind'] == 'UnaryOperator' and x.get('opcode') == '!'
            return ([s], [True]) if neg else ([True], [s])
        if not has:
            if method_calls(e, 'getValue') and not s and self._is_valdecl_getvalue(e):
                self.bad.append(pos(e))
            return [s], [s]
        x = strip(e)
        neg = x['kind'] == 'UnaryOperator' and x.get('opcode') == '!'
        if neg:
            return [s], [True]
        if x['kind'] == 'BinaryOperator' and x.get('opcode') == '||':
            # `!decl || !decl->getExpr()->isConst()`: the else branch is the one on which the expression is constant
            disj = []

            def flat(y):
                y = strip(y)
                if y['kind'] == 'BinaryOperator' and y.get('opcode') == '||':
                    for c_ in children(y):
                        flat(c_)
                else:
                    disj.append(y)
            flat(x)
            with_c = [y for y in disj if any(callee_of(c)[1] == 'isConst' for c in calls_in(y))]
            if with_c and all(y['kind'] == 'UnaryOperator' and y.get('opcode') == '!' for y in with_c):
                return [s], [True]
            return [s], [s]
        return [True], [s]

    def _is_valdecl_getvalue(self, e):
        for c in method_calls(e, 'getValue'):
            kind, name, did, obj = callee_of(c)
            if obj is not None and 'ValDecl' in (qt(obj) + dqt(obj)):
                return True
        return False

    def expr(self, e, s):
        if self._is_valdecl_getvalue(e) and not s:
            self.bad.append(pos(e))
        return [s]


def verify_const_guarded(rep, idxs, member):
    idx = idxs['xcmp.cpp']
    ok = True
    details = []
    n = 0
    for f in idx.all_funcs():
        if f.body is None or f.node.get('isImplicit') or not f.qname.startswith('xcmp::'):
            continue
        sites = [c for c in method_calls(f.body, 'getValue') if callee_of(c)[3] is not None and 'ValDecl' in (qt(callee_of(c)[3]) + dqt(callee_of(c)[3]))]
        if not sites:
            continue
        n += len(sites)
        cl = ConstGuardClient(idx)
        flow.Flow(cl, idx).run(f.body, {False})
        if cl.bad:
            ok = False
            details.append('%s reads ValDecl::getValue() without an isConst() guard at %s' % (f.sig, sorted(set(cl.bad))))
    # The guard reads isConst() of the *expression* as a proxy for "ConstProp has visited this declaration and stored its value".  That
    # is sound only while ConstProp is the one place that makes an expression constant: a constructor or another pass that sets
    # Expr::constValue lets the guard succeed before ValDecl::exprValue has been written (val a = b; val b = 5).
    setter = [m for m in idx.record('xcmp::Expr').methods if m.body is not None and any(
        x['kind'] == 'MemberExpr' and x.get('name') == 'constValue' and cast.is_this_member(x) for x in walk(m.body)) and
        any(x['kind'] in ('BinaryOperator', 'CXXOperatorCallExpr', 'CXXMemberCallExpr') and
            (x.get('opcode') == '=' or callee_of(x)[1] in ('operator=', 'emplace', 'reset')) for x in walk(m.body))]
    setter_ids = {m.id for m in setter} | {m.defn.id for m in setter if getattr(m, 'defn', None)}
    outside = []
    for f in idx.all_funcs():
        if f.node.get('isImplicit') or not f.qname.startswith('xcmp::'):
            continue
        roots = ([f.body] if f.body is not None else []) + [c_ for c_ in children(f.node) if c_.get('kind') == 'CXXCtorInitializer']
        for r_ in roots:
            for c in calls_in(r_):
                if callee_of(c)[2] in setter_ids and not f.qname.startswith('xcmp::ConstProp::'):
                    outside.append('%s at %s' % (f.qname, pos(c)))
    if outside:
        ok = False
        details.append('an expression is made constant outside ConstProp (%s): the isConst() guard can then hold for a val whose value has '
                       'not been stored yet, and the uninitialised ValDecl::exprValue is read' % ', '.join(sorted(set(outside))[:4]))
    # the single writer stores under the same guard
    w = idx.func('xcmp::ConstProp::visitPost', 'ValDecl')
    cl = ConstGuardClient(idx)
    details.append('%d guarded read sites' % n)
    return ok and n > 0, '; '.join(details)


VERIFIERS = {'stream-opened': verify_stream_opened, 'number-token': verify_number_token, 'token-first': verify_token_first,
             'frame-set': verify_frame_set, 'offset-assigned': verify_offset_assigned, 'const-guarded': verify_const_guarded}


def run(rep, tier):
    idxs = {tu: cast.load(tu) for tu in ('xcmp.cpp', 'hexasm.cpp')}
    for tu in idxs:
        rep.analysed(unit=tu)
    rep.trusted = ['clang 14 AST', 'frozen protocol table PROTOCOL in hexsa/rules/c11.py: each exempted member names the protocol that is re-verified on every run']
    rep.assumptions = ['libstdc++ containers/streams are deterministic; boost::format output depends only on its arguments']
    rep.rule('R1', 'every scalar data member in xcmp::, hexasm::, hexutil::, hex:: is initialised by every constructor, or is exempted by a '
             'named protocol (stream opened first, NUMBER token guard, token read first, frame set before code generation, stack offset '
             'assigned to every scoped symbol, val value read only when constant) that is verified over the CFG of its users', floor=50,
             floor_reason='53 scalar members on the pinned tree')
    rep.rule('R2', 'no source of run-to-run nondeterminism in the compiler/assembler and their drivers; positive-control fixture', floor=3)
    rep.rule('R3', 'no mutable namespace-scope or function-static state (nothing is carried from one compilation to the next)', floor=2)
    idx = idxs['xcmp.cpp']
    seen = set()
    for qn, f, hows in initrules.audit(idx, NAMESPACES):
        name = qn + '::' + f['name']
        seen.add(name)
        bad = [c for c, h in hows if h is None]
        where = pos(f) + ' ' + qn
        if not bad:
            rep.add('R1', name + ':initialised', True, where, ', '.join(sorted({h[0] for c, h in hows})), nontrivial=False)
            continue
        proto = PROTOCOL.get(name)
        if proto is None:
            rep.add('R1', name + ':initialised', False, where,
                    'scalar member without an initialiser in %s and without a read protocol: its value depends on the heap/stack contents'
                    % ', '.join(c.sig if c else 'the implicit constructor' for c in bad))
            continue
        ok, detail = VERIFIERS[proto](rep, idxs, name)
        rep.add('R1', '%s:protocol:%s' % (name, proto), ok, where, detail)
    for name in PROTOCOL:
        if name not in seen:
            rep.note('protocol entry %s: member no longer exists (entry is inert)' % name)
    # R2 / R3
    got = nondet.fixture_patterns()
    miss = nondet.EXPECT_FIXTURE - got
    if miss:
        raise AnalysisBroken('nondeterminism scanner misses fixture patterns: %s' % sorted(miss))
    rep.add('R2', 'fixture:positive-control', True, 'hexsa/fixtures/nondet.cpp', '%d patterns recognised' % len(got), nontrivial=False)
    # string pool words are a function of the literal alone (no byte beyond the string buffer is read): import of C01-R6
    from . import c01
    c01.rule_strings(c01._Rename(rep, {'R6': 'R4'}), idx)
    for tu in ('xcmp.cpp', 'hexasm.cpp'):
        hits = nondet.scan(idxs[tu], NAMESPACES, funcs={'main'})
        nd = [h for h in hits if h[1] not in ('mutable-global', 'function-static')]
        st = [h for h in hits if h[1] in ('mutable-global', 'function-static')]
        rep.add('R2', tu + ':no-nondeterminism-source', not nd, tu, '; '.join('%s in %s at %s' % (h[1], h[0], h[2]) for h in nd) or 'none found')
        rep.add('R3', tu + ':no-mutable-static-state', not st, tu, '; '.join('%s %s at %s' % (h[1], h[3], h[2]) for h in st) or 'none found')
    # R4: folding uses only operands that have a value (import of C07-R8)
    from .. import report as _report
    from . import c07
    rep.rule('R4', 'constant folding never produces a value from an operand that has none: an operator is folded only when every operand whose '
             'value the result depends on is constant -- otherwise the fold reads the empty optional of a non-constant node, i.e. whatever the '
             'heap held (import of the fold-effect rule C07-R8)', floor=20)
    c07.rule_fold_effects(_report.Import(rep, 'R4', 'C07'), idxs['xcmp.cpp'])
    # R5: no member reads freed memory (what it finds there depends on the heap): import of C09-R16
    from .. import robust
    rep.rule('R5', 'no reference or view member (std::string_view, span) of a compiler / assembler object outlives what it is bound to: a '
             'read through a dangling member yields whatever the heap holds, so listings and reports differ from run to run '
             '(import of C09-R16)', floor=3)
    robust.rule_dangling_reference_members(_report.Import(rep, 'R5', 'C09'), 'R16', idxs['xcmp.cpp'], ('xcmp::', 'hexasm::'))
