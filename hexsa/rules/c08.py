"""C08 -- generated code stays inside its memory regions and balances the stack (engines I + Q)."""
import itertools
from .. import cast, ivinterp, xmodel
from ..ivinterp import IV, Obj, Vec, const, NeedSplit, Thrown, aff_add, aff_eq, aff_str
from ..frontend import AnalysisBroken
from ..cast import children, pos, walk, callee_of, qt, dqt
from . import c01


# --------------------------------------------------------------------------------------------------
# a tiny Hex executor over affine values, for straight-line lowered templates
# --------------------------------------------------------------------------------------------------

class AffMachine:
    """Registers and memory hold affine forms over named symbols (or None = unknown).  Memory is keyed by the
    affine address.  Only the instructions that occur in prologue/epilogue/stub templates are needed."""

    def __init__(self, mem=None):
        self.A = ({'A0': 1}, 0)
        self.B = ({'B0': 1}, 0)
        self.mem = dict(mem or {})
        self.stores = []
        self.pc_target = None
        self.svc = False

    @staticmethod
    def key(a):
        return (tuple(sorted(a[0].items())), a[1])

    def load(self, addr):
        if addr is None:
            return None
        return self.mem.get(self.key(addr), ({'M[%s]' % aff_str(addr): 1}, 0))

    def store(self, addr, val):
        self.stores.append((addr, val))
        if addr is not None:
            self.mem[self.key(addr)] = val

    def step(self, tok, operand):
        c = ({}, operand) if isinstance(operand, int) else operand
        add = lambda x, y: aff_add(x, y) if (x is not None and y is not None) else None
        if tok == 'LDAM':
            self.A = self.load(c)
        elif tok == 'LDBM':
            self.B = self.load(c)
        elif tok == 'STAM':
            self.store(c, self.A)
        elif tok == 'LDAC':
            self.A = c
        elif tok == 'LDBC':
            self.B = c
        elif tok == 'LDAI':
            self.A = self.load(add(self.A, c))
        elif tok == 'LDBI':
            self.B = self.load(add(self.B, c))
        elif tok == 'STAI':
            self.store(add(self.B, c), self.A)
        elif tok == 'ADD':
            self.A = add(self.A, self.B)
        elif tok == 'SUB':
            self.A = aff_add(self.A, self.B, -1) if (self.A is not None and self.B is not None) else None
        elif tok == 'BRB':
            self.pc_target = self.B
        elif tok == 'SVC':
            self.svc = True
        else:
            raise AnalysisBroken('affine executor: unexpected instruction %s' % tok)


def run_template(idx, directives, M):
    atok = idx.enum('hexasm::Token')
    r = {v: k for k, v in atok.items()}
    for d in directives:
        if d.cls in ('hexasm::Func', 'hexasm::Proc', 'hexasm::Label'):
            continue
        tk = r.get(d.fields['token'].lo)
        if d.cls == 'hexasm::InstrOp':
            M.step(r.get(d.fields['opcode'].lo), 0)
            continue
        if d.cls == 'hexasm::InstrImm':
            v = d.fields['immValue']
            if isinstance(v, IV) and v.aff is not None:
                M.step(tk, v.aff)
            else:
                raise AnalysisBroken('operand of %s is not affine: %r' % (tk, v))
            continue
        raise AnalysisBroken('affine executor: unexpected directive %s' % d.cls)


# --------------------------------------------------------------------------------------------------

def lower(idx, X, items, globals_offset=None):
    """Interpret xcmp::LowerDirectives' constructor on a list of intermediate directives; returns the lowered list."""
    I = X.I
    rec = idx.record('xcmp::LowerDirectives')
    ctor = [c for c in rec.ctors if not c.node.get('isImplicit') and c.body is not None][0]
    cbsrc = I.construct('xcmp::CodeBuffer', [Obj('xcmp::SymbolTable', {}, 'st')])
    X.fix_containers(cbsrc)
    cbsrc.fields['instrs'] = Vec(items)
    cg = Obj('xcmp::CodeGen', {'cb': cbsrc, 'globalsOffset': globals_offset if globals_offset is not None else const(64, False, 0)}, 'cg')
    obj = Obj('xcmp::LowerDirectives', {}, 'lower')
    out = I.construct('xcmp::CodeBuffer', [Obj('xcmp::SymbolTable', {}, 'st')])
    X.fix_containers(out)
    obj.fields['cb'] = out
    env = {'this': obj, 'locals': {}}
    for prm in ctor.params:
        env['locals'][prm['id']] = cg if 'CodeGen' in qt(prm) else Obj('xcmp::SymbolTable', {}, 'st')
    try:
        I.stmt(ctor.body, env)
    except ivinterp._Return:
        pass
    return out.fields['instrs'].items


def rule_frames(rep, idx):
    rep.rule('R1', 'stack-pointer symmetry: for procedures and functions with frame size S (S = 0 and S > 0) the lowered prologue saves the '
             'link at the caller\'s sp[0] and sets sp := sp - S, the epilogue restores sp exactly, returns through the saved link and (functions) '
             'leaves the result at the caller\'s sp[1]; formal i of the callee and actual i of the caller are the same memory word', floor=7)
    stype = idx.enum('xcmp::SymbolType')
    where = 'xcmp.hpp xcmp::LowerDirectives'
    for kind in ('FUNC', 'PROC'):
        for size_case in ('zero', 'positive'):
            X = xmodel.XModel(idx, c01.CodeGenModel(idx).hooks)
            I = X.I
            frame = xmodel.make_frame(I, idx, '_exitlab')
            frame.fields['offset'] = const(64, False, 0)
            frame.fields['size'] = const(64, False, 0) if size_case == 'zero' else I.sym('S', 64, False, 1, 1 << 16)
            sym = I.construct('xcmp::Symbol', [const(32, True, stype[kind]), None, ('str', ''), ('str', 'f')])
            sym.fields['frame'] = frame
            pro = I.construct('xcmp::Prologue', [sym])
            epi = I.construct('xcmp::Epilogue', [sym])
            key = '%s:frame-size-%s' % (kind, size_case)
            try:
                low_pro = lower(idx, X, [pro])
                low_epi = lower(idx, X, [epi])
            except Thrown as e:
                rep.add('R1', key, False, where, 'lowering fails: %s' % e.what)
                continue
            except NeedSplit as e:
                rep.undecided('R1', key, 'lowering not uniform: %s' % e, where)
                continue
            S = frame.fields['size'].aff
            SP0 = ({'SP0': 1}, 0)
            M = AffMachine({AffMachine.key(({}, 1)): SP0})
            M.A = ({'LINK': 1}, 0)
            problems = []
            try:
                run_template(idx, low_pro, M)
                sp1 = M.mem.get(AffMachine.key(({}, 1)))
                if not aff_eq(sp1, aff_add(SP0, S, -1)):
                    problems.append('after the prologue sp = %s, expected SP0 - S' % aff_str(sp1))
                if not aff_eq(M.mem.get(AffMachine.key(SP0)), ({'LINK': 1}, 0)):
                    problems.append('the link is not saved at the caller\'s sp[0]')
                # body: result in areg
                M.A = ({'RESULT': 1}, 0)
                M.B = ({'Bx': 1}, 0)
                run_template(idx, low_epi, M)
                sp2 = M.mem.get(AffMachine.key(({}, 1)))
                if not aff_eq(sp2, SP0):
                    problems.append('after the epilogue sp = %s, expected the value before the call (SP0)' % aff_str(sp2))
                if not aff_eq(M.pc_target, ({'LINK': 1}, 0)):
                    problems.append('the epilogue returns to %s, not to the saved link' % aff_str(M.pc_target))
                if kind == 'FUNC' and not aff_eq(M.mem.get(AffMachine.key(aff_add(SP0, ({}, 1)))), ({'RESULT': 1}, 0)):
                    problems.append('the function result is not stored at the caller\'s sp[1]')
                for a, v in M.stores:
                    if a is None:
                        problems.append('store to an unknown address')
            except AnalysisBroken as e:
                problems.append(str(e))
            rep.add('R1', key, not problems, where, '; '.join(problems) if problems else
                    'prologue %d / epilogue %d instructions: sp restored, link and result slots as the caller expects' % (len(low_pro), len(low_epi)))
    # caller/callee parameter slot agreement
    for kind, par in (('FUNC', 'FB_PARAM_OFFSET_FUNC'), ('PROC', 'FB_PARAM_OFFSET_PROC')):
        X = xmodel.XModel(idx)
        I = X.I
        P = cast.const_int({'kind': 'DeclRefExpr', 'referencedDecl': {'kind': 'VarDecl', 'id': idx.vars['xcmp::' + par]['id']}, 'type': {'qualType': 'const int'}}, idx)
        # callee: FormalLocations starts at 1 + P, lowering turns frame-base offset o into sp-relative S - 1 + o, and sp = SP0 - S
        fl = idx.record('xcmp::FormalLocations')
        ctor = [c for c in fl.ctors if not c.node.get('isImplicit')][0]
        obj = I.construct('xcmp::FormalLocations', [Obj('st'), ('str', 'f'), None, const(1, False, 1 if kind == 'FUNC' else 0)])
        base = obj.fields.get('frameBaseOffset')
        ok = isinstance(base, IV) and base.concrete() and base.lo == 1 + P
        rep.add('R1', '%s:formal-slot-base' % kind, ok, pos(ctor.node) + ' xcmp::FormalLocations',
                'first formal at frame-base offset %r; the caller stores actual 0 at sp[%d], which the callee sees at frame-base offset %d' % (base, P, 1 + P))
    # lowering of frame-base-relative accesses: sp-relative offset = size - 1 + fb offset
    X = xmodel.XModel(idx, c01.CodeGenModel(idx).hooks)
    I = X.I
    frame = xmodel.make_frame(I, idx, '_x')
    frame.fields['size'] = I.sym('S', 64, False, 1, 1 << 16)
    atok = idx.enum('hexasm::Token')
    off = I.sym('O', 32, True, -64, 64)
    iso = I.construct('xcmp::InstrStackOffset', [const(32, True, atok['LDAI_FB']), frame, off])
    low = lower(idx, X, [iso])
    ok = len(low) == 1 and isinstance(low[0].fields.get('immValue'), IV) and aff_eq(low[0].fields['immValue'].aff, ({'S': 1, 'O': 1}, -1))
    rep.add('R1', 'frame-base-lowering', ok, where, 'frame-base offset O becomes sp-relative %s (expected S + O - 1)' % (
        aff_str(low[0].fields['immValue'].aff) if low and isinstance(low[0].fields.get('immValue'), IV) else '?'))


def rule_stub(rep, idx):
    rep.rule('R2', 'initial stack pointer and stub slots: with G words of global arrays the stack pointer word is initialised so that every '
             'word the entry/exit stub and `stop` touch (sp[0] .. sp[FB_PARAM_OFFSET_FUNC]) lies below the arrays and inside the '
             'machine\'s memory (hex::MAX_MEMORY_SIZE_WORDS = the simulator\'s array size)', floor=4)
    MAXW = cast.const_int(children(idx.vars['hex::MAX_MEMORY_SIZE_WORDS'])[-1], idx)
    X = xmodel.XModel(idx, c01.CodeGenModel(idx).hooks)
    I = X.I
    G = I.sym('G', 64, False, 0, 100000)
    sp = I.construct('xcmp::SPValue', [])
    low = lower(idx, X, [sp], G)
    where = 'xcmp.hpp xcmp::LowerDirectives (SP_VALUE) / xcmp::CodeGen::visitPre(Program&)'
    if not low or low[0].cls != 'hexasm::Data':
        rep.undecided('R2', 'sp-word', 'SP_VALUE is not lowered to a single DATA word: shape not recognised', where)
        return
    sp0 = low[0].fields['value']
    if not (isinstance(sp0, IV) and sp0.aff is not None):
        rep.undecided('R2', 'sp-word', 'initial stack pointer %r is not an affine function of the array space: not decided' % (sp0,), where)
        return
    # interpret the stub generated by CodeGen::visitPre(Program&) and StmtCodeGen::visitPost(StopStatement&)
    rep.add('R2', 'sp-word', sp0.aff[0] == {'G': -1}, where, 'initial stack pointer = %s with G words of arrays (memory has %d words)' % (aff_str(sp0.aff), MAXW))
    for what, getter in (('exit stub', lambda M: M.X.visit_pre(_cg_visitor(M), Obj('xcmp::Program', {}, 'program'))),
                         ('stop statement', lambda M: M.X.visit_post(M.stmt_visitor(), M.I.construct('xcmp::StopStatement', [None])))):
        M = c01.CodeGenModel(idx)
        try:
            getter(M)
        except Thrown as e:
            rep.add('R2', what, False, where, 'generating the %s fails: %s' % (what, e.what))
            continue
        except (NeedSplit, AnalysisBroken) as e:
            rep.undecided('R2', what, 'cannot derive the %s template: %s' % (what, e), where)
            continue
        acc = c01.slot_accesses(M)
        slots = [s[1][1] for s in acc if s[0] == 'store' and s[1][0] == 'sp' and isinstance(s[1][1], int)]
        top = max(slots) if slots else None
        if top is None:
            rep.undecided('R2', what, 'no stack-pointer-relative store found in the %s: shape not recognised' % what, where)
            continue
        # highest word touched = SP0 + top must be < MAX - G (below the arrays) hence < MAX
        hi = aff_add(sp0.aff, ({}, top))
        d = aff_add(({'G': -1}, MAXW), hi, -1)          # (MAX - G) - (SP0 + top)
        ok = not d[0] and d[1] >= 1
        rep.add('R2', what, ok, where,
                'the %s stores to sp[%d] = word %s; the first word that is not stack is MAX - G = %d - G%s' % (
                    what, top, aff_str(hi), MAXW, '' if ok else ': with G = 0 this is word %d, outside the %d-word memory' % (hi[1], MAXW)))
    # compiler and simulator agree on the memory size
    sim = cast.load('hexsim.cpp')
    arr = [f for f in sim.record('hexsim::Processor').fields if f['name'] == 'memory']
    m = cast.const_int(children(sim.vars['hex::MAX_MEMORY_SIZE_WORDS'])[-1], sim)
    rep.add('R2', 'memory-size-shared', m == MAXW and arr and 'MEMORY_SIZE_WORDS' in qt(arr[0]), 'hex.hpp hex::MAX_MEMORY_SIZE_WORDS',
            'compiler limit %d words, simulator array %s of %d words' % (MAXW, qt(arr[0]) if arr else '?', m), nontrivial=False)


def _cg_visitor(M):
    v = M.I.construct('xcmp::CodeGen', [M.st])
    v.fields['cb'] = M.cb
    v.fields.setdefault('exprReplacement', None)
    return v


def rule_outgoing(rep, idx):
    rep.rule('R3', 'every call, system call and `stop` sequence leaves the frame at least as large as the highest outgoing word it stores '
             '(sp[k]) requires at that point, so the store stays inside the caller\'s own frame', floor=9)
    act_kinds = ('var', 'call', 'op')
    for callkind, mk in (('func', lambda M, a: M.X.call('fn_a', a)), ('proc', lambda M, a: M.X.call('pr_a', a)),
                         ('syscall exit', lambda M, a: M.X.syscall(0, a)), ('syscall write', lambda M, a: M.X.syscall(1, a)),
                         ('syscall read', lambda M, a: M.X.syscall(2, a))):
        for kinds in (('var',), ('var', 'op'), ('call', 'var')):
            M = c01.CodeGenModel(idx, 'A')
            for n in ('a', 'b', 'c', "a'", "b'", "c'"):
                M.symbol(n, 'VAR', 'f')
            for n in ('fn_a', 'fn_b'):
                M.symbol(n, 'FUNC', '')
            M.symbol('pr_a', 'PROC', '')
            ok_ = dict(c01.operand_kinds(M))
            node = mk(M, [ok_[k](n) for k, n in zip(kinds, ('a', 'b', 'c'))])
            key = '%s(%s)' % (callkind, ','.join(kinds))
            where = 'xcmp.hpp xcmp::CodeBuffer::gen*Call'
            f0 = M.frame.fields['offset'].aff
            try:
                M.X.visit_post(M.expr_visitor('A'), node)
            except Thrown as e:
                rep.add('R3', key, False, where, 'code generation fails: %s' % e.what)
                continue
            except NeedSplit as e:
                rep.undecided('R3', key, 'not uniform: %s' % e, where)
                continue
            acc = c01.slot_accesses(M)
            slots = [s[1][1] for s in acc if s[0] == 'store' and s[1][0] == 'sp' and isinstance(s[1][1], int)]
            top = max(slots) if slots else 0
            size = M.frame.fields['size']
            lbs = size.lbs or ([size.aff] if size.aff else [])
            # the frame must cover offset-at-call + (top + 1) words; the exit call never returns, so it may overwrite the caller's
            # frame, but must stay within the FB_PARAM_OFFSET_FUNC words of headroom above the initial stack pointer
            need = top + 1
            if callkind == 'syscall exit':
                need = max(0, top - 2)
            ok = need == 0
            best = None
            for lb in lbs:
                if lb is None:
                    continue
                d = aff_add(lb, f0, -1)
                if not [k for k in d[0] if not k.startswith('D')] and d[1] >= need and all(c >= 0 for c in d[0].values()):
                    ok = True
                if not d[0]:
                    best = d[1] if best is None else max(best, d[1])
            rep.add('R3', key, ok, where,
                    'stores up to sp[%d]; frame size is guaranteed to exceed the frame offset at the call by %s word(s)' % (top, best)
                    if not ok else 'stores up to sp[%d], %s words reserved beyond the frame offset' % (top, best))


def rule_arrays(rep, idx):
    rep.rule('R4', 'global arrays are placed downwards from the top of memory: the i-th array starts at MAX - (sum of the sizes so far) and '
             'the stack pointer word accounts for all of them', floor=2)
    f = idx.func('xcmp::CodeGen::visitPost', 'ArrayDecl')
    M = c01.CodeGenModel(idx)
    MAXW = cast.const_int(children(idx.vars['hex::MAX_MEMORY_SIZE_WORDS'])[-1], idx)
    cg = _cg_visitor(M)
    cg.fields['globalsOffset'] = M.I.sym('G', 64, False, 0, 50000)
    cg.fields['scope'] = Vec([('str', '')])
    n = M.I.sym('N', 32, True, 1, 50000)
    e = M.X.num(0)
    e.fields['constValue'] = n
    decl = M.I.construct('xcmp::ArrayDecl', [None, ('str', 'arr'), e])
    M.symbol('arr', 'ARRAY', '')
    try:
        M.I.invoke(f, cg, [decl])
    except Thrown as ex:
        if str(ex.what).startswith('undefined behaviour'):
            # the visitor object was assembled by the model, not by a traversal: an empty scope stack etc. is the model's doing
            rep.undecided('R4', 'array-address', 'the model of the visitor state does not fit this code: %s' % ex.what, pos(f.node) + ' ' + f.qname)
            return
        rep.add('R4', 'array-address', False, pos(f.node) + ' ' + f.qname, 'fails: %s' % ex.what)
        return
    except NeedSplit as ex:
        rep.undecided('R4', 'array-address', 'not uniform: %s' % ex, pos(f.node) + ' ' + f.qname)
        return
    words = [d for d in M.data() if d.cls == 'hexasm::Data']
    addr = words[-1].fields['value'] if words else None
    ok = isinstance(addr, IV) and addr.aff is not None and aff_eq(addr.aff, ({'G': -1, 'N': -1}, MAXW))
    rep.add('R4', 'array-address', ok, pos(f.node) + ' ' + f.qname,
            'array of N words after G words of arrays is placed at %s (expected %d - G - N)' % (aff_str(addr.aff) if isinstance(addr, IV) else addr, MAXW))
    g2 = cg.fields['globalsOffset']
    rep.add('R4', 'globals-offset-accumulates', isinstance(g2, IV) and aff_eq(g2.aff, ({'G': 1, 'N': 1}, 0)), pos(f.node) + ' ' + f.qname,
            'globalsOffset becomes %s' % (aff_str(g2.aff) if isinstance(g2, IV) else g2))


def run(rep, tier):
    idx = cast.load('xcmp.cpp')
    rep.analysed(unit='xcmp.cpp')
    rep.trusted = ['clang 14 AST', 'interval/affine interpreter; a small affine executor of Hex instructions (ISA semantics restricted to the '
                   'instructions of prologue/epilogue templates)']
    rep.assumptions = ['NOT decided: every access of every execution, recursion depth against the stack budget, array index ranges; array '
                       'lengths that are negative or exceed memory are not range-checked by the compiler (outside the well-defined subset)']
    rule_frames(rep, idx)
    rule_stub(rep, idx)
    rule_outgoing(rep, idx)
    rule_peephole_base_register(rep, idx)
    rule_arrays(rep, idx)
    # the spill/outgoing-actual discipline of C01 is also what keeps stores inside the frame
    c01.rule_frames(c01._Rename(rep, {'R5': 'R5', 'R8': 'R6'}), idx)
    # R7: a user label that collides with a generated one sends a branch / call into the wrong code (import of C01-R4)
    c01.rule_labels(c01._Rename(rep, {'R4': 'R7'}), idx)
    # R8: an actual stored through a stale breg lands anywhere in memory (import of C01-R14)
    c01.rule_call_registers(c01._Rename(rep, {'R14': 'R8'}), idx)
    # R9: an evaluation the source guarded with `and` / `or` (typically a subscript) must stay guarded (import of C07-R10)
    from . import c07
    c07.rule_rewrite_evaluations(c01._Rename(rep, {'R10': 'R9'}), idx)
    # R10: array elements are addressed as base + index (import of C01-R16: a mis-folded subscript reaches beyond the array)
    c01.rule_subscripts(c01._Rename(rep, {'R16': 'R10'}), idx)


def optimise(idx, X, items):
    """Interpret xcmp::OptimiseDirectives' constructor on a list of lowered directives; returns (optimised list, UB events)."""
    I = X.I
    rec = idx.record('xcmp::OptimiseDirectives')
    ctor = [c for c in rec.ctors if not c.node.get('isImplicit') and c.body is not None][0]
    prev = I.construct('xcmp::CodeBuffer', [Obj('xcmp::SymbolTable', {}, 'st')])
    X.fix_containers(prev)
    prev.fields['instrs'] = Vec(list(items))
    out = I.construct('xcmp::CodeBuffer', [Obj('xcmp::SymbolTable', {}, 'st')])
    X.fix_containers(out)
    obj = Obj('xcmp::OptimiseDirectives', {'instrs': prev.fields['instrs'], 'cb': out}, 'optimise')
    env = {'this': obj, 'locals': {}}
    for prm in ctor.params:
        env['locals'][prm['id']] = prev if 'CodeBuffer' in qt(prm) else Obj('xcmp::SymbolTable', {}, 'st')
    try:
        I.stmt(ctor.body, env)
    except ivinterp._Return:
        pass
    return out.fields['instrs'].items, list(I.ub)


def rule_peephole_base_register(rep, idx, rid='R11'):
    rep.rule(rid, 'the directive peephole pass keeps the base register of stack stores established: after OptimiseDirectives, on directive '
             'streams with and without labels, every STAI k that stored through a freshly loaded stack pointer (LDBM 1) still has an LDBM 1 '
             'in front of it with no label, branch or write to breg in between -- a label is a join point, what breg holds there is not '
             'known (a stop or return after an if whose branch is not taken would store through a stale breg)', floor=3)
    toks = idx.enum('hexasm::Token')
    rtok = {v: k for k, v in toks.items()}
    where = 'xcmp.hpp xcmp::OptimiseDirectives'

    def mk(X, spec):
        out = []
        for it in spec:
            if it[0] == 'label':
                out.append(X.I.construct('hexasm::Label', [const(32, True, toks['IDENTIFIER']), ('str', it[1])]))
            elif it[0] == 'br':
                out.append(X.I.construct('hexasm::InstrLabel', [const(32, True, toks[it[1]]), ('str', it[2]), const(1, False, 1)]))
            elif it[0] == 'opr':
                out.append(X.I.construct('hexasm::InstrOp', [const(32, True, toks['OPR']), const(32, True, toks[it[1]])]))
            else:
                out.append(X.I.construct('hexasm::InstrImm', [const(32, True, toks[it[0]]), const(32, True, it[1])]))
        return out
    streams = {
        'store; label; store': [('LDBM', 1), ('STAI', 3), ('label', 'lab7'), ('LDBM', 1), ('STAI', 2)],
        'store; load constant; store (straight line)': [('LDAC', 1), ('LDBM', 1), ('STAI', 2), ('LDAC', 2), ('LDBM', 1), ('STAI', 3)],
        'if-then shape: BRZ over a store; label; store': [('LDAM', 5), ('br', 'BRZ', 'lab1'), ('LDAC', 7), ('LDBM', 1), ('STAI', 4), ('label', 'lab1'), ('LDBM', 1), ('STAI', 2)],
        'store; branch; label; store': [('LDBM', 1), ('STAI', 3), ('br', 'BR', 'lab2'), ('label', 'lab3'), ('LDBM', 1), ('STAI', 2), ('label', 'lab2')],
    }
    for name, spec in streams.items():
        X = xmodel.XModel(idx, c01.CodeGenModel(idx).hooks)
        try:
            # every real stream ends with the return of the last procedure (OPR BRB): the pass looks ahead without a bounds test
            res, ub = optimise(idx, X, mk(X, spec + [('opr', 'BRB')]))
        except (Thrown, NeedSplit, AnalysisBroken) as e:
            rep.undecided(rid, name, 'peephole pass not interpreted: %s' % e, where)
            continue
        bsp = False
        bad = []
        shown = []
        for d in res:
            tk = rtok.get(d.fields['token'].lo) if isinstance(d.fields.get('token'), IV) else '?'
            shown.append(tk if d.cls != 'hexasm::Label' else 'label')
            if d.cls == 'hexasm::Label':
                bsp = False
            elif d.cls == 'hexasm::InstrLabel':
                bsp = False
            elif tk == 'LDBM':
                v = d.fields.get('immValue')
                bsp = isinstance(v, IV) and v.concrete() and v.lo == 1
            elif tk in ('LDBC', 'LDBI'):
                bsp = False
            elif tk == 'OPR' and rtok.get(getattr(d.fields.get('opcode'), 'lo', None)) in ('BRB', 'SVC'):
                bsp = False
            elif tk == 'STAI' and not bsp:
                bad.append('STAI %s' % getattr(d.fields.get('immValue'), 'lo', '?'))
        rep.add(rid, name, not bad, where, ('after the pass %s stores through a base register that was not (re)loaded since the last label: '
                                            'stream %s' % (bad, shown)) if bad else 'stream after the pass: %s' % shown)


def pipeline_streams(idx):
    """Directive streams that the real code generator produces for the smallest programs, lowered by the real LowerDirectives:
    (name, model, lowered list).  Used to run later passes on what they really receive."""
    out = []
    # (a) no procedure at all: only the entry / exit stub
    M = c01.CodeGenModel(idx)
    M.X.visit_pre(_cg_visitor(M), Obj('xcmp::Program', {}, 'program'))
    stub = [d for _, d in M.instrs()]
    X = xmodel.XModel(idx, c01.CodeGenModel(idx).hooks)
    out.append(('no procedure (stub only)', X, lower(idx, X, list(stub), const(64, False, 0))))
    # (b) the stub followed by one procedure whose body is `stop`
    M2 = c01.CodeGenModel(idx)
    M2.X.visit_pre(_cg_visitor(M2), Obj('xcmp::Program', {}, 'program'))
    stype = idx.enum('xcmp::SymbolType')
    sym = M2.I.construct('xcmp::Symbol', [const(32, True, stype['PROC']), None, ('str', ''), ('str', 'main')])
    sym.fields['frame'] = M2.frame
    M2.frame.fields['size'] = const(64, False, 3)
    M2.frame.fields['offset'] = const(64, False, 0)
    items = [d for _, d in M2.instrs()]
    items.append(M2.I.construct('xcmp::Prologue', [sym]))
    n0 = len(M2.instrs())
    M2.X.visit_post(M2.stmt_visitor(), M2.I.construct('xcmp::StopStatement', [None]))
    items += [d for _, d in M2.instrs()[n0:]]
    items.append(M2.I.construct('xcmp::Epilogue', [sym]))
    X2 = xmodel.XModel(idx, c01.CodeGenModel(idx).hooks)
    out.append(('stub + proc main() is stop', X2, lower(idx, X2, items, const(64, False, 0))))
    return out
