"""C03 -- the Verilog processor (+memory, as wired in hex.sv) retires one ISA instruction per clock (engines V)."""
from .. import vlxml, spec_isa
from ..terms import *
from ..frontend import AnalysisBroken
from .. import frontend as fe

P = 'hex.u_processor.'
MEMSPACE = 'hex.u_memory.memory_q'


def load_design():
    v = fe.compdb()['verilate']
    return vlxml.load(v['sources'], v['top']), v['top']


def rtl_summary(d, top, byte, rst=0, O=None, fetch_override=True):
    ov = {top + '.i_rst': const(1, rst), top + '.i_clk': var('clk', 1)}
    regs = {'pc_q': 21, 'areg_q': 32, 'breg_q': 32, 'oreg_q': 32}
    for n, w in regs.items():
        ov[P + n] = var(n, w)
    if O is not None:
        ov[P + 'oreg_q'] = O
    if fetch_override:
        ov[P + 'i_f_data'] = const(8, byte)
    ev = vlxml.Eval(d, top, ov)
    proc = ev.scope(top + '.u_processor')
    memsc = ev.scope(top + '.u_memory')
    nxt, pw = ev.next_state(proc)
    mnxt, mw = ev.next_state(memsc)
    mw = list(mw) + [w_ for w_ in pw if str(w_[0]).startswith('$')]      # simulation tasks fired by the processor are effects too
    out = {'next': nxt, 'proc_writes': pw, 'mem_regs': mnxt, 'writes': mw,
           'syscall_valid': ev.net(ev.root, 'o_syscall_valid'), 'syscall': ev.net(ev.root, 'o_syscall'),
           'free': dict(ev.used_free)}
    return out, ev


def isa_state():
    PC = zext(var('pc_q', 21), 32)
    A, B, O = var('areg_q', 32), var('breg_q', 32), var('oreg_q', 32)
    M = lambda a: mem(MEMSPACE, trunc(a, 19))
    return PC, A, B, O, M


def fold(leaves, field, default=None):
    """ite-chain of a field over the defined leaves."""
    ls = [l for l in leaves if not l.undefined]
    val = getattr(ls[-1], field)
    for l in reversed(ls[:-1]):
        val = ite(l.cond, getattr(l, field), val)
    return val


def run(rep, tier):
    rep.rule('R1', 'per instruction byte with a defined meaning: the next-state functions of pc/areg/breg/oreg, the memory write '
             '(enable, address, data) and the system-call request of the elaborated RTL (processor + memory through hex.sv '
             'port maps) have the same canonical terms as the ISA step, under the property\'s address-range protocol',
             floor=228 * 6, floor_reason='228 defined bytes x 6 fields (pc, areg, breg, oreg, write, syscall request)')
    rep.rule('R2', 'the architectural registers are updated in one block clocked by posedge i_clk with asynchronous posedge '
             'i_rst; memory is written on posedge i_clk', floor=2)
    rep.rule('R3', 'instruction fetch: the byte presented to the processor is byte pc[1:0] (little-endian) of word pc[20:2] of '
             'the unified memory, and the data read port returns memory[o_d_addr]', floor=2)
    rep.rule('R4', 'reset: with i_rst asserted every architectural register is loaded with 0 (execution starts at address 0 '
             'with a clear operand register)', floor=4)
    rep.exhaustive = True
    rep.trusted = ['Verilator 5.006 elaboration', 'transcription of the ISA reference simulator (hexsa/spec_isa.py, from docs/PDFs/hexb.pdf pp. 7-10)',
                   'term algebra: pass only on identical canonical forms; a differing pair is reported only with a distinguishing state']
    rep.assumptions = ['address-range protocol of the property: program addresses compared modulo 2^21 (pc is 21 bits wide), data word '
                       'addresses modulo 2^19, LDAP result compared as zext32(trunc21(.)), ISA word address a <-> memory_q[a mod 2^19]',
                       'OPR bytes are compared with oreg_q = 0 (any other value makes the ISA operand exceed 3: undefined)',
                       'system-call *effects* are the testbench\'s (C06); here only the request (valid, number) and register effects']
    d, top = load_design()
    for f in fe.compdb()['verilate']['sources']:
        rep.analysed(unit=f)
    PC, A, B, O, M = isa_state()
    n_bytes = 0
    for b in range(256):
        opc, opr = b >> 4, b & 15
        if opc == 12 or (opc == 13 and opr > 3):
            continue
        n_bytes += 1
        Ob = const(32, 0) if opc == 13 else None
        r, ev = rtl_summary(d, top, b, 0, Ob)
        leaves = spec_isa.step(b, PC, A, B, Ob if Ob is not None else O, M)
        exp = {
            'pc': trunc(fold(leaves, 'pc'), 21),
            'areg': fold(leaves, 'areg'),
            'breg': fold(leaves, 'breg'),
            'oreg': fold(leaves, 'oreg'),
        }
        if opc == 5:
            exp['areg'] = zext(trunc(exp['areg'], 21), 32)
        got = {'pc': r['next'].get('pc_q'), 'areg': r['next'].get('areg_q'), 'breg': r['next'].get('breg_q'),
               'oreg': r['next'].get('oreg_q')}
        # memory write
        stores = [] if opc == 13 else [s for l in leaves if not l.undefined for s in l.stores]
        ws = [(g, i, v) for (arr, g, i, v) in r['writes'] if arr == MEMSPACE and g != F]
        other = [w for w in r['writes'] if w[0] != MEMSPACE and not str(w[0]).startswith('$')] + [w for w in r['proc_writes'] if not str(w[0]).startswith('$')]
        tasks = [w for w in r['writes'] if str(w[0]).startswith('$') and w[1] != F]
        if tasks:
            # a simulation task ($error, $stop, $display) that can fire for this byte: an effect the ISA does not have.  Where the ISA
            # leaves part of the byte's behaviour undefined (SVC with an unknown call number) the task may be confined to that part:
            # not decided here
            k_ = 'byte=0x%02X:simulation-task' % b
            w_ = 'verilog/processor.sv (%s %d)' % (spec_isa.MNEMONIC_OF.get(opc, '?'), opr)
            if any(l.undefined for l in leaves):
                rep.undecided('R1', k_, '%s can fire under %s; the ISA leaves part of this byte undefined and the rule does not decide whether the '
                              'task is confined to that part' % (sorted({t_[0] for t_ in tasks}), repr(tasks[0][1])[:160]), w_)
            else:
                rep.add('R1', k_, False, w_, '%s fires under %s for an instruction whose behaviour the ISA defines completely: the simulation '
                        'stops or prints where the ISA just executes' % (sorted({t_[0] for t_ in tasks}), repr(tasks[0][1])[:200]))
        if stores:
            (sa, sv), = stores
            exp['write'] = ('write', T, trunc(sa, 19), sv)
        else:
            exp['write'] = ('nowrite',)
        if len(ws) == 1 and not other:
            got['write'] = ('write', ws[0][0], ws[0][1], ws[0][2])
        elif not ws and not other:
            got['write'] = ('nowrite',)
        else:
            got['write'] = ('multiple', tuple(map(repr, ws + other)))
        exp['syscall_valid'] = const(1, 1 if (opc == 13 and opr == 3) else 0)
        got['syscall_valid'] = r['syscall_valid']
        if opc == 13 and opr == 3:
            exp['syscall'] = trunc(A, 2)
            got['syscall'] = r['syscall']
        # extra registers are not a violation by themselves (a benign counter would be fine): if they influence
        # an architectural next-state function or the fetch path, that term differs from the ISA's and is reported
        extra = set(r['next']) - {'pc_q', 'areg_q', 'breg_q', 'oreg_q'}
        if (extra or r['mem_regs']) and b == 0:
            rep.note('additional state elements present: %s' % sorted(extra | set(r['mem_regs'])))
        for k in exp:
            key = 'byte=0x%02X:%s' % (b, k)
            a, c = exp[k], got[k]
            where = 'verilog/processor.sv (%s %d)' % (spec_isa.MNEMONIC_OF.get(opc, '?'), opr)
            if a == c:
                rep.add('R1', key, True, where, nontrivial=not (isinstance(a, V) and a.isconst()))
                continue
            detail = None
            if isinstance(a, V) and isinstance(c, V):
                cx = distinguish(a, c, seed=rep.seed)
                if cx is None:
                    rep.undecided('R1', key, 'forms differ, no distinguishing state: ISA %r | RTL %r' % (a, c), where)
                    continue
                detail = 'state %s: ISA gives %s=0x%x, RTL gives 0x%x   [ISA %r | RTL %r]' % (
                    {n: hex(v) for n, v in cx[0].items()}, k, cx[1], cx[2], a, c)
            elif c is None:
                detail = 'register is not updated by the RTL'
            else:
                detail = 'ISA %r | RTL %r' % (a, c)
                if isinstance(a, tuple) and isinstance(c, tuple) and a[0] == c[0] == 'write':
                    for nm, x, y in (('address', a[2], c[2]), ('data', a[3], c[3])):
                        if x != y:
                            cx = distinguish(x, y, seed=rep.seed)
                            if cx:
                                detail = 'write %s differs in state %s: ISA 0x%x, RTL 0x%x [ISA %r | RTL %r]' % (
                                    nm, {n: hex(v) for n, v in cx[0].items()}, cx[1], cx[2], x, y)
                    if a[1] != c[1]:
                        detail = 'write enable differs: ISA %r | RTL %r' % (a[1], c[1])
            rep.add('R1', key, False, where, detail, data={'byte': b, 'field': k, 'isa': repr(a), 'rtl': repr(c)})
    rep.extra['defined_bytes'] = n_bytes
    # R2: clocking structure
    for mn, fn in (('processor', 'verilog/processor.sv'), ('memory', 'verilog/memory.sv')):
        mod = d.modules[mn]
        bad = []
        for ff in mod.ff:
            s_ = sorted((it.get('edgeType'), it[0].get('name')) for it in ff.find('sentree'))
            if ('POS', 'i_clk') not in s_ or any(e != 'POS' or n not in ('i_clk', 'i_rst') for e, n in s_):
                bad.append(s_)
        rep.add('R2', mn + ':clocking', bool(mod.ff) and not bad, fn,
                '%d clocked block(s); offending sensitivity lists: %s' % (len(mod.ff), bad) if bad else
                '%d clocked block(s), all on posedge i_clk (+ optional posedge i_rst)' % len(mod.ff), nontrivial=False)
    clock_connections(rep, 'R2', d, top)
    # R3: fetch and data read paths (instruction byte symbolic)
    r, ev = rtl_summary(d, top, 0, 0, None, fetch_override=False)
    proc = ev.scope(top + '.u_processor')
    got = ev.net(proc, 'i_f_data')
    exp = spec_isa.fetch_byte(M(shr(PC, 2)), PC)
    _cmp(rep, 'R3', 'fetch-path', exp, got, 'verilog/memory.sv + hex.sv')
    # data read: i_d_data == memory_q[o_d_addr]
    r2, ev2 = rtl_summary(d, top, 0x00, 0)
    proc2 = ev2.scope(top + '.u_processor')
    got = ev2.net(proc2, 'i_d_data')
    exp = mem(MEMSPACE, ev2.net(proc2, 'o_d_addr'))
    _cmp(rep, 'R3', 'data-read-path', exp, got, 'verilog/memory.sv + hex.sv')
    # R4: reset
    for b in (0x00, 0x91, 0xD3, 0xE5):
        r, ev = rtl_summary(d, top, b, 1)
        ok = all(r['next'].get(k) == const(w, 0) for k, w in (('pc_q', 21), ('areg_q', 32), ('breg_q', 32), ('oreg_q', 32)))
        rep.add('R4', 'reset:byte=0x%02X' % b, ok, 'verilog/processor.sv',
                'next state under reset: %s' % {k: repr(v) for k, v in r['next'].items()})


def clock_connections(rep, rid, d, top):
    """One clock domain: the clock and reset inputs of every instance are wired to the top level's own i_clk / i_rst inputs, not to a
    derived (inverted, gated, registered) net -- a block clocked by ~i_clk works on the other edge, e.g. its last store before reset is
    released happens while reset is still asserted."""
    tm = d.modules[top]
    inputs = {n for n, v in tm.vars.items() if v.get('dir') == 'input'}
    n = 0
    for iname, inst in tm.instances.items():
        for p in inst.findall('port'):
            if p.get('name') not in ('i_clk', 'i_rst'):
                continue
            n += 1
            a = p[0] if len(p) else None
            ok = a is not None and a.tag == 'varref' and a.get('name') == p.get('name') and a.get('name') in inputs
            how = 'unconnected' if a is None else (a.get('name') if a.tag == 'varref' else '<%s ...>' % a.tag)
            if a is not None and a.tag == 'varref' and a.get('name') in tm.cont:
                how += ' = <%s> of %s' % (tm.cont[a.get('name')].tag, sorted({x.get('name') for x in tm.cont[a.get('name')].iter('varref')}))
            rep.add(rid, '%s.%s:%s-connection' % (top, iname, p.get('name')), ok, 'verilog/%s.sv' % top,
                    'connected to the top-level input %s' % p.get('name') if ok else
                    'the %s input of %s is driven by %s, not by the top-level %s: the instance is in a different clock/reset domain than the ISA '
                    'step relation assumes' % (p.get('name'), iname, how, p.get('name')), nontrivial=False)
    if n == 0:
        raise AnalysisBroken('no i_clk / i_rst instance connections found in %s' % top)


def _cmp(rep, rule, key, exp, got, where):
    if exp == got:
        rep.add(rule, key, True, where, repr(got))
        return
    cx = distinguish(exp, got, seed=rep.seed)
    if cx is None:
        rep.undecided(rule, key, 'forms differ, no distinguishing state: expected %r | RTL %r' % (exp, got), where)
    else:
        rep.add(rule, key, False, where, 'state %s: expected 0x%x, RTL 0x%x [expected %r | RTL %r]' % (
            {n: hex(v) for n, v in cx[0].items()}, cx[1], cx[2], exp, got))
