"""C06 -- a binary behaves identically on the RTL testbench and on the simulator (engines S + I + Q; compositional)."""
from .. import cast, simmodel, ivinterp
from ..cxxsym import Interp, Path, StrV, Ref
from ..terms import *
from ..ivinterp import IV, Obj, NeedSplit
from ..frontend import AnalysisBroken
from ..cast import children, pos, walk, callee_of, qt, dqt
from . import c13


def syscall_summary_hexsim(idx, k):
    f = idx.func('hexsim::Processor::syscall')
    I = Interp(idx, 'hexsim::Processor', simmodel.SimHooks())
    flds = simmodel.processor_fields(0, 1)
    flds['areg'] = const(32, k)
    p = Path(flds)
    out = []
    for q, fl, rv in I.stmt(f.body, p):
        out.append((q.pc, q.status, [simmodel.norm_event(e) for e in q.events], list(q.stores),
                    q.fields['exitCode'] if 'exitCode' in q.written else None, q.fields.get('running')))
    return out, I


def syscall_summary_hextb(idx, k):
    f = idx.func('handleSyscall')
    I = Interp(idx, None, simmodel.SimHooks())
    p = Path({})
    prm = {x.get('name'): x for x in f.params}
    for x in f.params:
        t = qt(x)
        if 'hex::Syscall' in t:
            p.locals[x['id']] = const(32, k)
        elif 'Vhex_pkg' in t:
            p.locals[x['id']] = Ref('object', 'top')
        elif t.startswith('int'):
            p.locals[x['id']] = var('EXITCODE', 32)
            exit_id = x['id']
        elif 'bool' in t:
            p.locals[x['id']] = const(1, 0)
    out = []
    for q, fl, rv in I.stmt(f.body, p):
        ex = q.locals.get(exit_id)
        out.append((q.pc, q.status, [simmodel.norm_event(e) for e in q.events], list(q.stores),
                    ex if ex != var('EXITCODE', 32) else None, None))
    return out, I


def run(rep, tier):
    rep.trusted = ['clang 14 AST', 'the rules of C02 (hexsim == ISA per step) and C03 (RTL == ISA per clock) are run as part of this check',
                   'term algebra']
    rep.assumptions = ['programs never read memory they have not written (property quantifier): hextb also copies the symbol tables '
                       'behind the image into memory, hexsim leaves that memory zero',
                       'the load banner on stdout is excluded (property statement)']
    tb = cast.load('hextb.cpp')
    sim = cast.load('hexsim.cpp')
    rep.analysed(unit='hextb.cpp')
    rep.analysed(unit='hexsim.cpp')
    rep.rule('R1', 'composition: the RTL core equals the ISA per clock (all rules of C03) and hexsim equals the ISA per step (all rules of '
             'C02), decided on the current tree as part of this check; C06 itself adds the testbench glue', floor=3000)
    from .. import report as _report
    from . import c02, c03
    c03.run(_report.Import(rep, 'R1', 'C03'), tier)
    c02.run(_report.Import(rep, 'R1', 'C02'), tier)
    # R2: syscall shim
    rep.rule('R2', 'the testbench system-call shim (handleSyscall) and hexsim::Processor::syscall have identical effect summaries for EXIT, '
             'WRITE and READ under hexsim\'s configuration: same argument slots relative to mem[1], same 8-bit truncation, same sequence of '
             'stream primitives (stdout / simout<n> / simin<n> routing), same memory store, same exit value; other numbers are rejected', floor=3 * 3)
    ftb = tb.func('handleSyscall')
    rep.analysed(ftb.sig)
    where = pos(ftb.node) + ' handleSyscall (hextb.cpp) / hexsim::Processor::syscall'
    for k, nm in ((0, 'EXIT'), (1, 'WRITE'), (2, 'READ'), (3, 'invalid')):
        a, _ = syscall_summary_hexsim(sim, k)
        b, _ = syscall_summary_hextb(tb, k)
        da = {repr(x[0]): x for x in a}
        db = {repr(x[0]): x for x in b}
        for cond in sorted(set(da) | set(db)):
            key = '%s:path %s' % (nm, cond if len(cond) < 80 else 'h%08x' % (hash(cond) & 0xFFFFFFFF))
            xa, xb = da.get(cond), db.get(cond)
            if xa is None or xb is None:
                rep.add('R2', key, False, where, 'path exists only in %s (condition %s)' % ('hexsim' if xb is None else 'hextb', cond))
                continue
            diffs = []
            if xa[1] != xb[1]:
                diffs.append('status hexsim %s vs hextb %s' % (xa[1], xb[1]))
            if repr(xa[2]) != repr(xb[2]):
                diffs.append('I/O primitives differ: hexsim %r | hextb %r' % (xa[2], xb[2]))
            if repr(xa[3]) != repr(xb[3]):
                diffs.append('stores differ: hexsim %r | hextb %r' % (xa[3], xb[3]))
            if repr(xa[4]) != repr(xb[4]):
                diffs.append('exit value differs: hexsim %r | hextb %r' % (xa[4], xb[4]))
            rep.add('R2', key, not diffs, where, '; '.join(diffs)[:900] if diffs else 'identical (%d primitives, %d stores)' % (len(xa[2]), len(xa[3])))
    # hexsim configuration: truncateInputs default true, never changed by the executable (checked in C02-R2, repeated here cheaply)
    m = sim.func('main')
    calls = [c for c in cast.calls_in(m.body) if callee_of(c)[1] == 'setTruncateInputs']
    rep.add('R2', 'hexsim.cpp:truncateInputs-default', not calls, pos(m.node) + ' main(hexsim.cpp)', 'setTruncateInputs is not called by hexsim', nontrivial=False)
    # R3: loader
    rep.rule('R3', 'the testbench loader places the image at word 0 of the DUT memory, taking (length word << 2) as the program size like '
             'hexsim::Processor::load', floor=2)
    ld = tb.func('load')
    rep.analysed(ld.sig)
    scal = [(n.get('opcode'), cast.const_int(children(n)[1], tb)) for n in walk(ld.body)
            if n['kind'] == 'CompoundAssignOperator' and n.get('opcode') in ('<<=', '*=', '>>=', '/=')]
    shl2 = scal in ([('<<=', 2)], [('*=', 4)])
    hdr4 = any(callee_of(c)[1] == 'read' and cast.const_int(cast.call_args(c)[1], tb) == 4 for c in cast.calls_in(ld.body))
    if hdr4 and not scal:
        # no compound scaling at all: the size may be computed in a form this rule does not know -- not a verdict
        rep.undecided('R3', 'load:header', 'the scaling of the length word is not written as `<<= 2` / `*= 4`: idiom not recognised', pos(ld.node))
    else:
        rep.add('R3', 'load:header', shl2 and hdr4, pos(ld.node) + ' load (hextb.cpp)', '4-byte header read: %s, size scaling: %s' % (hdr4, scal))
    mc = [c for c in cast.calls_in(ld.body) if callee_of(c)[1] == 'memcpy']
    ok = False
    detail = '%d memcpy call(s)' % len(mc)
    if not mc:
        # another loader shape: the file is read straight into the DUT memory (possibly through a reference alias)
        aliases = {d['id'] for d in walk(ld.body) if d['kind'] == 'VarDecl' and children(d) and any(y.get('name') == 'memory_q' for y in walk(children(d)[-1]))}

        def is_mem(e):
            return any(y.get('name') == 'memory_q' for y in walk(e)) or any(
                y['kind'] == 'DeclRefExpr' and (y.get('referencedDecl') or {}).get('id') in aliases for y in walk(e))
        direct = [c for c in cast.calls_in(ld.body) if callee_of(c)[1] == 'read' and is_mem(cast.call_args(c)[0])]
        zeroed = [c for c in cast.calls_in(ld.body) if callee_of(c)[1] in ('memset', 'fill', 'fill_n') and any(is_mem(a_) for a_ in cast.call_args(c))]
        same_count = False
        if direct and zeroed:
            order = {id(n_): k_ for k_, n_ in enumerate(walk(ld.body))}
            rc = cast.decl_ref(cast.call_args(direct[0])[1])
            for z in zeroed:
                za = cast.call_args(z)
                zc = cast.decl_ref(za[-1]) if za else None
                if order[id(z)] < order[id(direct[0])] and rc is not None and zc == rc:
                    same_count = True
        if direct and zeroed and same_count and len(direct) == 1:
            rep.add('R3', 'load:image-at-word-0', True, pos(direct[0]) + ' load (hextb.cpp)',
                    'the target range is zeroed (same byte count) before the file is read straight into the DUT memory at word 0')
        elif direct and not zeroed:
            rep.add('R3', 'load:image-at-word-0', False, pos(direct[0]) + ' load (hextb.cpp)',
                    'the file is read straight into the DUT memory, which holds randomised power-on values: the bytes of the last image word '
                    'that the file does not cover (its length is not a multiple of 4: symbol names follow the image) are never written')
        else:
            rep.undecided('R3', 'load:image-at-word-0', 'the loader neither copies a staging buffer nor reads into the DUT memory in a recognised form', pos(ld.node))
        ok = None
    if len(mc) == 1:
        a = cast.call_args(mc[0])
        dst_ok = any(callee_of(x)[1] == 'data' for x in cast.calls_in(a[0])) and any(y.get('name') == 'memory_q' for y in walk(a[0])) and \
            not any(y['kind'] == 'BinaryOperator' for y in walk(a[0]))
        src_plain = not any(y['kind'] == 'BinaryOperator' for y in walk(a[1]))
        reads = [c for c in cast.calls_in(ld.body) if callee_of(c)[1] == 'read']
        seeks_after_hdr = False
        seen_hdr = False
        for c in cast.calls_in(ld.body):
            nm = callee_of(c)[1]
            if nm == 'read' and cast.const_int(cast.call_args(c)[1], tb) == 4:
                seen_hdr = True
            elif nm == 'seekg' and seen_hdr:
                seeks_after_hdr = True
        ok = dst_ok and src_plain and len(reads) == 2 and not seeks_after_hdr
        detail = 'destination is memory_q.data() without offset: %s; source buffer without offset: %s; reads: %d; seek after header: %s' % (
            dst_ok, src_plain, len(reads), seeks_after_hdr)
    if ok is not None:
        rep.add('R3', 'load:image-at-word-0', ok, pos(ld.node) + ' load (hextb.cpp)', detail)
    # the whole image is copied: the length handed to memcpy is the number of bytes read, not clipped below the memory size
    if len(mc) == 1:
        inits = {d['id']: children(d)[-1] for d in walk(ld.body) if d['kind'] == 'VarDecl' and children(d)}
        read_vars = set()
        for c in cast.calls_in(ld.body):
            if callee_of(c)[1] == 'read':
                a_ = cast.call_args(c)
                if len(a_) > 1 and cast.decl_ref(a_[1]):
                    read_vars.add(cast.decl_ref(a_[1]))
        todo, seen, clips, sizes, other = [cast.call_args(mc[0])[2]], set(), [], 0, []
        constant_nodes = set()
        while todo:
            e = todo.pop()
            for x in walk(e):
                if x['kind'] in ('CallExpr', 'CXXMemberCallExpr'):
                    nm = callee_of(x)[1]
                    if nm in ('min', 'max'):
                        for a_ in cast.call_args(x):
                            v = cast.const_int(a_, tb)
                            if v is not None:
                                clips.append((nm, v))
                                for y in walk(a_):
                                    constant_nodes.add(id(y))
                    elif nm == 'size':
                        sizes += 1
                    elif nm not in ('data',):
                        other.append(nm)
                if x['kind'] in ('BinaryOperator', 'ConditionalOperator') and id(x) not in constant_nodes:
                    other.append(x.get('opcode', '?:'))
                if x['kind'] == 'DeclRefExpr':
                    r = (x.get('referencedDecl') or {})
                    if r.get('kind') == 'VarDecl' and r.get('id') in read_vars:
                        sizes += 1
                    elif r.get('kind') == 'VarDecl' and r.get('id') in inits and r['id'] not in seen:
                        seen.add(r['id'])
                        todo.append(inits[r['id']])
        mem_bytes = 4 * tb.vars['hex::MAX_MEMORY_SIZE_WORDS'] if False else None
        mw = cast.const_int({'kind': 'DeclRefExpr', 'referencedDecl': {'kind': 'VarDecl', 'id': tb.vars['hex::MAX_MEMORY_SIZE_WORDS']['id']}}, tb) \
            if 'hex::MAX_MEMORY_SIZE_WORDS' in tb.vars else None
        key = 'load:whole-image-copied'
        if other or not sizes:
            rep.undecided('R3', key, 'the memcpy length is computed in a form this rule does not know (%s): idiom not recognised' % (other or 'no size'), pos(mc[0]))
        else:
            low = [v for nm, v in clips if nm == 'min' and (mw is None or v < 4 * mw)]
            rep.add('R3', key, not low, pos(mc[0]) + ' load (hextb.cpp)',
                    ('the copy is clipped at %s bytes, but the memory (and the largest image hexsim loads) has %s words = %s bytes: a larger image '
                     'is silently truncated in the DUT memory' % (low, mw, 4 * mw if mw else '?')) if low else
                    'length is the number of bytes read%s' % (' (clip bounds %s cover the memory)' % clips if clips else ''))
    # R4: sampling and exit path (schedule interpreter of C13)
    rep.rule('R4', 'after reset the shim is invoked exactly once for every evaluated rising clock edge on which the DUT requests a system '
             'call (also for back-to-back requests), never otherwise; EXIT ends the run; run() returns the exit value unchanged for every '
             '32-bit value', floor=4)
    fr = tb.func('run')
    evals, sysc = c13.schedule(tb, 1, 1)
    rel = next((e[0] for e in evals if e[2] == 0 and e[1] == 1), None)
    want = [e for e in evals if e[1] == 1 and e[2] == 0][: max(0, len([e for e in evals if e[1] == 1 and e[2] == 0]) - 1)]
    got = [s for s in sysc if s[2] == 0]
    miss = [e for e in want if e not in got]
    dup = len(got) != len(set(got))
    rep.add('R4', 'one-service-per-requesting-clock', bool(want) and not miss and not dup, pos(fr.node) + ' run (hextb.cpp)',
            ('requests on rising edges at %s are not serviced' % miss[:5]) if miss else ('a request is serviced twice' if dup else
                                                                                       '%d consecutive requests, each serviced once' % len(want)))
    evals0, sysc0 = c13.schedule(tb, 0, 1)
    rep.add('R4', 'no-service-without-request', not sysc0, pos(fr.node) + ' run (hextb.cpp)',
            'serviced without a request at %s' % sysc0[:3] if sysc0 else 'no request, no service in %d evaluations' % len(evals0))
    evalsx, syscx = c13.schedule(tb, 1, 0)
    after = [e for e in evalsx if syscx and e[0] > syscx[0][0]]
    rep.add('R4', 'exit-ends-run', len(syscx) == 1 and not after, pos(fr.node) + ' run (hextb.cpp)',
            'EXIT serviced at %s; %d evaluations afterwards' % (syscx[:1], len(after)))
    for cls, lo, hi in (('negative', -(1 << 31), -1), ('non-negative', 0, (1 << 31) - 1)):
        rv = exit_value(tb, lo, hi)
        ok = isinstance(rv, IV) and rv.aff is not None and rv.aff[0] == {'X': 1} and rv.aff[1] == 0
        rep.add('R4', 'run-returns-exit-value:%s' % cls, ok, pos(fr.node) + ' run (hextb.cpp)',
                'for exit values in [%d,%d] run() returns %r (%s)' % (lo, hi, rv, ivinterp.aff_str(rv.aff) if isinstance(rv, IV) else '?'))
    rule_defaults(rep, tb, sim)


def option_default(ix, opt):
    """(constant initial value, position) of the variable that main() assigns under `strcmp(argv[i], opt) == 0`; value None if not constant."""
    m = [f for f in ix.all_funcs() if f.name == 'main' and f.body is not None and not f.cls]
    if len(m) != 1:
        raise AnalysisBroken('main() not found')
    m = m[0]
    parents = {}
    for a in walk(m.body):
        for b in children(a):
            parents[id(b)] = a
    for c in cast.calls_in(m.body):
        if callee_of(c)[1] != 'strcmp' or cast.string_lit(c) != opt:
            continue
        x = c
        while id(x) in parents and parents[id(x)]['kind'] != 'IfStmt':
            x = parents[id(x)]
        if id(x) not in parents:
            continue
        ifs = parents[id(x)]
        then = children(ifs)[1]
        for y in walk(then):
            if y['kind'] in ('BinaryOperator', 'CXXOperatorCallExpr') and (y.get('opcode') == '=' or callee_of(y)[1] == 'operator='):
                tgt = children(y)[0] if y['kind'] == 'BinaryOperator' else cast.call_args(y)[0]
                vid = cast.decl_ref(tgt)
                d = ix.by_id.get(vid) if vid else None
                if d is not None and d.get('kind') == 'VarDecl':
                    init = [k for k in children(d) if 'kind' in k]
                    return (cast.const_int(init[-1], ix) if init else None), pos(d), d.get('name')
    raise AnalysisBroken('no variable is assigned under the %s option in %s' % (opt, pos(m.node)))


def rule_defaults(rep, tb, sim):
    rep.rule('R5', 'without options both simulators run under the same limits: the variable main() sets from --max-cycles starts at the same '
             'constant in hextb.cpp and hexsim.cpp (0 = no limit; hextb leaves run() silently with status 0 when its limit is reached)', floor=1)
    try:
        a, b = option_default(tb, '--max-cycles'), option_default(sim, '--max-cycles')
    except AnalysisBroken as e:
        rep.undecided('R5', 'max-cycles-default', str(e), 'hextb.cpp main')
        return
    if a[0] is None or b[0] is None:
        rep.undecided('R5', 'max-cycles-default', 'initial value not a constant (hextb %r, hexsim %r)' % (a[0], b[0]), a[1] + ' main (hextb.cpp)')
        return
    rep.add('R5', 'max-cycles-default', a[0] == b[0], a[1] + ' main (hextb.cpp)',
            'both start at %d' % a[0] if a[0] == b[0] else
            'hextb starts %s at %d, hexsim at %d: a program that needs more cycles ends on hextb with status 0 and its output cut, on hexsim it '
            'runs to its exit' % (a[2], a[0], b[0]))


def exit_value(idx, lo, hi):
    """Return value of run() when the shim stores an exit value X in [lo,hi] and the request is EXIT."""
    f = idx.func('run')
    ctx = Obj('VerilatedContext', {'time': ivinterp.const(64, False, 0)}, 'contextp')
    top = Obj('Vhex_pkg', {'i_clk': ivinterp.const(8, False, 0), 'i_rst': ivinterp.const(8, False, 0),
                           'o_syscall_valid': ivinterp.const(8, False, 1), 'o_syscall': ivinterp.const(8, False, 0)}, 'top')
    n_eval = [0]

    def hooks(I, n, kind, name, did, obj, args, env):
        if n['kind'] == 'CXXOperatorCallExpr' and name in ('operator->', 'operator*'):
            return I.expr(args[0], env)
        if kind == 'method':
            o = I.expr(obj, env) if obj is not None else None
            if o is ctx:
                if name == 'timeInc':
                    ctx.fields['time'] = I.arith('+', ctx.fields['time'], I.expr(args[0], env), n)
                    return None
                if name == 'time':
                    return ctx.fields['time']
                if name == 'gotFinish':
                    return ivinterp.const(1, False, 0)
            if o is top:
                if name == 'eval':
                    n_eval[0] += 1
                    if n_eval[0] > 60:
                        raise AnalysisBroken('run() does not terminate on EXIT')
                    return None
                if name == 'final':
                    return None
        if kind == 'function' and name == 'handleSyscall':
            lv = I.lval(args[2], env)
            I.store(lv, IV(32, True, lo, hi, None, None, ({'X': 1}, 0)), env)
            return None
        if kind == 'function' and name in ('instrEnumToStr',):
            return ('str', '?')
        return NotImplemented
    I = ivinterp.Interp(idx, hooks, max_iter=200)
    argv = []
    for prm in f.params:
        t = qt(prm)
        argv.append(ctx if 'VerilatedContext' in t else top if 'Vhex_pkg' in t else ivinterp.const(1, False, 0) if 'bool' in t else ivinterp.const(64, False, 0))
    try:
        return I.invoke(f, None, argv)
    except NeedSplit as e:
        return 'not uniform: %s' % e
