"""C14 -- tool exit status and output files reflect what happened (engine Q; DESIGN.md section 5, C14)."""
from .. import cast, flow
from ..cast import children, strip, walk, qt, pos, const_int, callee_of, call_args, calls_in, dqt
from ..frontend import AnalysisBroken

MAINS = ['hexasm.cpp', 'xcmp.cpp', 'xrun.cpp', 'hexsim.cpp', 'hextb.cpp']


def refs_cerr(e):
    for x in walk(e):
        if x['kind'] == 'DeclRefExpr' and x.get('referencedDecl', {}).get('name') == 'cerr':
            return True
    return False


_DIAG = {}


def always_diagnoses(idx, g, depth=0):
    """Does every path through function g (to a return or the end) write to std::cerr -- directly or through a function that does?"""
    key = (id(idx), g.id)
    if key in _DIAG:
        return _DIAG[key]
    _DIAG[key] = False          # recursion: assume not
    if g.body is None or depth > 3:
        return False

    class C(flow.Client):
        def expr(self_, e, s_):
            return [s_ or writes_cerr(idx, e, depth + 1)]
    o = flow.Flow(C(), idx).run(g.body, {False})
    exits = set(o.normal) | {s_ for s_, _ in o.ret}
    _DIAG[key] = bool(exits) and all(exits)
    return _DIAG[key]


def writes_cerr(idx, e, depth=0):
    if refs_cerr(e):
        return True
    for c in calls_in(e):
        did = callee_of(c)[2]
        g = idx.func_by_id.get(did) if did else None
        if g is not None and getattr(g, 'defn', None) and g.body is None:
            g = g.defn
        if g is not None and g.body is not None and always_diagnoses(idx, g, depth):
            return True
    return False


def main_of(idx):
    return idx.func('main')


def is_exit_call(c):
    k = callee_of(c)
    return k[0] == 'function' and k[1] in ('exit', '_Exit', 'quick_exit', 'abort')


# --------------------------------------------------------------------------------------------------
# R1: every catch handler prints a diagnostic to std::cerr and returns non-zero on all its paths
# --------------------------------------------------------------------------------------------------

class HandlerClient(flow.Client):
    """state = (handler id or None, wrote to cerr)"""

    def __init__(self, idx):
        self.idx = idx
        self.rets = {}      # handler id -> list of (cerr, value, pos)
        self.handlers = {}

    def throws(self, e, s):
        if s[0] is None and any(True for _ in calls_in(e)):
            return [(s, '*')]
        return []

    def catches(self, htype, t):
        return True

    def enter_catch(self, h, s):
        self.handlers[h['id']] = h
        return [(h['id'], False)]

    def expr(self, e, s):
        if s[0] is not None and writes_cerr(self.idx, e):
            return [(s[0], True)]
        return [s]

    def ret(self, stmt, s):
        ch = children(stmt)
        v = const_int(ch[0], self.idx) if ch else None
        if s[0] is not None:
            self.rets.setdefault(s[0], []).append((s[1], v, pos(stmt)))
        return [s]


def rule_r1(rep, idxs):
    rep.rule('R1', 'every path from a catch handler entry (tool mains, xcmp::Driver::runCatchExceptions) to the '
             'function exit writes to std::cerr and returns a non-zero constant', floor=7,
             floor_reason='2 handlers in hexasm.cpp, 1 each in xcmp.cpp, xrun.cpp, hexsim.cpp, hextb.cpp, 1 in runCatchExceptions')
    targets = []
    for tu in MAINS:
        targets.append((tu, main_of(idxs[tu])))
    targets.append(('xcmp.cpp', idxs['xcmp.cpp'].func('xcmp::Driver::runCatchExceptions')))
    for tu, f in targets:
        rep.analysed(f.sig, tu)
        cl = HandlerClient(idxs[tu])
        fl = flow.Flow(cl, idxs[tu])
        # '*' exceptions match every handler and keep propagating
        o = _run_star(fl, f.body)
        for hid, h in cl.handlers.items():
            hch = children(h)
            var = hch[0] if hch and hch[0].get('kind') == 'VarDecl' else None
            htype = qt(var) if var else '...'
            key = '%s:%s:catch(%s)' % (tu, f.qname, htype)
            rets = cl.rets.get(hid, [])
            falls = [s for s in o.normal if s[0] == hid]
            problems = []
            for (cerr, v, p) in rets:
                if not cerr:
                    problems.append('return at %s without a std::cerr diagnostic' % p)
                if v is None:
                    problems.append('return at %s is not a constant' % p)
                elif v == 0:
                    problems.append('return 0 at %s' % p)
            for s in falls:
                problems.append('handler falls through to the end of the function' +
                                ('' if s[1] else ' without a diagnostic'))
            if falls and f.name == 'main':
                # falling off main == return 0; falling out of the handler continues after the try
                pass
            # falling out of the handler continues after the try statement: find what is returned there
            after = [(c, v, p) for (c, v, p) in rets]
            rep.add('R1', key, not problems, pos(h) + ' ' + f.qname,
                    '; '.join(problems) if problems else 'all %d exits diagnose and return non-zero' % len(rets))


def _run_star(fl, body):
    return fl.run(body, {(None, False)})


# --------------------------------------------------------------------------------------------------
# R2: the operand of -o/--output reaches the file-name argument of the output-file constructor
# --------------------------------------------------------------------------------------------------

OUT_STREAM_TYPES = ('std::fstream', 'std::ofstream', 'std::basic_fstream<char>', 'std::basic_ofstream<char>')


def arg_var(e):
    """The variable a call argument is (a conversion of), following value-preserving wrappers, std::string
    conversion constructors and implicit casts (including pointer->bool, which is how a mis-bound argument
    looks).  Returns (decl id, list of cast kinds applied)."""
    casts = []
    n = e
    while True:
        k = n.get('kind')
        if k in cast.TRANSPARENT and n.get('inner'):
            ck = n.get('castKind')
            if ck and ck not in ('LValueToRValue', 'NoOp', 'ConstructorConversion', 'ArrayToPointerDecay'):
                casts.append(ck)
            n = children(n)[0] if k == 'CXXFunctionalCastExpr' else children(n)[-1]
            continue
        if k in ('CXXConstructExpr', 'CXXTemporaryObjectExpr'):
            real = [c for c in children(n) if c['kind'] != 'CXXDefaultArgExpr']
            if len(real) == 1:
                n = real[0]
                continue
            return None, casts
        if k == 'DeclRefExpr':
            return n.get('referencedDecl', {}).get('id'), casts
        return None, casts


def trace_to_sink(idx, func, var_id, depth, trail):
    """Does the value of variable/parameter `var_id` of `func` reach the file-name argument of an output
    stream constructor / open()?  Returns (reached, description of where the trace ended)."""
    if depth > 8 or func.body is None:
        return False, trail + ['(depth/body limit in %s)' % func.qname]
    ends = []
    # sink: VarDecl of an output stream type whose constructor's first argument is the variable
    for d in walk(func.body):
        if d['kind'] == 'VarDecl' and any(t in dqt_all(d) for t in OUT_STREAM_TYPES):
            for c in walk(d):
                if c['kind'] == 'CXXConstructExpr':
                    args = children(c)
                    if args:
                        v, casts = arg_var(args[0])
                        if v == var_id and not casts:
                            return True, trail + ['%s: std::fstream constructor at %s' % (func.qname, pos(d))]
    for c in calls_in(func.body):
        kind, name, did, obj = callee_of(c)
        if kind == 'method' and name == 'open':
            args = call_args(c)
            if args:
                v, casts = arg_var(args[0])
                if v == var_id and not casts and obj is not None and any(t in dqt_all(obj) for t in OUT_STREAM_TYPES):
                    return True, trail + ['%s: open() at %s' % (func.qname, pos(c))]
        args = call_args(c)
        for j, a in enumerate(args):
            v, casts = arg_var(a)
            if v != var_id:
                continue
            g = idx.func_by_id.get(did) if did else None
            if g is None:
                ends.append('%s passes it to %s (no body in the repository)' % (func.qname, name))
                continue
            if g.body is None and getattr(g, 'defn', None):
                g = g.defn
            if j >= len(g.params):
                continue
            p = g.params[j]
            step = '%s -> %s parameter #%d `%s %s`%s' % (func.qname, g.qname, j, qt(p), p.get('name', ''),
                                                         (' via ' + '+'.join(casts)) if casts else '')
            if casts:
                ends.append(step + ' (value is converted, the name is lost)')
                continue
            ok, tr = trace_to_sink(idx, g, p['id'], depth + 1, trail + [step])
            if ok:
                return True, tr
            ends.append('; '.join(tr[len(trail):]))
    return False, trail + (ends or ['%s: never passed on' % func.qname])


def dqt_all(n):
    t = n.get('type') or {}
    return (t.get('qualType', '') + ' ' + t.get('desugaredQualType', ''))


def find_output_var(idx, main):
    """The variable (declared outside the branch) that receives an element of argv in the branch guarded by a comparison with
    "-o"/"--output"; the element may pass through branch-local variables first.
    Returns (var id, spellings, if node); (None, spellings, if node) when a branch exists but the idiom is not recognised;
    (None, None, None) when no branch mentions the option."""
    seen = None
    for n in walk(main.body):
        if n['kind'] != 'IfStmt':
            continue
        ch = children(n)
        cond = ch[0]
        lits = {x.get('value', '').strip('"') for x in walk(cond) if x['kind'] == 'StringLiteral'}
        if not ('-o' in lits or '--output' in lits):
            continue
        seen = (lits, n)
        local_decls = {d['id'] for d in walk(ch[1]) if d['kind'] == 'VarDecl'}
        carriers = set()

        def from_argv(e):
            if any(x['kind'] == 'ArraySubscriptExpr' for x in walk(e)):
                return True
            r = cast.decl_ref(e)
            return r is not None and r in carriers
        for a in walk(ch[1]):           # source order
            if a['kind'] == 'VarDecl' and children(a) and from_argv(children(a)[-1]):
                carriers.add(a['id'])
            if a['kind'] == 'BinaryOperator' and a.get('opcode') == '=':
                lhs, rhs = children(a)
                lid = cast.decl_ref(lhs)
                if lid and from_argv(rhs):
                    if lid in local_decls:
                        carriers.add(lid)
                    else:
                        return lid, lits, n
    if seen:
        return None, seen[0], seen[1]
    return None, None, None


def const_string(idx, func, e):
    """The string an argument denotes: a literal, or a variable of the function initialised with a literal and never assigned."""
    if any(x['kind'] == 'StringLiteral' for x in walk(e)):
        return cast.string_lit(e)
    r = cast.decl_ref(e)
    if r is None:
        return None
    d = idx.by_id.get(r)
    if not d or d.get('kind') != 'VarDecl':
        return None
    if r not in {x.get('id') for x in walk(func.body) if x.get('kind') == 'VarDecl'}:
        # a namespace-scope name: constant if no function of the unit assigns it
        for g in idx.all_funcs():
            if g.body is None:
                continue
            for a in walk(g.body):
                if a['kind'] == 'BinaryOperator' and a.get('opcode') == '=' and cast.decl_ref(children(a)[0]) == r:
                    return None
        return cast.string_lit(d)
    for a in walk(func.body):
        if a['kind'] == 'BinaryOperator' and a.get('opcode', '').endswith('=') and a.get('opcode') not in ('==', '!=', '<=', '>=') \
                and cast.decl_ref(children(a)[0]) == r:
            return None
    return cast.string_lit(d)


def rule_r2(rep, idxs):
    rep.rule('R2', 'the variable assigned from the -o/--output operand reaches, by positional parameter binding, the '
             'file-name argument of the output std::fstream; both spellings are accepted; its default is "a.out"',
             floor=2, floor_reason='hexasm.cpp and xcmp.cpp')
    for tu in ('hexasm.cpp', 'xcmp.cpp'):
        idx = idxs[tu]
        m = main_of(idx)
        vid, lits, ifn = find_output_var(idx, m)
        key = tu + ':-o'
        if vid is None:
            rep.undecided('R2', key, ('the -o/--output branch at %s does not assign an argv element to an outer variable in a '
                                      'recognised form' % pos(ifn)) if ifn else 'no branch of main compares an argument with "-o"/"--output"',
                          pos(m.node))
            continue
        var = idx.by_id.get(vid, {})
        problems = []
        if not ('-o' in lits and '--output' in lits):
            problems.append('only spellings %s are recognised' % sorted(lits))
        default = cast.string_lit(var) if var else None
        if default != 'a.out':
            problems.append('default output name is %r, documented default is "a.out"' % default)
        ok, trail = trace_to_sink(idx, m, vid, 0, [])
        if not ok:
            problems.append('the -o operand never reaches the output file constructor: ' + ' | '.join(trail))
        rep.add('R2', key, not problems, pos(ifn) + ' main(' + tu + ')',
                '; '.join(problems) if problems else 'reaches ' + trail[-1], data={'trail': trail})
        rep.analysed(m.sig, tu)
    # xrun: the literal output name handed to the compiler equals the name handed to the loader
    idx = idxs['xrun.cpp']
    m = main_of(idx)
    outname = loadname = None
    where = pos(m.node)
    for c in calls_in(m.body):
        kind, name, did, obj = callee_of(c)
        if name == 'runCatchExceptions':
            g = idx.func_by_id.get(did)
            args = call_args(c)
            for j, p in enumerate(g.params if g else []):
                if 'utput' in p.get('name', '') and j < len(args):
                    outname = const_string(idx, m, args[j])
                    where = pos(c)
        if name == 'load' and kind == 'method':
            a = call_args(c)
            if a:
                loadname = const_string(idx, m, a[0])
    if outname is None or loadname is None:
        rep.undecided('R2', 'xrun.cpp:compile-output==load-input',
                      'the output name passed to runCatchExceptions / the name passed to load is not a string constant', where)
        return
    rep.add('R2', 'xrun.cpp:compile-output==load-input', outname is not None and outname == loadname,
            where + ' main(xrun.cpp)', 'compiler writes %r, simulator loads %r' % (outname, loadname))


# --------------------------------------------------------------------------------------------------
# R3: the program's exit value is the process status
# --------------------------------------------------------------------------------------------------

def rule_r3(rep, idxs):
    rep.rule('R3', 'the value returned by hexsim::Processor::run() (hextb: run()) is returned from main on every path '
             'that executes it; a failed compilation in xrun yields a non-zero status', floor=5,
             floor_reason='run call sites in hexsim.cpp, xrun.cpp, hextb.cpp + Processor::run + xrun compile status')
    for tu in ('hexsim.cpp', 'xrun.cpp', 'hextb.cpp'):
        idx = idxs[tu]
        m = main_of(idx)
        rep.analysed(m.sig, tu)
        sites = []
        for n in walk(m.body):
            if n['kind'] in cast.CALL_KINDS:
                kind, name, did, obj = callee_of(n)
                if name == 'run' and ((kind == 'method' and obj is not None and 'Processor' in dqt_all(obj)) or
                                      (kind == 'function' and tu == 'hextb.cpp') or
                                      (kind == 'method' and tu == 'hextb.cpp')):
                    sites.append(n)
        if not sites:
            # no call named run(): either the program is never run, or the run loop has been given another name / place
            others = [callee_of(n)[1] for n in walk(m.body) if n['kind'] in cast.CALL_KINDS and idx.func_by_id.get(callee_of(n)[2]) is not None]
            if others:
                rep.undecided('R3', tu + ':run-result', 'main calls no function named run; repository functions it calls: %s -- which of them executes '
                              'the program is not recognised' % sorted(set(o_ for o_ in others if o_))[:8], pos(m.node))
            else:
                rep.add('R3', tu + ':run-result', False, pos(m.node), 'main never runs the program')
            continue
        for k, site in enumerate(sites):
            ok = False
            how = 'result is discarded'
            # directly returned?
            for r in walk(m.body):
                if r['kind'] == 'ReturnStmt' and children(r):
                    e = strip(children(r)[0])
                    if e.get('id') == site['id']:
                        ok = True
                        how = 'returned directly'
            if not ok:
                # assigned to a variable that every later return hands back
                ok, how = _returned_via_variable(idx, m, site)
            if ok is None:
                rep.undecided('R3', '%s:run-result#%d' % (tu, k), how, pos(site) + ' main(' + tu + ')')
                continue
            rep.add('R3', '%s:run-result#%d' % (tu, k), ok, pos(site) + ' main(' + tu + ')', how)
    # the value handed to main: Processor::run() returns the exit-status member (set by the exit system call) on every path
    ix = idxs['hexsim.cpp']
    rf = ix.func('hexsim::Processor::run')
    rets = [r for r in walk(rf.body) if r['kind'] == 'ReturnStmt']
    good = bool(rets) and all(children(r) and (cast.member_ref(children(r)[0]) or (None,))[0] == 'exitCode' for r in rets)
    sysc = ix.func('hexsim::Processor::syscall')
    sets = [x for x in walk(sysc.body) if x['kind'] == 'BinaryOperator' and x.get('opcode') == '=' and
            (cast.member_ref(children(x)[0]) or (None,))[0] == 'exitCode']
    rep.add('R3', 'hexsim::Processor::run:returns-exit-value', good and len(sets) == 1, pos(rf.node) + ' hexsim::Processor::run',
            '%d return statement(s), all return exitCode; exitCode assigned at %d site(s) in syscall()' % (len(rets), len(sets)) if good else
            'run() has a return that is not the exit value set by the exit system call')
    # xrun: compile failure must give non-zero
    idx = idxs['xrun.cpp']
    m = main_of(idx)
    cl = CompileStatusClient(idx)
    fl = flow.Flow(cl, idx)
    o = fl.run(m.body, {('none', None)})
    bad = [r for r in cl.rets if r[0] == 'failed' and (r[1] == 0)]
    for s in o.normal:
        if s[0] == 'failed':
            bad.append(('failed', 0, 'end of main'))
    seen_fail = any(r[0] == 'failed' for r in cl.rets) or any(s[0] == 'failed' for s in o.normal)
    rep.add('R3', 'xrun.cpp:compile-status', seen_fail and not bad, pos(m.node) + ' main(xrun.cpp)',
            ('compilation failure path returns 0 at ' + ', '.join(str(b[2]) for b in bad)) if bad else
            ('no path on which compilation fails was found' if not seen_fail else
             'every path after a failed compilation returns non-zero'))


def _returned_via_variable(idx, m, site):
    """(True | False | None, how): the run() result is stored in a variable; every return that follows in the variable's scope (= every
    path that has executed the program) must hand that variable back.  A constant returned under `variable == k` is the same value
    when k and the constant agree in their low eight bits."""
    order = {id(n): k for k, n in enumerate(walk(m.body))}
    parent = {}
    for n in walk(m.body):
        for c in children(n):
            parent[id(c)] = n
    vid, holder, name = None, None, '?'
    for d in walk(m.body):
        if d['kind'] == 'VarDecl' and any(x.get('id') == site['id'] for x in walk(d)):
            vid, holder, name = d['id'], d, d.get('name')
            break
    if vid is None:
        for a in walk(m.body):
            if a['kind'] == 'BinaryOperator' and a.get('opcode') == '=' and any(x.get('id') == site['id'] for x in walk(children(a)[1])):
                vid, holder = cast.decl_ref(children(a)[0]), a
                name = (idx.by_id.get(vid) or {}).get('name', '?') if vid else '?'
                break
    if not vid:
        return False, 'result is discarded (expression statement); main returns a constant instead'
    scope = holder
    while id(scope) in parent and scope['kind'] != 'CompoundStmt':
        scope = parent[id(scope)]
    later = [r for r in walk(scope) if r['kind'] == 'ReturnStmt' and children(r) and order[id(r)] > order[id(site)]]
    if not later:
        rets = [r for r in walk(m.body) if r['kind'] == 'ReturnStmt' and children(r) and cast.decl_ref(children(r)[0]) == vid]
        if rets:
            return True, 'stored in `%s` and returned at %s' % (name, pos(rets[0]))
        return False, 'stored in `%s`, which no return statement hands back' % name

    def mentions(e):
        return any(y['kind'] == 'DeclRefExpr' and (y.get('referencedDecl') or {}).get('id') == vid for y in walk(e))
    verdict, notes = True, []
    for r in later:
        e = strip(children(r)[0])
        if cast.decl_ref(children(r)[0]) == vid:
            continue
        c = const_int(e, idx)
        if c is None:
            verdict = None if verdict is not False else False
            notes.append('the return at %s hands back an expression this rule does not evaluate' % pos(r))
            continue
        # guards between the return and the scope that mention the variable
        guards = []
        x = r
        while id(x) in parent and x is not scope:
            p_ = parent[id(x)]
            if p_['kind'] == 'IfStmt':
                ch = children(p_)
                i = 1 if (p_.get('hasInit') or p_.get('hasVar')) else 0
                if mentions(ch[i]):
                    guards.append((ch[i], x is ch[i + 1]))
            x = p_
        if not guards:
            verdict = False
            notes.append('the return at %s hands back the constant %d whatever the program\'s exit value was' % (pos(r), c))
            continue
        same = None
        for g, in_then in guards:
            gx = strip(g)
            if gx['kind'] == 'BinaryOperator' and gx.get('opcode') == '==' and in_then:
                ka, kb = children(gx)
                k = const_int(kb, idx) if cast.decl_ref(ka) == vid else (const_int(ka, idx) if cast.decl_ref(kb) == vid else None)
                if k is not None:
                    same = ((k & 0xFF) == (c & 0xFF))
        if same is True:
            continue
        if same is False:
            verdict = False
            notes.append('when the program\'s exit value makes the test at %s true, main returns %d instead of it' % (pos(guards[0][0]), c))
        else:
            verdict = None if verdict is not False else False
            notes.append('the constant return at %s is guarded by a test of the value that this rule does not evaluate' % pos(r))
    if verdict is True:
        return True, 'stored in `%s`; every return that follows (%d) hands it back' % (name, len(later))
    return verdict, '; '.join(notes)


class CompileStatusClient(flow.Client):
    """state = (compile status: none | ok | failed | unknown, id of the variable holding the status)"""

    def __init__(self, idx):
        self.idx = idx
        self.rets = []

    def _is_compile(self, e):
        for c in calls_in(e):
            if callee_of(c)[1] == 'runCatchExceptions':
                return True
        return False

    def decl(self, d, s):
        if self._is_compile(d):
            return [('unknown', d['id'])]
        return [s]

    def expr(self, e, s):
        if self._is_compile(e):
            return [('unknown', None)]
        return [s]

    def cond(self, e, s):
        x = strip(e)
        involved = self._is_compile(e) or (s[1] is not None and any(
            y['kind'] == 'DeclRefExpr' and y.get('referencedDecl', {}).get('id') == s[1] for y in walk(e)))
        if not involved:
            return [s], [s]
        var = s[1]
        if x['kind'] == 'BinaryOperator' and x.get('opcode') in ('==', '!='):
            a, b = children(x)
            v = const_int(b, self.idx)
            if v is None:
                v = const_int(a, self.idx)
            if v == 0:
                t, f = ('ok', var), ('failed', var)
                if x['opcode'] == '!=':
                    t, f = f, t
                return [t], [f]
        if x['kind'] == 'UnaryOperator' and x.get('opcode') == '!':
            return [('ok', var)], [('failed', var)]
        # plain `if (status)`
        return [('failed', var)], [('ok', var)]

    def ret(self, stmt, s):
        ch = children(stmt)
        v = const_int(ch[0], self.idx) if ch else None
        if ch and s[1] is not None and cast.decl_ref(ch[0]) == s[1]:
            v = 'status'
        self.rets.append((s[0], v, pos(stmt)))
        return [s]


# --------------------------------------------------------------------------------------------------
# R4: who may open an output file; nothing can be rejected after the output file has been opened
# --------------------------------------------------------------------------------------------------

ALLOWED_WRITERS = {
    'hexasm::CodeGen::emitBin': 'the one place the assembler/compiler writes its binary',
    'hex::HexSimIO::output': 'simulator stream routing (simout<n>)',
    'hex::HexSimIO::input': 'simulator stream routing (simin<n>, opened for reading through the shared fstream array)',
}

# throw sites that may be reachable after the output has been opened, each with the reason it cannot fire there
ACCEPTED_LATE_THROWS = {
    'hexasm::tokenToInstr': 'default branch of the mnemonic switch; instruction directives are only ever constructed '
                            'with mnemonic tokens (parser switch / CodeBuffer::gen*), checked by C05/C01 label rules',
    'hexasm::tokenToOprInstr': 'default branch; InstrOp validates its opcode in its constructor (re-verified on every run)',
}


def rule_r4(rep, idxs):
    rep.rule('R4', 'output files are opened only in the designated writer functions, and no repository error can be '
             'thrown after hexasm::CodeGen::emitBin has opened the output file (accepted internal-invariant throws '
             'are listed with reasons)', floor=2, floor_reason='emitBin and HexSimIO::output open sites')
    seen = set()
    for tu in ('hexasm.cpp', 'xcmp.cpp', 'xrun.cpp', 'hexsim.cpp'):
        idx = idxs[tu]
        for f in idx.all_funcs():
            if f.body is None:
                continue
            for d in walk(f.body):
                opens = False
                if d['kind'] == 'VarDecl' and any(t in dqt_all(d) for t in OUT_STREAM_TYPES):
                    if any(c['kind'] == 'CXXConstructExpr' and [a for a in children(c) if a['kind'] != 'CXXDefaultArgExpr']
                           for c in walk(d)):
                        opens = True
                if d['kind'] == 'CXXMemberCallExpr':
                    kind, name, did, obj = callee_of(d)
                    if name == 'open' and obj is not None and any(t in dqt_all(obj) for t in OUT_STREAM_TYPES):
                        # an fstream opened with exactly the input mode (std::fstream::in, possibly | binary) is not an output file
                        a_ = cast.call_args(d)
                        flags = {(x.get('referencedDecl') or {}).get('name') for x in walk(a_[1]) if x.get('kind') == 'DeclRefExpr'} if len(a_) > 1 else set()
                        opens = not (flags and flags <= {'in', 'binary'})
                if opens:
                    key = f.qname
                    if (key, pos(d)) in seen:
                        continue
                    seen.add((key, pos(d)))
                    ok = key in ALLOWED_WRITERS
                    if ok:
                        rep.add('R4', 'open-in:' + key, ok, pos(d) + ' ' + f.qname, ALLOWED_WRITERS.get(key), nontrivial=False)
                        continue
                    # an output file opened somewhere else: what matters is that nothing can reject the input afterwards
                    parents = {}
                    for a_ in walk(f.body):
                        for b_ in children(a_):
                            parents[id(b_)] = a_
                    late = []
                    x = d
                    while id(x) in parents:
                        p_ = parents[id(x)]
                        if p_['kind'] == 'CompoundStmt':
                            sibs = children(p_)
                            i_ = next((j for j, s_ in enumerate(sibs) if s_ is x), None)
                            if i_ is not None:
                                late += sibs[i_ + 1:]
                        x = p_
                    sid = d.get('id') if d['kind'] == 'VarDecl' else (cast.decl_ref(callee_of(d)[3]) if callee_of(d)[3] is not None else None)
                    if late and sid is not None and open_failure_guard(late[0], sid):
                        late = late[1:]        # taken only when the open failed: no file exists
                    try:
                        reach = reachable_throws(idx, late)
                    except AnalysisBroken as e:
                        rep.undecided('R4', 'open-in:' + key, 'an output stream is opened in %s and what can throw afterwards could not be determined: %s' % (key, e), pos(d) + ' ' + f.qname)
                        continue
                    bad = {q: p2 for q, p2 in reach.items() if q not in ACCEPTED_LATE_THROWS}
                    rep.add('R4', 'open-in:' + key, not bad, pos(d) + ' ' + f.qname,
                            ('an output stream is opened in %s and the input can still be rejected afterwards (%s): a diagnostic then leaves an '
                             'empty or truncated output file behind' % (key, ', '.join('%s at %s' % kv for kv in sorted(bad.items())[:4]))) if bad else
                            'an output stream is opened in %s; no repository error can be raised after that point' % key, nontrivial=False)
    # late throws
    idx = idxs['xcmp.cpp']
    emit = idx.func_where('hexasm::CodeGen::emitBin', lambda g: any(d_['kind'] == 'VarDecl' and any(t in dqt_all(d_) for t in OUT_STREAM_TYPES) for d_ in walk(g.body)))
    rep.analysed(emit.sig, 'xcmp.cpp')
    opened = False
    late = []
    stream_id = None
    for st in children(emit.body):
        if not opened:
            vds = [d for d in walk(st) if d['kind'] == 'VarDecl' and any(t in dqt_all(d) for t in OUT_STREAM_TYPES)]
            if vds:
                opened = True
                stream_id = vds[0]['id']
            continue
        if not late and open_failure_guard(st, stream_id):
            continue        # taken only when the open failed: no file exists, rejecting here leaves nothing behind (see R7)
        late.append(st)
    if not opened:
        raise AnalysisBroken('emitBin no longer opens a std::fstream (anchor changed)')
    reach = reachable_throws(idx, late)
    bad = {q: p for q, p in reach.items() if q not in ACCEPTED_LATE_THROWS}
    rep.add('R4', 'no-reject-after-open:hexasm::CodeGen::emitBin', not bad, pos(emit.node) + ' hexasm::CodeGen::emitBin',
            ('throw reachable after the output file is opened (a rejected input leaves a truncated binary): ' +
             ', '.join('%s at %s' % kv for kv in bad.items())) if bad else
            'throw sites reachable after open: %s (all accepted internal-invariant defaults)' % sorted(reach))
    verify_late_throw_exemptions(rep, idx)
    # emitBin callers construct CodeGen (label resolution, where assembler errors are raised) first: C++ scoping
    # guarantees construction precedes the member call; the remaining obligation is that validation lives in the
    # constructor path, i.e. resolveLabels is called from the constructor.
    ctor = [c for c in idx.records['hexasm::CodeGen'].ctors if c.body is not None and not c.node.get('isImplicit')]
    names = set()
    for c in ctor:
        for x in calls_in(c.body):
            names.add(callee_of(x)[1])
    rep.add('R4', 'validate-before-emit:hexasm::CodeGen::CodeGen', 'resolveLabels' in names and 'createLabelMap' in names,
            pos(ctor[0].node) if ctor else '?', 'constructor calls %s' % sorted(n for n in names if n))


STATE_TESTS = {'is_open', 'fail', 'good', 'bad', 'operator!', 'operator bool'}


def open_failure_guard(st, var_id):
    """True if `st` is `if (<test of the state of stream var_id, possibly negated>) { ... throw ... }` -- the branch taken when the
    open failed, in which no file has been created."""
    if st.get('kind') != 'IfStmt':
        return False
    ch = children(st)
    if len(ch) < 2 or not any(x['kind'] == 'CXXThrowExpr' for x in walk(ch[1])):
        return False
    tests = 0
    for x in walk(ch[0]):
        if x['kind'] in ('CXXMemberCallExpr', 'CXXOperatorCallExpr'):
            kind, name, did, obj = callee_of(x)
            if name in STATE_TESTS and any(y['kind'] == 'DeclRefExpr' and (y.get('referencedDecl') or {}).get('id') == var_id for y in walk(x)):
                tests += 1
            elif name not in STATE_TESTS:
                return False
        if x['kind'] == 'DeclRefExpr' and (x.get('referencedDecl') or {}).get('kind') in ('VarDecl', 'ParmVarDecl') and \
                (x.get('referencedDecl') or {}).get('id') != var_id:
            return False
    return tests > 0


def rule_r7(rep, idxs):
    rep.rule('R7', 'a failure to open the binary output file is an error like any other: directly after the output stream is opened its '
             'state is tested and a failed open raises an exception (which R1 turns into a diagnostic and a non-zero status); nothing is '
             'written before the test', floor=1, floor_reason='hexasm::CodeGen::emitBin (shared by hexasm, xcmp and xrun)')
    idx = idxs['xcmp.cpp']
    emit = idx.func_where('hexasm::CodeGen::emitBin', lambda g: any(d_['kind'] == 'VarDecl' and any(t in dqt_all(d_) for t in OUT_STREAM_TYPES) for d_ in walk(g.body)))
    stmts = children(emit.body)
    for i, st in enumerate(stmts):
        vds = [d for d in walk(st) if d['kind'] == 'VarDecl' and any(t in dqt_all(d) for t in OUT_STREAM_TYPES)]
        if not vds:
            continue
        vid = vds[0]['id']
        nxt = stmts[i + 1] if i + 1 < len(stmts) else None
        ok = nxt is not None and open_failure_guard(nxt, vid)
        rep.add('R7', 'open-failure-diagnosed:hexasm::CodeGen::emitBin', ok, pos(st) + ' hexasm::CodeGen::emitBin',
                'the statement after the open tests the stream and throws' if ok else
                'the output stream is written without testing whether the open succeeded: with an unwritable -o path the tool prints '
                'nothing, writes nothing and exits 0')
        return
    raise AnalysisBroken('emitBin no longer opens a std::fstream (anchor changed)')


def verify_late_throw_exemptions(rep, idx, rid='R4'):
    """The reasons recorded in ACCEPTED_LATE_THROWS are claims about the code; each is re-established on every run."""
    from .. import ivinterp
    from ..ivinterp import Thrown, const as iconst
    toks = idx.enum('hexasm::Token')
    # (a) tokenToOprInstr: every operand token that the InstrOp constructors accept is mapped without throwing
    rec = idx.record('hexasm::InstrOp')
    f_opr = idx.func('hexasm::tokenToOprInstr')
    bad = []
    n_acc = 0
    for ctor in [c for c in rec.ctors if c.body is not None and not c.node.get('isImplicit') and len(c.params) >= 2]:
        for name, v in sorted(toks.items()):
            I = ivinterp.Interp(idx)
            args = []
            for prm in ctor.params:
                t = qt(prm)
                if 'Token' in t:
                    args.append(iconst(32, True, toks['OPR'] if len([a for a in args if isinstance(a, ivinterp.IV)]) == 0 else v))
                else:
                    args.append(ivinterp.Obj('hexutil::Location', {}, 'location'))
            try:
                I.construct('hexasm::InstrOp', args)
            except Thrown:
                continue
            except AnalysisBroken:
                raise
            n_acc += 1
            try:
                ivinterp.Interp(idx).invoke(f_opr, None, [iconst(32, True, v)])
            except Thrown as e:
                bad.append('InstrOp(%s) is constructed without complaint but tokenToOprInstr(%s) throws (%s)' % (name, name, e))
    rep.add(rid, 'exemption-holds:hexasm::tokenToOprInstr', not bad and n_acc > 0, pos(f_opr.node) + ' hexasm::tokenToOprInstr',
            ('; '.join(sorted(set(bad)))[:600] + ': the rejection surfaces only in getValue(), i.e. during emission, after the output file has '
             'been opened') if bad else '%d (constructor, operand) pairs accepted; all are mapped' % n_acc)
    # (b) tokenToInstr: every token with which an instruction directive is constructed has a case
    f_ins = idx.func('hexasm::tokenToInstr')
    accepted = set()
    for name, v in toks.items():
        try:
            ivinterp.Interp(idx).invoke(f_ins, None, [iconst(32, True, v)])
            accepted.add(name)
        except Thrown:
            pass
    from . import c05 as _c05
    rev = {v: k for k, v in toks.items()}
    bad = []
    unknown_sites = []
    n_sites = 0
    for f in idx.all_funcs():
        if f.body is None or f.node.get('isImplicit'):
            continue
        for c in calls_in(f.body):
            kind, name, did, obj = callee_of(c)
            if name != 'make_unique' or not any(t in qt(c) for t in ('InstrImm', 'InstrLabel', 'InstrStackOffset')):
                continue
            args = cast.call_args(c)
            tok_args = [a for a in args if 'Token' in (dqt_all(a))]
            tokv = cast.const_int(tok_args[0], idx) if tok_args else None
            if tokv is not None:
                mn = [rev.get(tokv)]
            else:
                # a token variable: the case labels around the site bound it only when it is the value the switch dispatches on
                from .. import robust as _rb
                par_ = {}
                for a_ in walk(f.body):
                    for b_ in children(a_):
                        par_[id(b_)] = a_
                if tok_args and _rb._is_switch_subject(idx, tok_args[0], c, par_):
                    mn = _c05._enclosing_case_tokens(idx, f, c, rev)
                else:
                    unknown_sites.append('%s at %s' % (f.qname, pos(c)))
                    mn = []
            for m in mn:
                n_sites += 1
                if m not in accepted and 'InstrStackOffset' not in qt(c):
                    bad.append('%s constructs an instruction with token %s at %s' % (f.qname, m, pos(c)))
    if unknown_sites and not bad:
        rep.undecided(rid, 'exemption-holds:hexasm::tokenToInstr', 'instructions are constructed with a token this rule cannot bound (%s): whether '
                      'tokenToInstr has a case for it is not decided' % '; '.join(unknown_sites[:3]), pos(f_ins.node) + ' hexasm::tokenToInstr')
        return
    rep.add(rid, 'exemption-holds:hexasm::tokenToInstr', not bad and n_sites >= 20, pos(f_ins.node) + ' hexasm::tokenToInstr',
            '; '.join(bad)[:600] if bad else '%d (construction site, mnemonic) pairs, all have a case in tokenToInstr' % n_sites)


def rule_r8(rep, idxs):
    rep.rule('R8', 'an option\'s value takes effect: an object that is constructed from a variable which the argument loop assigns (e.g. the '
             'cycle limit passed by value to the simulator) is constructed after that loop, not before it', floor=2,
             floor_reason='hexsim.cpp and xrun.cpp construct the simulator from maxCycles')
    for tu in ('hexsim.cpp', 'xrun.cpp'):
        idx = idxs[tu]
        m = main_of(idx)
        order = {id(n): k for k, n in enumerate(walk(m.body))}
        loops = [n for n in walk(m.body) if n['kind'] == 'ForStmt' and any(x['kind'] == 'StringLiteral' for x in walk(n))]
        if len(loops) != 1:
            rep.undecided('R8', tu + ':option-loop', 'argument parsing is not a single for-loop over argv: idiom not recognised', pos(m.node))
            continue
        loop = loops[0]
        assigned = set()
        for x in walk(loop):
            if x['kind'] == 'BinaryOperator' and x.get('opcode') == '=':
                v = cast.decl_ref(children(x)[0])
                if v:
                    assigned.add(v)
        n = 0
        for d in walk(m.body):
            if d['kind'] != 'VarDecl' or 'Processor' not in qt(d):
                continue
            used = {(x.get('referencedDecl') or {}).get('id') for c in children(d) for x in walk(c) if x['kind'] == 'DeclRefExpr'} & assigned
            if not used:
                continue
            n += 1
            names = sorted(idx.by_id[v].get('name', '?') for v in used if v in idx.by_id)
            early = order[id(d)] < order[id(loop)]
            rep.add('R8', '%s:%s constructed from %s' % (tu, d.get('name'), ','.join(names)), not early, pos(d) + ' main(%s)' % tu,
                    ('%s is constructed (copying %s) before the loop that parses the options: the option is accepted and ignored'
                     % (d.get('name'), ','.join(names))) if early else 'constructed after the options have been parsed')
        if n == 0:
            rep.undecided('R8', tu + ':option-consumer', 'no object constructed from an option variable found: idiom not recognised', pos(m.node))


def rule_r11(rep, idxs):
    rep.rule('R11', '"xrun behaves like xcmp followed by hexsim on the result": on every path on which xrun loads and runs a binary, the '
             'compiler has been run on the given source in this invocation and returned 0 (no reuse of an older binary)', floor=1)
    idx = idxs['xrun.cpp']
    m = main_of(idx)

    class C(flow.Client):
        def __init__(self_):
            self_.bad = []

        def _tf(self_, e, s_):
            x = strip(e)
            if x['kind'] == 'BinaryOperator' and x.get('opcode') in ('||', '&&'):
                a, b = children(x)
                at, af = self_._tf(a, s_)
                if x['opcode'] == '||':
                    bt, bf = [], []
                    for st in af:
                        t2, f2 = self_._tf(b, st)
                        bt += t2
                        bf += f2
                    return at + bt, bf
                bt, bf = [], []
                for st in at:
                    t2, f2 = self_._tf(b, st)
                    bt += t2
                    bf += f2
                return bt, af + bf
            if x['kind'] == 'UnaryOperator' and x.get('opcode') == '!':
                t, f_ = self_._tf(children(x)[0], s_)
                return f_, t
            calls = [c for c in calls_in(x) if callee_of(c)[1] == 'runCatchExceptions']
            if calls and x['kind'] == 'BinaryOperator' and x.get('opcode') in ('==', '!='):
                zero = any(cast.const_int(c_, idx) == 0 for c_ in children(x))
                if zero:
                    return ([True], [s_]) if x['opcode'] == '==' else ([s_], [True])
            r_ = list(self_.expr(e, s_))
            return r_, r_

        def cond(self_, e, s_):
            return self_._tf(e, s_)

        def expr(self_, e, s_):
            for c in calls_in(e):
                kind, name, did, obj = callee_of(c)
                if name in ('load', 'run') and obj is not None and 'Processor' in dqt_all(obj) and not s_:
                    self_.bad.append(pos(c))
            return [s_]
    cl = C()
    flow.Flow(cl, idx).run(m.body, {False})
    rep.add('R11', 'xrun.cpp:compile-dominates-simulation', not cl.bad, pos(m.node) + ' main(xrun.cpp)',
            ('the simulator is loaded / run at %s on a path on which the compiler has not been run successfully in this invocation: whatever '
             'binary lies in the directory is executed' % sorted(set(cl.bad))) if cl.bad else
            'load() and run() are only reached after runCatchExceptions(...) == 0')


def rule_r9(rep, idxs):
    rep.rule('R9', 'an empty source is a source: where a tool copies its input with `stream << other.rdbuf()`, the target\'s state is reset '
             'afterwards -- inserting an empty stream buffer sets failbit (and never eofbit), after which the lexer cannot reach '
             'END_OF_FILE; a lexer that reads the file directly is not affected', floor=2, floor_reason='hexasm.cpp and xcmp.cpp lexers')
    for tu, ns in (('hexasm.cpp', 'hexasm'), ('xcmp.cpp', 'xcmp')):
        idx = idxs[tu]
        hits = []
        for f in idx.all_funcs():
            if f.body is None or not f.qname.startswith(ns + '::Lexer'):
                continue
            for c in calls_in(f.body):
                kind, name, did, obj = callee_of(c)
                if name == 'operator<<' and any(callee_of(x)[1] == 'rdbuf' for x in calls_in(c)):
                    cleared = any(callee_of(x)[1] == 'clear' and any(t_ in (dqt_all(callee_of(x)[3]) if callee_of(x)[3] is not None else '') for t_ in ('stream', 'basic_ios'))
                                  for x in calls_in(f.body))
                    hits.append((f.qname, pos(c), cleared))
        bad = [h for h in hits if not h[2]]
        rep.add('R9', tu + ':lexer-input-copy', not bad, (bad[0][1] if bad else tu) + ' ' + ns + '::Lexer',
                ('%s copies the source with << rdbuf() and never clears the stream state: for an empty file failbit is set and the lexer '
                 'never sees the end of the input (an empty source is rejected instead of assembled)' % bad[0][0]) if bad else
                ('the lexer reads its stream directly' if not hits else 'stream state is cleared after the copy'), nontrivial=bool(hits))


def reachable_throws(idx, stmts, depth=10):
    """{qualified function: position} of throw expressions reachable through resolved callees."""
    out = {}
    seen = set()

    def nodes_outside_throw_operands(node):
        # calls in the operand of a throw expression run only while that throw (recorded for its owner) is being raised
        if 'kind' not in node:
            return
        yield node
        if node.get('kind') == 'CXXThrowExpr':
            return
        for c in children(node):
            for y in nodes_outside_throw_operands(c):
                yield y

    def visit(node, owner, d):
        for x in nodes_outside_throw_operands(node):
            if x['kind'] == 'CXXThrowExpr':
                out.setdefault(owner, pos(x))
            if x['kind'] in ('CXXConstructExpr', 'CXXTemporaryObjectExpr') and d < depth:
                # a constructor of a repository class runs its initialisers and body (CodeGen resolves the labels there)
                import re as _re
                tn = _re.sub(r'^(const )?(class |struct )?', '', qt(x)).strip()
                rec_ = idx.records.get(tn)
                ct = ((x.get('ctorType') or {}).get('qualType') or '').strip()
                for c_ in (rec_.ctors if rec_ is not None else []):
                    if c_.type.strip() == ct and c_.id not in seen and (c_.body is not None or c_.inits):
                        seen.add(c_.id)
                        if c_.body is not None:
                            visit(c_.body, c_.qname, d + 1)
                        for ini in c_.inits:
                            visit(ini, c_.qname, d + 1)
            if x['kind'] in cast.CALL_KINDS and d < depth:
                kind, name, did, obj = callee_of(x)
                targets = []
                g = idx.func_by_id.get(did) if did else None
                if g is not None:
                    targets.append(g)
                    # virtual dispatch: all overriders of the same name in derived classes
                    if g.node.get('virtual') or g.node.get('pure'):
                        for h in idx.all_funcs():
                            if h.name == g.name and h.cls and g.cls and h.cls != g.cls and idx.derives_from(h.cls, g.cls):
                                targets.append(h)
                for g in targets:
                    if getattr(g, 'defn', None) and g.body is None:
                        g = g.defn
                    if g.id in seen or g.body is None:
                        continue
                    seen.add(g.id)
                    visit(g.body, g.qname, d + 1)
                    for ini in g.inits:
                        visit(ini, g.qname, d + 1)
    for s in stmts:
        visit(s, '(emitBin)', 0)
    return out


# --------------------------------------------------------------------------------------------------
# R5/R6: option order independence; success status
# --------------------------------------------------------------------------------------------------

def rule_r5(rep, idxs):
    rep.rule('R5', 'argument parsing is one loop over argv in which the -o branch and the positional branch are '
             'alternatives of the same if-chain and neither leaves the loop, so -o is handled identically before '
             'and after the file name', floor=2)
    for tu in ('hexasm.cpp', 'xcmp.cpp'):
        idx = idxs[tu]
        m = main_of(idx)
        loops = [n for n in walk(m.body) if n['kind'] == 'ForStmt']
        argloops = []
        for l in loops:
            lits = {x.get('value', '').strip('"') for x in walk(l) if x['kind'] == 'StringLiteral'}
            if '-o' in lits or '--output' in lits:
                argloops.append(l)
        problems = []
        if len(argloops) != 1:
            rep.undecided('R5', tu + ':arg-loop', 'argument parsing is not a single for-loop over argv (%d loops mention -o): idiom not recognised' % len(argloops))
            continue
        else:
            l = argloops[0]
            body = l['inner'][-1]
            # the if-chain: walk else-branches
            chain = [c for c in children(body) if c['kind'] == 'IfStmt']
            if len(chain) != 1:
                rep.undecided('R5', tu + ':arg-loop', 'the argument loop body is not a single if-chain: idiom not recognised')
                continue
            else:
                node = chain[0]
                while node is not None and node.get('kind') == 'IfStmt':
                    ch = children(node)
                    then = ch[1]
                    cond_lits = {x.get('value', '').strip('"') for x in walk(ch[0]) if x['kind'] == 'StringLiteral'}
                    helpish = bool(cond_lits & {'-h', '--help'})
                    for x in walk(then):
                        if x['kind'] == 'BreakStmt' or (x['kind'] == 'ReturnStmt' and not helpish):
                            problems.append('branch at %s leaves the argument loop' % pos(node))
                    node = ch[2] if len(ch) > 2 else None
                if node is not None:
                    for x in walk(node):
                        if x['kind'] in ('BreakStmt', 'ReturnStmt'):
                            problems.append('positional branch at %s leaves the argument loop' % pos(x))
        rep.add('R5', tu + ':arg-loop', not problems, pos(m.node) + ' main(' + tu + ')',
                '; '.join(problems) or 'single if-chain, no early exit except --help')


class EmitClient(flow.Client):
    def __init__(self, idx, names):
        self.idx = idx
        self.names = names
        self.rets = []

    def expr(self, e, s):
        for c in calls_in(e):
            if callee_of(c)[1] in self.names:
                return [True]
        return [s]

    def ret(self, stmt, s):
        ch = children(stmt)
        v = const_int(ch[0], self.idx) if ch else None
        self.rets.append((s, v, pos(stmt), ch[0] if ch else None))
        return [s]


def rule_r6(rep, idxs):
    rep.rule('R6', 'every non-exceptional path that has written the binary (emitBin) ends in status 0, and main returns '
             'the driver status unchanged', floor=3)
    for tu, qn in (('hexasm.cpp', 'main'), ('xcmp.cpp', 'xcmp::Driver::run')):
        idx = idxs[tu]
        f = idx.func(qn)
        cl = EmitClient(idx, {'emitBin'})
        o = flow.Flow(cl, idx).run(f.body, {False})
        bad = ['return %s at %s' % (v, p) for (s, v, p, _) in cl.rets if s and v != 0]
        n = sum(1 for (s, v, p, _) in cl.rets if s) + sum(1 for s in o.normal if s)
        if qn != 'main':
            bad += ['falls off the end' for s in o.normal if s]
        rep.add('R6', '%s:%s:status-after-emit' % (tu, qn), n > 0 and not bad, pos(f.node) + ' ' + f.qname,
                '; '.join(bad) or '%d exits after emitBin, all with status 0' % n)
        rep.analysed(f.sig, tu)
    idx = idxs['xcmp.cpp']
    m = main_of(idx)
    ok = False
    for r in walk(m.body):
        if r['kind'] == 'ReturnStmt' and children(r):
            for c in calls_in(children(r)[0]):
                if callee_of(c)[1] == 'runCatchExceptions' and strip(children(r)[0]).get('id') == c['id']:
                    ok = True
    rep.add('R6', 'xcmp.cpp:main:returns-driver-status', ok, pos(m.node) + ' main(xcmp.cpp)',
            'main returns runCatchExceptions(...) directly' if ok else 'the driver status is not returned by main')


EXITS = ('exit', '_Exit', 'quick_exit')


def rule_r12(rep, idxs):
    rep.rule('R12', 'a direct exit from main() outside the branches of informational options (--help ...) is an error exit: every std::exit reached from main (directly or '
             'through a usage()/help() helper, the status followed through the helper\'s parameter and its default) that does not sit '
             'under the test for -h/--help passes a non-zero status (e.g. "a file must be specified" produces no output, so it must '
             'not report success)', floor=5)
    for tu in MAINS:
        ix = idxs[tu]
        m = [f for f in ix.all_funcs() if f.name == 'main' and f.body is not None and not f.cls][0]
        parents = {}
        for a in walk(m.body):
            for b in children(a):
                parents[id(b)] = a

        def help_branch(n):
            x = n
            while id(x) in parents:
                p_ = parents[id(x)]
                if p_['kind'] == 'IfStmt' and children(p_)[0] is not x and len(children(p_)) > 1 and any(z is x for z in walk(children(p_)[1])):
                    lits = [cast.string_lit(c) for c in cast.calls_in(children(p_)[0]) if callee_of(c)[1] == 'strcmp']
                    if any(isinstance(l, str) and l.startswith('-') for l in lits):
                        return True      # an exit requested by an option (--help, --version, ...): its status is not an error report
                x = p_
            return False

        def status_of_call(c, depth=0):
            """Exit statuses a call can end the process with: list of (value or None, description)."""
            kind, name, did, obj = callee_of(c)
            if name in EXITS:
                a = cast.call_args(c)
                return [(cast.const_int(a[0], ix) if a else None, name)]
            g = ix.func_by_id.get(did) if did else None
            if g is None or g.body is None or depth > 2 or g is m:
                return []
            out = []
            for c2 in cast.calls_in(g.body):
                if callee_of(c2)[1] in EXITS:
                    a2 = cast.call_args(c2)
                    v = cast.const_int(a2[0], ix) if a2 else None
                    if v is None and a2:
                        pid = cast.decl_ref(a2[0])
                        for i_, prm in enumerate(g.params):
                            if prm.get('id') == pid:
                                args = cast.call_args(c)
                                if i_ < len(args) and args[i_].get('kind') != 'CXXDefaultArgExpr':
                                    v = cast.const_int(args[i_], ix)
                                else:
                                    dflt = [k for k in children(prm) if 'kind' in k]
                                    v = cast.const_int(dflt[-1], ix) if dflt else None
                    out.append((v, '%s -> %s' % (g.name, callee_of(c2)[1])))
            return out
        n = 0
        for c in cast.calls_in(m.body):
            sts = status_of_call(c)
            for v, how in sts:
                n += 1
                key = '%s:main:%s@%s' % (tu, how, pos(c).split(':')[-1])
                if help_branch(c):
                    rep.add('R12', key, True, pos(c) + ' main(%s)' % tu, 'exit requested by an option such as --help (status %r, not judged)' % v, nontrivial=False)
                elif v is None:
                    rep.undecided('R12', key, 'exit status is not a constant', pos(c) + ' main(%s)' % tu)
                else:
                    rep.add('R12', key, v != 0, pos(c) + ' main(%s)' % tu,
                            'error exit with status %d' % v if v != 0 else
                            'the process exits with status 0 on an error path (no --help requested): no output was produced, yet success is reported')
        if n == 0:
            rep.add('R12', '%s:main:no-direct-exit' % tu, True, pos(m.node) + ' main(%s)' % tu, 'main never exits other than by returning', nontrivial=False)


# --------------------------------------------------------------------------------------------------
# R14: "xrun behaves like xcmp followed by hexsim": both mains configure the simulator object alike
# --------------------------------------------------------------------------------------------------

def _const_of(e, idx):
    e = cast.strip(e)
    if e['kind'] == 'CXXBoolLiteralExpr':
        return 1 if e.get('value') in (True, 'true') else 0
    return cast.const_int(e, idx)


def _simple_setter(g):
    """(member name) if the method is `member = parameter;` and nothing else, else None."""
    if g is None or g.body is None or len(g.params) != 1:
        return None
    sts = children(g.body)
    if len(sts) != 1:
        return None
    x = cast.strip(sts[0])
    if x['kind'] != 'BinaryOperator' or x.get('opcode') != '=':
        return None
    m = cast.member_ref(children(x)[0])
    r = cast.strip(children(x)[1])
    if m and cast.is_this_member(children(x)[0]) and r['kind'] == 'DeclRefExpr' and (r.get('referencedDecl') or {}).get('id') == g.params[0]['id']:
        return m[0]
    return None


def _processor_configuration(idx, tu):
    """{member: ('const', v) | ('var', text)} for the configuration calls main (and the helpers of the same file it calls) makes on
    hexsim::Processor objects, plus the list of calls that are not simple setters."""
    from .. import initrules
    m = main_of(idx)
    funcs, seen = [m], {m.id}
    i = 0
    while i < len(funcs):
        for c in cast.calls_in(funcs[i].body):
            did = callee_of(c)[2]
            g = idx.func_by_id.get(did) if did else None
            if g is not None and getattr(g, 'defn', None) and g.body is None:
                g = g.defn
            if g is not None and g.body is not None and not g.cls and g.id not in seen and pos(g.node).split(':')[0].split('/')[-1] == tu:
                seen.add(g.id)
                funcs.append(g)
        i += 1
    conf, odd, sites = {}, [], 0
    for f in funcs:
        cond_nodes = set()
        for n in walk(f.body):
            if n['kind'] in ('IfStmt', 'ForStmt', 'WhileStmt', 'DoStmt', 'SwitchStmt', 'ConditionalOperator'):
                if n is not f.body:
                    for ch in children(n):
                        for y in walk(ch):
                            cond_nodes.add(id(y))
        # conditions of main that only select the error / compile-failed exits are not "conditional configuration": a call counts as
        # conditional only when an if / loop *inside which it sits* also contains no construction of the object it configures
        for c in cast.calls_in(f.body):
            kind, name, did, obj = callee_of(c)
            if kind != 'method' or obj is None or 'Processor' not in (qt(obj) + dqt(obj)):
                continue
            g = idx.func_by_id.get(did) if did else None
            if g is not None and getattr(g, 'defn', None) and g.body is None:
                g = g.defn
            if g is None or g.cls != 'hexsim::Processor' or name in ('load', 'run'):
                continue
            sites += 1
            mem = _simple_setter(g)
            a = cast.call_args(c)
            if mem is None or len(a) != 1:
                odd.append('%s at %s' % (name, pos(c)))
                continue
            v = _const_of(a[0], idx)
            # conditional relative to the object's own declaration?
            decl = cast.decl_ref(obj)
            decl_node = idx.by_id.get(decl) if decl else None
            conditional = False
            if decl_node is not None:
                for n in walk(f.body):
                    if n['kind'] in ('IfStmt', 'ForStmt', 'WhileStmt', 'DoStmt', 'SwitchStmt') and any(y is c for y in walk(n)) and \
                            not any(y is decl_node for y in walk(n)):
                        conditional = True
            if v is not None and not conditional:
                conf[mem] = ('const', v)
            else:
                conf[mem] = ('var', ' '.join(y.get('name', '') or (y.get('referencedDecl') or {}).get('name', '') for y in walk(a[0])
                                             if y['kind'] in ('DeclRefExpr', 'MemberExpr')) + (' (conditional)' if conditional else ''))
    return conf, odd, sites, funcs


def rule_r14(rep, idxs):
    rep.rule('R14', '"xrun behaves like xcmp followed by hexsim on the result": every simulator setting that xrun or hexsim fixes by a '
             'constant has the same value in the other tool (a setter call with a constant, or the constructor default when the tool '
             'makes no call)', floor=2, floor_reason='tracing and input truncation')
    from .. import initrules
    ih = idxs['hexsim.cpp']
    rec = ih.records.get('hexsim::Processor')
    if rec is None:
        rep.undecided('R14', 'processor-class', 'hexsim::Processor not found', 'hexsim.hpp')
        return
    confs = {}
    for tu in ('hexsim.cpp', 'xrun.cpp'):
        conf, odd, sites, funcs = _processor_configuration(idxs[tu], tu)
        confs[tu] = conf
        for o in odd:
            rep.undecided('R14', '%s:%s' % (tu, o.split(' ')[0]), 'configuration call %s is not a plain setter (member = argument): its effect is not modelled' % o, tu)
        for f in funcs:
            rep.analysed(f.sig, tu)
    # every configurable member: the ones a plain setter of the class assigns
    setters = {}
    for g in ih.all_funcs():
        if g.cls == 'hexsim::Processor' and g.body is not None:
            mem = _simple_setter(g)
            if mem:
                setters[mem] = g
    ctors = [c for c in rec.ctors if c.inits or c.body is not None]

    def default_of(mem):
        fld = next((f for f in rec.fields if f.get('name') == mem), None)
        if fld is None or len(ctors) != 1:
            return None
        how = initrules.ctor_initialised(ih, ctors[0], fld)
        if how and how[0] == 'mem-init':
            ch = children(how[1])
            return _const_of(ch[0], ih) if ch else None
        if how and how[0] == 'default-member-init':
            ch = children(fld)
            return _const_of(ch[-1], ih) if ch else None
        return None
    for mem in sorted(setters):
        vals = {}
        for tu in ('hexsim.cpp', 'xrun.cpp'):
            c = confs[tu].get(mem)
            if c is None:
                d = default_of(mem)
                vals[tu] = ('const', d) if d is not None else ('unknown', None)
            else:
                vals[tu] = c
        a, b = vals['hexsim.cpp'], vals['xrun.cpp']
        where = pos(setters[mem].node) + ' ' + setters[mem].qname
        if a[0] == 'const' and b[0] == 'const':
            rep.add('R14', 'setting:' + mem, a[1] == b[1], where,
                    'hexsim runs with %s = %s, xrun with %s = %s%s' % (mem, a[1], mem, b[1], '' if a[1] == b[1] else
                                                                      ': a program whose behaviour depends on this setting ends differently under xrun than under xcmp + hexsim'))
        elif a[0] == 'var' and b[0] == 'var':
            rep.add('R14', 'setting:' + mem, True, where, 'both tools set %s from an option variable (%s / %s)' % (mem, a[1].strip(), b[1].strip()))
        else:
            rep.undecided('R14', 'setting:' + mem, 'hexsim: %s, xrun: %s - a constant on one side and a variable (or nothing recognisable) on the '
                          'other cannot be compared' % (a, b), where)


def run(rep, tier):
    idxs = {tu: cast.load(tu) for tu in MAINS}
    rep.trusted = ['clang 14 AST (resolved callees, types)', 'frozen tables ALLOWED_WRITERS / ACCEPTED_LATE_THROWS in hexsa/rules/c14.py']
    rep.assumptions = ['exceptions escaping a try body may be of any type (every handler is analysed)',
                       'process exit status = value returned from main (std::exit calls exist only on the --help paths)']
    rule_r1(rep, idxs)
    rule_r2(rep, idxs)
    rule_r3(rep, idxs)
    rule_r4(rep, idxs)
    rule_r5(rep, idxs)
    rule_r6(rep, idxs)
    rule_r7(rep, idxs)
    rule_r8(rep, idxs)
    rule_r9(rep, idxs)
    rule_r11(rep, idxs)
    rule_r12(rep, idxs)
    rule_r14(rep, idxs)
    # R13: a formatting exception in the middle of a run replaces the program's exit status by 1
    from .. import robust
    rep.rule('R13', 'every boost::format string in the simulator, the drivers, the compiler and the assembler is fed exactly as many arguments as '
             'it has directives (a mismatch throws in the middle of the run: hexsim -t would end with status 1 instead of the program\'s '
             'exit value, a diagnostic would be replaced by another error)', floor=30)
    for tu in MAINS:
        robust.rule_format_arity(rep, 'R13', idxs[tu], ('hexsim::', 'hex::', 'xcmp::', 'hexasm::', 'hexutil::'), tu)
    # R10: "hexsim's and xrun's exit status is the program's exit value": the loader must not turn a valid image away (import of C02-R2)
    from .. import report as _report
    from . import c02
    rep.rule('R10', 'the simulator loads every image that fits its memory (size guards compare like with like) and loads exactly the image '
             '(import of C02-R2), so the exit status is the program\'s and not a loader refusal', floor=1)
    c02.rule_r2(_report.Import(rep, 'R10', 'C02', key_filter=lambda r, k: k.startswith('load:')), idxs['hexsim.cpp'])
