"""C17 -- listings agree with the binary they describe (engines I + Q)."""
import re
from .. import cast, spec_isa, ivinterp
from ..ivinterp import IV, Obj, Vec, NeedSplit, Thrown, const, aff_eq, aff_str
from ..frontend import AnalysisBroken
from ..cast import children, pos, walk, callee_of, dqt, qt
from . import c04, c05


def sym_iv(w, signed, lo, hi, sym):
    return IV(w, signed, lo, hi, None, None, ({sym: 1}, 0))


def listing_line(idx, B, d):
    """Interpret one iteration of emitProgramText for directive d; returns the (format, args) printed."""
    f = idx.func('hexasm::CodeGen::emitProgramText')
    loop, var, body, pre = c04.find_range_for(f)
    env = {'this': Obj('hexasm::CodeGen', {}, 'CodeGen'), 'locals': {}}
    for prm in f.params:
        env['locals'][prm['id']] = Obj('std::ostream', {}, 'out')
    for st in pre:
        B.I.stmt(st, env)
    env['locals'][var['id']] = d
    B.I.events = []
    B.I.stmt(body, env)
    prints = [e for e in B.I.events if e[0] == 'print' and isinstance(e[2], tuple) and e[2][0] == 'fmt']
    if len(prints) != 1:
        raise AnalysisBroken('emitProgramText: expected one formatted print per directive, found %d' % len(prints))
    return prints[0][2]


def nums_in(s):
    if isinstance(s, tuple) and s[0] == 'num':
        return [s[1]]
    if isinstance(s, tuple) and s[0] == 'cat':
        return [p[1] for p in s[1] if p[0] == 'num']
    return []


def text_of(s):
    if isinstance(s, tuple) and s[0] == 'str':
        return s[1]
    if isinstance(s, tuple) and s[0] == 'cat':
        return ''.join(p[1] if p[0] == 'str' else '<n>' for p in s[1])
    if isinstance(s, tuple) and s[0] == 'num':
        return '<n>'
    return repr(s)


def run(rep, tier):
    idx = cast.load('hexasm.cpp')
    rep.analysed(unit='hexasm.cpp')
    rep.trusted = ['clang 14 AST', 'interval/affine interpreter with abstract strings (hexsa/ivinterp.py)']
    rep.assumptions = ['PADDING lines are outside the property', 'boost::format prints its arguments in order, one per conversion']
    rep.rule('R1', 'for every directive kind the listing line prints, in this order, the directive\'s layout byte offset, its text and '
             'getSize() -- the same virtual getSize() and the same offsets that drive emission -- and the operand shown in the text is '
             'the value emission encodes (getValue())', floor=7)
    rep.rule('R2', 'layout == emission (as C05-R5): the offsets printed are the offsets at which the bytes are written, for every directive '
             'kind/sequence x start residue', floor=60)
    rep.rule('R3', 'the size and operand shown for an instruction are what the image contains: the getSize()-byte prefix chain written for '
             'an immediate reconstructs exactly the printed value (all value classes, as C04-R2/R3 for one mnemonic)', floor=40)
    rep.rule('R5', 'label references (as C05-R7/R7b): the offsets listed for the directives behind a reference that had to grow are the '
             'offsets of the final layout (every directive starts where the previous one ends), and a reference that is longer than its '
             'final operand needs is emitted with the listed number of bytes', floor=20)
    rep.rule('R6', 'the image is the same on every kind of output: the emitter counts the bytes it writes itself and never derives an offset from '
             'the stream position (tellp / seekp answer -1 on a pipe or FIFO, e.g. -o /dev/stdout, so alignment padding computed from '
             'them silently disappears while the listing still shows it)', floor=1)
    rep.rule('R4', 'both listing entry points print the CodeGen object that emitBin would emit, after label resolution', floor=2)
    asked = []
    for fn in ('hexasm::CodeGen::emitProgramBin', 'hexasm::CodeGen::emitBin', 'hexasm::CodeGen::emitDebugInfo'):
      for g in idx.overloads(fn):
        for c in cast.calls_in(g.body):
            if callee_of(c)[1] in ('tellp', 'seekp', 'tellg', 'seekg'):
                asked.append('%s in %s at %s' % (callee_of(c)[1], fn.split('::')[-1], pos(c)))
    rep.add('R6', 'emitter:offsets-are-counted', not asked, pos(idx.func('hexasm::CodeGen::emitProgramBin').node) + ' hexasm::CodeGen',
            ('byte offsets are taken from the stream position (%s): on a non-seekable output they are all -1, so no alignment padding is '
             'written and every DATA word and what follows sits lower in the image than listed' % '; '.join(asked)) if asked else
            'no stream position query in the emitter')
    f = idx.func('hexasm::CodeGen::emitProgramText')
    rep.analysed(f.sig)
    where = pos(f.node) + ' hexasm::CodeGen::emitProgramText'
    B = c05.Builder(idx)
    toks = idx.enum('hexasm::Token')

    def mk_cases():
        d = B.data()
        d.fields['value'] = sym_iv(32, True, -1000, 1000, 'VAL')
        i = B.imm('LDAC', sym_iv(32, True, 16, 127, 'VAL'))
        i2 = B.imm('LDAC', sym_iv(32, True, 128, 255, 'VAL'))
        ineg = B.imm('LDBC', sym_iv(32, True, -255, -16, 'VAL'))
        ineg2 = B.imm('LDBM', sym_iv(32, True, -255, -16, 'VAL'))
        ineg3 = B.imm('LDAC', sym_iv(32, True, -(1 << 31), -(1 << 28) - 1, 'VAL'))
        r = B.ref('BR', 'L')
        r.fields['labelValue'] = sym_iv(32, True, 16, 255, 'VAL')
        r.fields['assembled'] = const(1, False, 1)
        if 'size' in r.fields:
            r.fields['size'] = const(64, False, 2)
        ra = B.ref('LDAM', 'L')
        ra.fields['labelValue'] = sym_iv(32, True, 16, 255, 'VAL')
        ra.fields['assembled'] = const(1, False, 1)
        if 'size' in ra.fields:
            ra.fields['size'] = const(64, False, 2)
        return [('DATA', d, True), ('InstrImm', i, True), ('InstrImm-128..255', i2, True), ('InstrImm-negative', ineg, True),
                ('InstrImm-negative-LDBM', ineg2, True), ('InstrImm-strongly-negative', ineg3, True), ('InstrLabel-relative', r, True),
                ('InstrLabel-absolute', ra, True), ('InstrOp', B.opr('SVC'), False), ('label', B.label('x'), False),
                ('FUNC', B.func('f'), False), ('PROC', B.proc('p'), False)]
    for name, d, has_val in mk_cases():
        d.fields['byteOffset'] = sym_iv(32, True, 0, 1 << 20, 'OFF')
        try:
            fmt = listing_line(idx, B, d)
        except NeedSplit as e:
            rep.undecided('R1', name, 'listing not uniform: %s' % e, where)
            continue
        problems = []
        if B.I.ub:
            problems.append('undefined behaviour while the line is formatted: %s' % B.I.ub[:2])
            del B.I.ub[:]
        convs = re.findall(r'%[#0\- +]*\d*(?:\.\d+)?[a-zA-Z]', fmt[1])
        args = fmt[2]
        if len(args) != 3 or len(convs) != 3:
            problems.append('format %r has %d conversions and %d arguments (expected offset, text, size)' % (fmt[1], len(convs), len(args)))
        else:
            off, text, size = args
            if not (isinstance(off, IV) and off.aff is not None and off.aff[0] == {'OFF': 1} and off.aff[1] == 0):
                problems.append('first column is %r, not the directive\'s byte offset' % (off,))
            gs = B.I.invoke(B.I.resolve_method(d, 'getSize', None), d, [])
            if not (isinstance(size, IV) and isinstance(gs, IV) and size.concrete() and gs.concrete() and size.lo == gs.lo):
                problems.append('size column is %r, getSize() is %r' % (size, gs))
            if any('.' in c for c in convs[1:2]):
                problems.append('text column is truncated by a precision in %r' % convs[1])
            if has_val:
                gv = B.I.invoke(B.I.resolve_method(d, 'getValue', None), d, [])
                shown = nums_in(text)
                if not (len(shown) == 1 and isinstance(gv, IV) and shown[0].aff is not None and aff_eq(shown[0].aff, gv.aff)):
                    problems.append('text %r shows %s, emission encodes getValue() = %s' % (
                        text_of(text), [aff_str(x.aff) for x in shown], aff_str(gv.aff) if isinstance(gv, IV) else gv))
            # mnemonic shown = token emitted
            tt = text_of(text)
            if name.startswith('Instr') and name != 'InstrOp':
                tokv = d.fields['token'].lo
                mn = [k for k, v in toks.items() if v == tokv][0]
                if not tt.startswith(mn + ' '):
                    problems.append('text %r does not start with the mnemonic %s that is emitted' % (tt, mn))
        rep.add('R1', name, not problems, where, '; '.join(problems) if problems else 'prints (offset, %r, getSize)' % text_of(fmt[2][1]))
    # R2: import the layout == emission rule
    sub = _SubReport(rep, 'R2')
    c05.rule_layout_emission(sub, idx)
    # R5: references that grow / are longer than needed
    c05.rule_relative(_SubReport(rep, 'R5', 'R7'), idx, 'quick')
    c05.rule_oversized(_SubReport(rep, 'R5', 'R7b'), idx, 'R7b')
    c05.rule_data_after_growth(_KeyPrefix(_SubReport(rep, 'R5', 'R3d'), 'data-after-growth:'), idx, 'R3d')
    # R7: the word a DATA line shows is the word in the image
    rep.rule('R7', 'a DATA directive is written to the image as the 32-bit little-endian representation of the value its listing line '
             'shows (getValue()), whether the emitter writes the word at once or byte by byte -- for zero, small, mixed, negative and '
             'extreme values', floor=8)
    from ..ivinterp import NeedSplit as _NS, Thrown as _Th
    where_e = pos(idx.func('hexasm::CodeGen::emitProgramBin').node) + ' hexasm::CodeGen::emitProgramBin'
    for v in (0, 7, 42, 0x12345678, 0x7FFFFFFF, -1, -2, -65537, -0x12345678, -0x80000000):
        key = 'DATA %d' % v
        try:
            Bd = c05.Builder(idx)
            d = Bd.data(v)
            Bd.emit([d], 0, concrete_start=8)
            evs = list(Bd.state['bytes'])
        except (_NS, AnalysisBroken, _Th) as e:
            rep.undecided('R7', key, 'emission of a DATA word not interpreted: %s' % (getattr(e, 'what', None) or e), where_e)
            continue
        out, unknown = [], False
        for b in evs:
            if isinstance(b, tuple) and b[0] == 'write':
                sz, src = b[1][0], (b[2] if len(b) > 2 else None)
                if isinstance(sz, IV) and sz.concrete() and isinstance(src, IV) and src.concrete():
                    out += [((src.lo & ((1 << src.w) - 1)) >> (8 * i)) & 0xFF for i in range(sz.lo)] if sz.lo * 8 <= src.w else [None] * sz.lo
                    unknown = unknown or sz.lo * 8 > src.w
                else:
                    unknown = True
            elif isinstance(b, IV) and b.concrete():
                out.append(b.lo & 0xFF)
            else:
                unknown = True
        want = [((v & 0xFFFFFFFF) >> (8 * i)) & 0xFF for i in range(4)]
        if unknown:
            rep.undecided('R7', key, 'the bytes written for the word are not concrete in the model: %r' % (evs[:4],), where_e)
            continue
        got = out[-4:] if len(out) >= 4 else out
        rep.add('R7', key, got == want and len(out) == 4, where_e,
                'image bytes %s' % ' '.join('%02X' % x for x in out) if got == want and len(out) == 4 else
                'the listing shows DATA %d, the image gets the bytes %s (little-endian %s expected at an aligned offset)' % (
                    v, ' '.join('%02X' % x for x in out), ' '.join('%02X' % x for x in want)), nontrivial=False)
    # R3: value classes for one mnemonic
    emit = idx.func('hexasm::CodeGen::emitProgramBin')
    classes = []
    c04.partition(idx, emit, toks['LDAC'], spec_isa.OPCODES['LDAC'], c04.INT_MIN, -1, classes)
    c04.partition(idx, emit, toks['LDAC'], spec_isa.OPCODES['LDAC'], 0, c04.INT_MAX, classes)
    for lo, hi, res, n in classes:
        cls = '[%d,%d]' % (lo, hi) if lo != hi else '{%d}' % lo
        ok = all(r[1] for r in res)
        rep.add('R3', 'LDAC:%s' % cls, ok, pos(emit.node) + ' hexasm::CodeGen::emitProgramBin',
                '; '.join(r[2] for r in res if not r[1]) or 'listed as %d bytes; the %d bytes written decode to the listed operand' % (n, n))
    # R4: entry points
    for tu, fn, what in (('hexasm.cpp', 'main', '--instrs'), ('xcmp.cpp', 'xcmp::Driver::run', '-S')):
        ix = cast.load(tu)
        g = ix.func(fn)
        txt = [c for c in cast.calls_in(g.body) if callee_of(c)[1] == 'emitProgramText']
        binc = [c for c in cast.calls_in(g.body) if callee_of(c)[1] == 'emitBin']
        same = False
        if txt and binc:
            o1 = cast.decl_ref(callee_of(txt[0])[3]) if callee_of(txt[0])[3] is not None else None
            o2 = cast.decl_ref(callee_of(binc[0])[3]) if callee_of(binc[0])[3] is not None else None
            same = o1 is not None and o1 == o2
            if not same:
                # two CodeGen objects built from the same directive list are the same layout (the constructor is deterministic: C11)
                def built_from(call):
                    ob = callee_of(call)[3]
                    vid = cast.decl_ref(ob) if ob is not None else None
                    src = ix.by_id.get(vid) if vid else ob
                    cons = [x for x in walk(src) if x.get('kind') in ('CXXConstructExpr', 'CXXTemporaryObjectExpr', 'CXXFunctionalCastExpr') and 'CodeGen' in qt(x)] if src is not None else []
                    ids = sorted({cast.decl_ref(a) for c_ in cons for a in children(c_) if cast.decl_ref(a)})
                    return ids
                b1, b2 = built_from(txt[0]), built_from(binc[0])
                same = bool(b1) and b1 == b2
        rep.add('R4', '%s:%s' % (tu, what), same, pos(g.node) + ' ' + g.qname,
                'emitProgramText and emitBin are called on the same CodeGen object (or on objects built from the same directive list)' if same else
                'the listing is not printed from the object that is emitted', nontrivial=False)


class _KeyPrefix:
    def __init__(self, rep, prefix):
        self.rep, self.prefix = rep, prefix

    def add(self, rule, key, *a, **k):
        return self.rep.add(rule, self.prefix + key, *a, **k)

    def undecided(self, rule, key, *a, **k):
        return self.rep.undecided(rule, self.prefix + key, *a, **k)

    def __getattr__(self, n):
        return getattr(self.rep, n)


class _SubReport:
    """Route another property's rule function into this report under one rule id."""

    def __init__(self, rep, rid, src='R5'):
        self.rep = rep
        self.rid = rid
        self.src = src

    def rule(self, *a, **k):
        pass

    def add(self, rule, key, ok, where='', detail='', nontrivial=True, data=None):
        if rule == self.src:
            return self.rep.add(self.rid, key, ok, where, detail, nontrivial, data)
        return ok

    def undecided(self, rule, key, why, where=''):
        return self.rep.undecided(self.rid, key, why, where)

    def __getattr__(self, n):
        return getattr(self.rep, n)
