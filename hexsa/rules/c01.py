"""C01 -- xcmp preserves X source semantics: structural necessary conditions (engines I + Q)."""
import itertools
from .. import cast, ivinterp, xmodel, flow
from ..xmodel import XModel, BINOPS, UNOPS
from ..ivinterp import IV, Obj, Vec, const, NeedSplit, Thrown
from ..frontend import AnalysisBroken
from ..cast import children, pos, walk, callee_of, qt, dqt

DEST = {'LDAC': 'A', 'LDBC': 'B', 'LDAM': 'A', 'LDBM': 'B', 'LDAI': 'A', 'LDBI': 'B', 'LDAI_FB': 'A', 'LDBI_FB': 'B', 'LDAP': 'A'}


class CodeGenModel:
    """An ExprCodeGen/StmtCodeGen visitor with an abstract CodeBuffer, symbol table and frame."""

    def __init__(self, idx, reg='A', opaque_genexpr=True):
        self.idx = idx
        self.X = XModel(idx, self.hooks)
        self.I = self.X.I
        self.I.pointer_model = True
        self.atok = idx.enum('hexasm::Token')
        self.ratok = {v: k for k, v in self.atok.items()}
        self.regs = idx.enum('xcmp::Reg')
        self.opaque = opaque_genexpr
        self.subexprs = []
        self.symbols = {}
        self.st = Obj('xcmp::SymbolTable', {'symbolMap': {}}, 'symtab')
        self.frame = xmodel.make_frame(self.I, idx)
        self.frame.fields['offset'] = self.I.sym('F', 64, False, 1, 1 << 20)
        self.frame.fields['size'] = self.I.sym('S', 64, False, 1, 1 << 20)
        self.cb = self.I.construct('xcmp::CodeBuffer', [self.st])
        self.X.fix_containers(self.cb)
        self.cb.fields['currentFrame'] = self.frame
        self.scope = ('str', 'f')
        self.reg = reg

    def expr_visitor(self, reg=None):
        v = self.I.construct('xcmp::CodeBuffer::ExprCodeGen', [self.st, self.cb, self.scope, const(32, True, self.regs[reg or self.reg])])
        v.fields.setdefault('exprReplacement', None)
        return v

    def stmt_visitor(self):
        v = self.I.construct('xcmp::CodeBuffer::StmtCodeGen', [self.st, self.cb, self.scope])
        v.fields.setdefault('exprReplacement', None)
        return v

    def symbol(self, name, kind='VAR', scope='f', offset=None, label=None):
        stype = self.idx.enum('xcmp::SymbolType')
        s = self.I.construct('xcmp::Symbol', [const(32, True, stype[kind]), None, ('str', scope), ('str', name)])
        s.fields['frame'] = self.frame
        s.fields['stackOffset'] = offset if offset is not None else IV(32, True, -64, 64, None, None, ({'OFF_' + name: 1}, 0))
        s.fields['globalLabel'] = ('str', label or ('lab_' + name))
        self.symbols[name] = s
        return s

    def hooks(self, I, n, kind, name, did, obj, args, env):
        if kind == 'method' and name == 'lookup':
            a = I.expr(args[0], env)
            nm = a[2] if isinstance(a, tuple) and a[0] == 'pair' else None
            key = nm[1] if isinstance(nm, tuple) else None
            if key not in self.symbols:
                self.symbol(key, 'VAR', 'f')
            return self.symbols[key]
        if kind == 'method' and name in ('genExpr',) and self.opaque:
            # code for a sub-expression: recorded as one opaque step that leaves its value in the requested register
            e = I.expr(args[0], env)
            if isinstance(e, ivinterp.Moved):
                e = e.value
            reg = I.expr(args[2], env) if len(args) > 2 and args[2]['kind'] != 'CXXDefaultArgExpr' else const(32, True, self.regs['A'])
            if e is None:
                I.null_derefs.append(pos(n))
                raise Thrown('null pointer dereference (code generation for a moved-from sub-expression)')
            rn = [k for k, v in self.regs.items() if v == reg.lo][0]
            if getattr(self, 'expand_consts', False) and isinstance(e, Obj) and e.fields.get('constValue') is not None \
                    and e.cls in ('xcmp::NumberExpr', 'xcmp::BooleanExpr'):
                return NotImplemented      # let the real code load the constant (the peephole pass looks at constant loads)
            self.subexprs.append((e, rn))
            fo = self.frame.fields['offset']
            if isinstance(e, Obj) and (e.cls in ('xcmp::VarRefExpr', 'xcmp::NumberExpr', 'xcmp::BooleanExpr', 'xcmp::StringExpr')
                                      or e.fields.get('constValue') is not None):
                # a leaf is loaded with one or two instructions and never touches the frame
                self.cb.fields['instrs'].items.append(Obj('EXPR', {'expr': e, 'reg': rn, 'frame_offset': fo, 'leaf': True},
                                                          'EXPR[%s->%s]' % (self.X.show(e), rn)))
                return None
            # the sub-expression may push D >= 1 temporaries of its own and pops them again: interpret the real Frame methods
            D = I.sym('D%d' % len(self.subexprs), 32, True, 1, 1 << 10)
            inc = [m for m in I.idx.record('xcmp::Frame').methods if m.name == 'incOffset'][0]
            dec = [m for m in I.idx.record('xcmp::Frame').methods if m.name == 'decOffset'][0]
            I.invoke(inc, self.frame, [D])
            deep = self.frame.fields['offset']
            size_after = self.frame.fields['size']
            I.invoke(dec, self.frame, [D])
            if _contains_call(e):
                # the code of a nested call also runs the call generator's own frame bookkeeping: what it leaves in Frame::outgoing is
                # read off the real generator once (HEAD: setOutgoing(0) at the end of every call sequence)
                eff = nested_call_outgoing(I.idx)
                if eff[0] == 'const':
                    so = [m for m in I.idx.record('xcmp::Frame').methods if m.name == 'setOutgoing']
                    if so:
                        I.invoke(so[0], self.frame, [const(64, False, eff[1])])
                    else:
                        self.frame.fields['outgoing'] = const(64, False, eff[1])
            self.cb.fields['instrs'].items.append(Obj('EXPR', {'expr': e, 'reg': rn, 'frame_offset': fo, 'deepest': deep,
                                                               'size_lbs': list(size_after.lbs or ([size_after.aff] if size_after.aff else []))},
                                                      'EXPR[%s->%s]' % (self.X.show(e), rn)))
            return None
        if kind == 'method' and name in ('genStmt',) and self.opaque:
            st = I.expr(args[0], env)
            self.cb.fields['instrs'].items.append(Obj('STMT', {'stmt': st}, 'STMT[%s]' % getattr(st, 'name', '?')))
            return None
        if kind == 'method' and name == 'containsCall' and not getattr(self, 'real_contains_call', False):
            e = I.expr(args[0], env)
            return const(1, False, int(_contains_call(e)))
        if kind == 'method' and name == 'str' and obj is not None:
            return I.expr(obj, env)
        from .c07 import _map_hooks
        return _map_hooks(I, n, kind, name, did, obj, args, env)

    def instrs(self):
        out = []
        for d in self.cb.fields['instrs'].items:
            if d.cls in ('EXPR', 'STMT'):
                out.append((d.cls, d))
            elif 'token' in d.fields:
                out.append((self.ratok.get(d.fields['token'].lo, '?'), d))
            else:
                out.append((d.cls, d))
        return out

    def data(self):
        return self.cb.fields['data'].items


_NESTED = {}


def nested_call_outgoing(idx):
    """What generating a (parameterless) function call leaves in Frame::outgoing: ('const', n) or ('restore',) -- read from the real
    genFuncCall by interpreting it on a frame whose outgoing count is symbolic."""
    if id(idx) in _NESTED:
        return _NESTED[id(idx)]
    res = ('restore',)
    try:
        M2 = CodeGenModel(idx, 'A')
        M2.symbol('fn_nested', 'FUNC', '')
        if 'outgoing' in M2.frame.fields:
            M2.frame.fields['outgoing'] = M2.I.sym('OUT0', 64, False, 0, 1 << 10)
            M2.X.visit_post(M2.expr_visitor('A'), M2.X.call('fn_nested', []))
            o = M2.frame.fields['outgoing']
            if isinstance(o, IV) and o.concrete():
                res = ('const', o.lo)
            elif isinstance(o, IV) and o.aff is not None and o.aff[0] == {'OUT0': 1} and o.aff[1] == 0:
                res = ('restore',)
            else:
                raise AnalysisBroken('a nested call leaves Frame::outgoing at %r' % (o,))
    except (NeedSplit, Thrown) as e:
        raise AnalysisBroken('cannot read the frame effect of a nested call: %s' % e)
    _NESTED[id(idx)] = res
    return res


def _contains_call(e):
    if not isinstance(e, Obj):
        return False
    if e.cls == 'xcmp::CallExpr':
        return True
    for f in ('LHS', 'RHS', 'element', 'expr'):
        if _contains_call(e.fields.get(f)):
            return True
    a = e.fields.get('args')
    if isinstance(a, Vec):
        return any(_contains_call(x) for x in a.items)
    return False


def result_register(seq):
    """Register that holds the value after a generated sequence: destination of the last value-producing step."""
    last = None
    for tk, d in seq:
        if tk in DEST:
            last = DEST[tk]
        elif tk == 'EXPR':
            last = d.fields['reg']
        elif tk == 'OPR':
            last = 'A'
    return last


def rule_register_discipline(rep, idx, rid='R1'):
    rep.rule(rid, 'register-target discipline: an expression that the operand scheduler may request in breg (constants of every form, '
             'strings, variable references -- exactly the classes for which needsAReg is false) is materialised in the register the '
             'visitor was asked for, and in areg when asked for areg', floor=16)
    shapes = [
        ('number', lambda X: X.num(5)), ('boolean', lambda X: X.boolean(1)),
        ('folded binary op (1+2)', lambda X: X.binop('PLUS', X.num(1), X.num(2))),
        ('folded unary op -(1)', lambda X: X.unop('MINUS', X.num(1))),
        ('folded unary op ~(0)', lambda X: X.unop('NOT', X.num(0))),
        ('folded unary op ~(3)', lambda X: X.unop('NOT', X.num(3))),
        ('folded logical (1 and 0)', lambda X: X.binop('AND', X.num(1), X.num(0))),
        ('folded equality (2 = 2)', lambda X: X.binop('EQ', X.num(2), X.num(2))),
        ('folded relation (1<2)', lambda X: X.binop('LS', X.num(1), X.num(2))),
        ('large constant 100000', lambda X: X.num(100000)),
        ('string', lambda X: X.string('hi')),
        ('local variable', lambda X: X.var('x')),
        ('global variable', lambda X: X.var('g')),
        ('constant val name', lambda X: _const_var(X, 'v', 9)),
    ]
    for (name, mk), reg in itertools.product(shapes, ('A', 'B')):
        M = CodeGenModel(idx, reg)
        M.symbol('x', 'VAR', 'f')
        M.symbol('g', 'VAR', '')
        M.symbol('v', 'VAL', '')
        node = M.X.const_prop(mk(M.X))
        vis = M.expr_visitor(reg)
        where = 'xcmp.hpp xcmp::CodeBuffer::ExprCodeGen::visitPost(%s&)' % node.cls.split('::')[-1]
        key = '%s into %sreg' % (name, reg.lower())
        try:
            # does the scheduler consider this shape register-free?
            M.X.visit_post(vis, node)
        except NeedSplit as e:
            rep.undecided(rid, key, 'not uniform: %s' % e, where)
            continue
        except Thrown as e:
            rep.add(rid, key, False, where, 'code generation fails: %s' % e.what)
            continue
        seq = M.instrs()
        got = result_register(seq)
        rep.add(rid, key, got == reg, where,
                'value of %s requested in %sreg is produced in %sreg by %s' % (M.X.show(node), reg.lower(), (got or '?').lower(), [t for t, _ in seq]))


def _const_var(X, name, v):
    n = X.var(name)
    n.fields['constValue'] = const(32, True, v)
    return n


def operand_kinds(M):
    X = M.X
    return [('var', lambda n: X.var(n)), ('call', lambda n: X.call('fn_' + n, [X.num(1)])),
            ('subscript', lambda n: X.sub('arr_' + n, X.var(n))), ('op', lambda n: X.binop('PLUS', X.var(n), X.var(n + "'"))),
            ('notop', lambda n: X.unop('NOT', X.binop('LS', X.var(n), X.binop('PLUS', X.var(n), X.var(n + "'"))))),
            # constants and operator sub-trees with a constant operand: shapes a peephole over the tree may look into
            ('num', lambda n: X.num(3 if n == 'a' else 1)),
            ('subc', lambda n: X.binop('MINUS', X.var(n), X.num(3 if n == 'a' else 1))),
            ('addc', lambda n: X.binop('PLUS', X.var(n), X.num(3 if n == 'a' else 1))),
            ('csub', lambda n: X.binop('MINUS', X.num(3 if n == 'a' else 1), X.var(n)))]


def gen_binary(idx, op, lkind, rkind, reg='A', expand_consts=False):
    """ExprCodeGen::visitPost on (L op R) after OptimiseExpr, operands of the given kinds; returns (model, node, thrown)."""
    M = CodeGenModel(idx, reg)
    M.expand_consts = expand_consts
    for n in ('a', 'b', "a'", "b'"):
        M.symbol(n, 'VAR', 'f')
    for n in ('arr_a', 'arr_b'):
        M.symbol(n, 'ARRAY', '')
    for n in ('fn_a', 'fn_b'):
        M.symbol(n, 'FUNC', '')
    kinds = dict(operand_kinds(M))
    node = M.X.const_prop(M.X.binop(op, kinds[lkind]('a'), kinds[rkind]('b')))
    opt = M.X.visitor('xcmp::OptimiseExpr')
    M.X.visit_post(opt, node)
    new = opt.fields.get('exprReplacement')
    target = new if isinstance(new, Obj) else node
    # descend to the binary operator that is finally generated (~ wrappers are generated by visitPost(UnaryOpExpr&))
    chain = []
    while target.cls == 'xcmp::UnaryOpExpr':
        chain.append(target)
        target = target.fields['element']
    vis = M.expr_visitor(reg)
    thrown = None
    try:
        M.X.visit_post(vis, target)
    except Thrown as e:
        thrown = e.what
    return M, target, chain, thrown


def rule_tree_intact(rep, idx):
    rep.rule('R2', 'the syntax tree survives code generation: after ExprCodeGen has generated a binary operator (all 10 operators x operand '
             'kinds), both operand slots of the node still hold their sub-expressions (they are traversed again by containsCall and the '
             'memory report), and no moved-from (null) sub-expression is dereferenced', floor=40)
    rep.rule('R7', 'operator coverage: every binary and unary operator the parser accepts is folded (C07-R1) and, after OptimiseExpr, reaches '
             'a code-generation case that emits code leaving the result in areg', floor=12)
    for op in BINOPS:
        for lk, rk in (('var', 'var'), ('call', 'var'), ('var', 'call'), ('call', 'call'), ('subscript', 'op')):
            key = '%s:%s,%s' % (op, lk, rk)
            where = 'xcmp.hpp xcmp::CodeBuffer::ExprCodeGen::visitPost(BinaryOpExpr&)'
            try:
                M, node, chain, thrown = gen_binary(idx, op, lk, rk)
            except NeedSplit as e:
                rep.undecided('R2', key, 'not uniform: %s' % e, where)
                continue
            l, r = node.fields.get('LHS'), node.fields.get('RHS')
            problems = []
            if thrown:
                problems.append('code generation fails: %s at %s' % (thrown, M.I.null_derefs))
            if not isinstance(l, Obj):
                problems.append('left operand slot is null after code generation (moved out and never restored)')
            if not isinstance(r, Obj):
                problems.append('right operand slot is null after code generation (moved out and never restored)')
            rep.add('R2', key, not problems, where,
                    ('%s: ' % M.X.show(node) if not problems else '(%s %s %s): ' % (lk, op, rk)) + ('; '.join(problems) if problems else 'operands intact'))
            if (lk, rk) == ('var', 'var'):
                seq = M.instrs()
                got = result_register(seq)
                rep.add('R7', 'binary %s' % op, bool(seq) and got == 'A' and not thrown, where,
                        'generated %s' % [t for t, _ in seq] if seq else 'no code is generated for this operator (falls into the default branch)')
    for op in UNOPS:
        M = CodeGenModel(idx, 'A')
        M.symbol('a', 'VAR', 'f')
        node = M.X.unop(op, M.X.var('a'))
        opt = M.X.visitor('xcmp::OptimiseExpr')
        M.X.visit_post(opt, node)
        new = opt.fields.get('exprReplacement')
        target = new if isinstance(new, Obj) else node
        vis = M.expr_visitor('A')
        thrown = None
        try:
            M.X.visit_post(vis, target)
        except Thrown as e:
            thrown = e.what
        seq = M.instrs()
        rep.add('R7', 'unary %s' % op, bool(seq) and result_register(seq) == 'A' and not thrown,
                'xcmp.hpp xcmp::CodeBuffer::ExprCodeGen::visitPost(%s&)' % target.cls.split('::')[-1],
                'generated %s' % [t for t, _ in seq] if seq else 'no code is generated for this operator')


# --------------------------------------------------------------------------------------------------
# R5 frame balance and R8 spill-slot discipline on code templates
# --------------------------------------------------------------------------------------------------

def frame_delta(M):
    off = M.frame.fields['offset']
    if not isinstance(off, IV) or off.aff is None:
        return None
    d = ivinterp.aff_add(off.aff, ({'F': 1}, 0), -1)
    return d


def slot_accesses(M):
    """Walk a generated template: yields ('store'|'load'|'expr'|'call', slot, frame offset, directive) in order.
    slot = ('fb', const) for frame-base-relative accesses (offset relative to the frame offset F at entry), ('sp', k) for
    stack-pointer-relative ones."""
    seq = M.instrs()
    out = []
    base = None      # register that holds the stack pointer: 'A' / 'B'
    for i, (tk, d) in enumerate(seq):
        if tk in ('LDAM', 'LDBM') and d.cls == 'hexasm::InstrImm' and isinstance(d.fields.get('immValue'), IV) and d.fields['immValue'].concrete() \
                and d.fields['immValue'].lo == 1:
            base = 'A' if tk == 'LDAM' else 'B'
            continue
        if tk == 'EXPR':
            out.append(('leaf' if d.fields.get('leaf') else 'expr', None, d.fields['frame_offset'], d))
            base = None
            continue
        if tk in ('BR',) and d.cls == 'hexasm::InstrLabel':
            lab = d.fields.get('label')
            out.append(('call', lab, None, d))
            base = None
            continue
        if tk == 'OPR':
            out.append(('opr', None, None, d))
            continue
        if tk in ('STAI_FB', 'LDAI_FB', 'LDBI_FB'):
            offv = d.fields.get('offset')
            slot = ('fb', offv.aff if isinstance(offv, IV) else None)
            out.append(('store' if tk == 'STAI_FB' else 'load', slot, None, d))
            base = None if tk != 'STAI_FB' else base
            continue
        if tk in ('STAI', 'LDAI', 'LDBI') and d.cls == 'hexasm::InstrImm' and base is not None:
            iv = d.fields.get('immValue')
            slot = ('sp', iv.lo if isinstance(iv, IV) and iv.concrete() else repr(iv))
            out.append(('store' if tk == 'STAI' else 'load', slot, None, d))
            if tk != 'STAI':
                base = None
            continue
        if tk in DEST:
            if base == DEST[tk]:
                base = None
    return out


def check_spills(M):
    """A value read back from the stack after an opaque sub-expression was evaluated must sit in a frame slot that was reserved
    (frame offset advanced past it) while that sub-expression ran."""
    problems = []
    acc = slot_accesses(M)
    stores = {}      # slot -> index of last store
    for i, (kind, slot, foff, d) in enumerate(acc):
        if kind == 'store':
            stores[repr(slot)] = i
        elif kind == 'load':
            j = stores.get(repr(slot))
            between = acc[(j + 1 if j is not None else 0):i]
            exprs = [x for x in between if x[0] == 'expr']
            if j is None:
                # a slot this template did not write: only the callee's return slot right after the call is legitimate
                def produces(x):
                    return x[0] in ('call', 'opr') or (x[0] == 'expr' and isinstance(x[3].fields.get('expr'), Obj)
                                                       and x[3].fields['expr'].cls == 'xcmp::CallExpr')
                last_call = max([k for k, x in enumerate(acc[:i]) if produces(x)] or [-1])
                if any(x[0] == 'expr' for x in acc[last_call + 1:i]):
                    problems.append('%s is read after a sub-expression was evaluated although this code never stored it (%s)' % (slot, d.name))
                continue
            if slot[0] == 'fb' and slot[1] is not None:
                for x in exprs:
                    fo = x[2]
                    if not (isinstance(fo, IV) and fo.aff is not None):
                        problems.append('frame offset unknown while %s is evaluated' % x[3].name)
                        continue
                    # slot index s = -(offset) ; reserved iff frame offset during the sub-expression > s
                    s_aff = ({k: -c for k, c in slot[1][0].items()}, -slot[1][1])
                    dlt = ivinterp.aff_add(fo.aff, s_aff, -1)
                    if dlt[0] or dlt[1] <= 0:
                        problems.append('the value saved in frame slot %s is not reserved while %s is evaluated (frame offset %s): the '
                                        'sub-expression\'s own temporaries may overwrite it' % (ivinterp.aff_str(s_aff), x[3].name, ivinterp.aff_str(fo.aff)))
            elif exprs:
                problems.append('%s is kept in an unreserved stack-pointer-relative slot across %s' % (slot, exprs[0][3].name))
    # outgoing actuals: a word stored at sp[k] must survive every sub-expression evaluated before the call is made
    for i, (kind, slot, foff, d) in enumerate(acc):
        if kind != 'store' or slot[0] != 'sp' or not isinstance(slot[1], int):
            continue
        for x in acc[i + 1:]:
            if x[0] in ('call', 'opr'):
                break
            if x[0] == 'store' and repr(x[1]) == repr(slot):
                break
            if x[0] == 'expr':
                deep = x[3].fields.get('deepest')
                lbs = x[3].fields.get('size_lbs') or []
                ok = False
                if isinstance(deep, IV) and deep.aff is not None:
                    for lb in lbs:
                        if lb is None:
                            continue
                        dl = ivinterp.aff_add(lb, deep.aff, -1)
                        if not dl[0] and dl[1] >= slot[1] + 1:
                            ok = True
                if not ok:
                    problems.append('the outgoing actual stored at sp[%d] is not protected while %s is evaluated: the frame is only '
                                    'guaranteed to be as large as that sub-expression\'s own deepest temporary, which then occupies the same word'
                                    % (slot[1], x[3].name))
                    break
    return problems


def rule_frames(rep, idx):
    rep.rule('R5', 'frame-offset balance: the operand scheduler, assignments through subscripts and the three call sequences leave the '
             'compile-time frame offset exactly as they found it, for every operand/actual kind', floor=20)
    rep.rule('R8', 'spill-slot discipline: in every generated template a value that is read back from the stack after a sub-expression '
             'has been evaluated was saved in a frame slot that stays reserved (frame offset advanced past it) during that evaluation', floor=20)
    where_b = 'xcmp.hpp xcmp::CodeBuffer::ExprCodeGen::genBinopOperands'
    for op in ('PLUS', 'MINUS', 'EQ', 'LS'):
        for lk, rk in itertools.product(('var', 'call', 'subscript', 'op'), repeat=2):
            key = '%s:%s,%s' % (op, lk, rk)
            try:
                M, node, chain, thrown = gen_binary(idx, op, lk, rk)
            except NeedSplit as e:
                rep.undecided('R5', key, 'not uniform: %s' % e, where_b)
                continue
            if thrown:
                rep.add('R5', key, False, where_b, 'code generation fails: %s' % thrown)
                continue
            d = frame_delta(M)
            rep.add('R5', key, d is not None and not d[0] and d[1] == 0, where_b,
                    'frame offset after the expression is entry %+d' % d[1] if d is not None and not d[0] else 'frame offset is not entry + constant')
            pr = check_spills(M)
            rep.add('R8', key, not pr, where_b, '; '.join(pr) if pr else 'template %s' % [t for t, _ in M.instrs()])
    # calls: actual lists of mixed kinds
    act_kinds = ('var', 'call', 'op')
    for callkind, mk in (('func', lambda M, a: M.X.call('fn_a', a)), ('proc', lambda M, a: M.X.call('pr_a', a)), ('syscall', lambda M, a: M.X.syscall(1, a))):
        for kinds in itertools.chain(itertools.product(act_kinds, repeat=1), itertools.product(act_kinds, repeat=2), [('op', 'call', 'var'), ('call', 'op', 'call')]):
            M = CodeGenModel(idx, 'A')
            for n in ('a', 'b', 'c', "a'", "b'", "c'"):
                M.symbol(n, 'VAR', 'f')
            M.symbol('fn_a', 'FUNC', '')
            M.symbol('fn_b', 'FUNC', '')
            M.symbol('fn_c', 'FUNC', '')
            M.symbol('pr_a', 'PROC', '')
            ok_ = dict(operand_kinds(M))
            actuals = [ok_[k](n) for k, n in zip(kinds, ('a', 'b', 'c'))]
            node = mk(M, actuals)
            key = '%s(%s)' % (callkind, ','.join(kinds))
            where = 'xcmp.hpp xcmp::CodeBuffer::gen%sCall / genCallActuals / loadActuals' % {'func': 'Func', 'proc': 'Proc', 'syscall': 'Sys'}[callkind]
            vis = M.expr_visitor('A')
            try:
                M.X.visit_post(vis, node)
            except NeedSplit as e:
                rep.undecided('R5', key, 'not uniform: %s' % e, where)
                continue
            except Thrown as e:
                rep.add('R5', key, False, where, 'code generation fails: %s' % e.what)
                continue
            d = frame_delta(M)
            rep.add('R5', key, d is not None and not d[0] and d[1] == 0, where,
                    'frame offset after the call is entry %+d' % d[1] if d is not None and not d[0] else 'frame offset is not entry + constant')
            pr = check_spills(M)
            rep.add('R8', key, not pr, where, '; '.join(pr) if pr else 'template %s' % [t for t, _ in M.instrs()])
    # assignment through a subscript
    for rk in ('var', 'call', 'op', 'notop'):
        M = CodeGenModel(idx, 'A')
        for n in ('a', 'b', "a'", "b'", 'i'):
            M.symbol(n, 'VAR', 'f')
        M.symbol('arr', 'ARRAY', '')
        M.symbol('fn_b', 'FUNC', '')
        ok_ = dict(operand_kinds(M))
        st = M.I.construct('xcmp::AssStatement', [None, M.X.sub('arr', M.X.var('i')), ok_[rk]('b')])
        vis = M.stmt_visitor()
        key = 'arr[i] := %s' % rk
        where = 'xcmp.hpp xcmp::CodeBuffer::StmtCodeGen::visitPost(AssStatement&)'
        try:
            M.X.visit_post(vis, st)
        except Thrown as e:
            rep.add('R5', key, False, where, 'code generation fails: %s' % e.what)
            continue
        except NeedSplit as e:
            rep.undecided('R5', key, 'not uniform: %s' % e, where)
            continue
        d = frame_delta(M)
        rep.add('R5', key, d is not None and not d[0] and d[1] == 0, where,
                'frame offset after the statement is entry %+d' % d[1] if d is not None and not d[0] else 'frame offset is not entry + constant')
        pr = check_spills(M)
        rep.add('R8', key, not pr, where, '; '.join(pr) if pr else 'template %s' % [t for t, _ in M.instrs()])


# --------------------------------------------------------------------------------------------------
# R11/R12: the generated templates compute the operator / execute the right branch (template executor over the ordering domain)
# --------------------------------------------------------------------------------------------------

class TemplateFault(Exception):
    pass


def peephole(M):
    """The template after the directive-level peephole pass (the real OptimiseDirectives constructor, interpreted): sub-expression and
    statement placeholders are shown to it as zero-size padding directives, which no pattern matches.  Returns [(token, directive)]
    or None when the pass leaves the template unchanged."""
    from . import c08
    items = M.instrs()
    back = {}
    seq = []
    for tk, d in items:
        if d.cls in ('EXPR', 'STMT'):
            ph = M.I.construct('hexasm::Padding', [const(64, False, 0)])
            back[id(ph)] = (tk, d)
            seq.append(ph)
        else:
            seq.append(d)
    res, ub = c08.optimise(M.idx, M.X, seq)
    if ub:
        raise TemplateFault('the peephole pass reads outside the directive vector: %s' % ub[:2])
    out = []
    for d in res:
        if id(d) in back:
            out.append(back[id(d)])
        else:
            out.append((M.ratok.get(d.fields['token'].lo, '?') if 'token' in d.fields else d.cls, d))
    if [id(d) for _, d in out] == [id(d) for _, d in items]:
        return None
    return out


def exec_template(M, env, cond_script=None, max_steps=200, seq=None):
    """Execute a generated template concretely: EXPR[e->R] sets R to the X meaning of e under env (induction hypothesis: code for
    a sub-expression leaves its value in the requested register); returns (areg, list of executed STMT placeholders)."""
    seq = seq if seq is not None else M.instrs()
    labels = {}
    for i, (tk, d) in enumerate(seq):
        if tk == 'IDENTIFIER' or d.cls == 'hexasm::Label':
            labels[repr(d.fields.get('label'))] = i
    regs = {'A': None, 'B': None}
    mem = {}
    executed = []
    script = list(cond_script or [])
    pc = 0
    steps = 0
    from ..xmodel import wrap32
    while pc < len(seq):
        steps += 1
        if steps > max_steps:
            raise TemplateFault('template does not terminate')
        tk, d = seq[pc]
        pc += 1
        if tk == 'EXPR':
            e = d.fields['expr']
            if script and d.fields.get('is_condition'):
                v = script.pop(0)
            else:
                v = M.X.meaning(e, env)
            regs[d.fields['reg']] = v
        elif tk == 'STMT':
            executed.append(d.fields.get('stmt'))
        elif tk in ('IDENTIFIER',) or d.cls == 'hexasm::Label':
            continue
        elif tk in ('LDAC', 'LDBC') and d.cls == 'hexasm::InstrImm':
            regs['A' if tk == 'LDAC' else 'B'] = wrap32(d.fields['immValue'].lo)
        elif tk in ('LDAM', 'LDBM') and d.cls == 'hexasm::InstrImm' and d.fields['immValue'].concrete() and d.fields['immValue'].lo == 1:
            regs['A' if tk == 'LDAM' else 'B'] = 'SP'
        elif tk == 'STAI_FB':
            if regs['B'] != 'SP':
                raise TemplateFault('STAI_FB without the stack pointer in breg')
            mem[repr(d.fields['offset'].aff)] = regs['A']
        elif tk in ('LDAI_FB', 'LDBI_FB'):
            r = 'A' if tk == 'LDAI_FB' else 'B'
            if regs[r] != 'SP':
                raise TemplateFault('%s without the stack pointer in its base register' % tk)
            k = repr(d.fields['offset'].aff)
            if k not in mem:
                raise TemplateFault('%s reads a frame slot that was not written' % tk)
            regs[r] = mem[k]
        elif tk == 'OPR':
            o = M.ratok.get(d.fields['opcode'].lo)
            if not isinstance(regs['A'], int) or not isinstance(regs['B'], int):
                raise TemplateFault('%s on a register that holds no value (areg=%r breg=%r)' % (o, regs['A'], regs['B']))
            if o == 'ADD':
                regs['A'] = wrap32(regs['A'] + regs['B'])
            elif o == 'SUB':
                regs['A'] = wrap32(regs['A'] - regs['B'])
            else:
                raise TemplateFault('unexpected OPR %s in an expression template' % o)
        elif tk in ('BR', 'BRZ', 'BRN') and d.cls == 'hexasm::InstrLabel':
            if tk != 'BR' and not isinstance(regs['A'], int):
                raise TemplateFault('%s on an areg that holds no value' % tk)
            take = tk == 'BR' or (tk == 'BRZ' and regs['A'] == 0) or (tk == 'BRN' and regs['A'] < 0)
            if take:
                tgt = repr(d.fields.get('label'))
                if tgt not in labels:
                    raise TemplateFault('branch to a label outside the template: %s' % tgt)
                pc = labels[tgt]
        else:
            raise TemplateFault('unexpected instruction %s in a template' % tk)
    return regs['A'], executed


def clone_for_meaning(X, mk):
    """A second, untouched instance of the condition for the reference meaning (passes may rewrite the first in place)."""
    return mk(X)


def rule_templates(rep, idx):
    rep.rule('R11', 'operator templates: for every binary operator (after OptimiseExpr) and ~, and every operand-kind pair, executing the '
             'generated instruction template -- sub-expression code being an opaque step that delivers the X value of its sub-expression in '
             'the requested register -- leaves in areg exactly the X meaning of the expression, for every ordering / zero-test combination '
             'of the variables', floor=40)
    import itertools as it
    from .c07 import D, DB, tree_vars, clone
    where = 'xcmp.hpp xcmp::CodeBuffer::ExprCodeGen::visitPost(BinaryOpExpr&)'
    for op in BINOPS:
        for lk, rk in (('var', 'var'), ('var', 'op'), ('op', 'var'), ('op', 'op'), ('subscript', 'var'),
                       ('subc', 'num'), ('addc', 'num'), ('csub', 'num'), ('num', 'subc'), ('num', 'addc'), ('subc', 'var'), ('var', 'subc'),
                       ('addc', 'subc'), ('var', 'num'), ('num', 'var')):
            if 'subscript' in (lk, rk):
                continue
            key = '%s:%s,%s' % (op, lk, rk)
            M0 = CodeGenModel(idx, 'A')
            kinds = dict(operand_kinds(M0))
            orig = M0.X.binop(op, kinds[lk]('a'), kinds[rk]('b'))
            try:
                M, node, chain, thrown = gen_binary(idx, op, lk, rk)
            except NeedSplit as e:
                rep.undecided('R11', key, 'not uniform: %s' % e, where)
                continue
            if thrown:
                rep.add('R11', key, False, where, 'code generation fails: %s' % thrown)
                continue
            vs = sorted(tree_vars(M0.X, orig, set()))
            logical = op in ('AND', 'OR')
            bad = None
            n = 0
            for vals in it.product(*[(DB if (logical and lk == 'var' and rk == 'var') else D) for _ in vs]):
                env = dict(zip(vs, vals))
                want = M0.X.meaning(orig, env)
                try:
                    got, _ = exec_template(M, env)
                except TemplateFault as e:
                    bad = 'for %s: %s' % (env, e)
                    break
                for u in reversed(chain):
                    got = xmodel.x_unop('NOT', got)
                n += 1
                if got != want:
                    bad = 'for %s the template leaves %r in areg, (%s) means %d' % (env, got, M0.X.show(orig), want)
                    break
            rep.add('R11', key, bad is None, where, bad or '%d assignments agree; template %s' % (n, [t for t, _ in M.instrs()]))
            # the same template after the directive-level peephole pass (constant leaves expanded into their real loads)
            try:
                M, node, chain, thrown = gen_binary(idx, op, lk, rk, expand_consts=True)
                if thrown:
                    raise TemplateFault('code generation fails: %s' % thrown)
                opt_seq = peephole(M)
            except (TemplateFault, Thrown, NeedSplit, AnalysisBroken) as e:
                rep.undecided('R11', key + ':after-peephole', 'the peephole pass could not be applied to the template: %s' % e, where)
                continue
            if opt_seq is None:
                continue
            bad = None
            for vals in it.product(*[(DB if (logical and lk == 'var' and rk == 'var') else D) for _ in vs]):
                env = dict(zip(vs, vals))
                want = M0.X.meaning(orig, env)
                try:
                    got, _ = exec_template(M, env, seq=opt_seq)
                except TemplateFault as e:
                    bad = 'for %s: %s' % (env, e)
                    break
                for u in reversed(chain):
                    got = xmodel.x_unop('NOT', got)
                if got != want:
                    bad = 'for %s the optimised template %s leaves %r in areg, (%s) means %d' % (env, [t for t, _ in opt_seq], got, M0.X.show(orig), want)
                    break
            rep.add('R11', key + ':after-peephole', bad is None, where + ' / xcmp::OptimiseDirectives', bad or 'optimised template %s agrees' % [t for t, _ in opt_seq])
    # unary not
    M = CodeGenModel(idx, 'A')
    M.symbol('a', 'VAR', 'f')
    node = M.X.unop('NOT', M.X.var('a'))
    M.X.visit_post(M.expr_visitor('A'), node)
    bad = None
    for v in D:
        try:
            got, _ = exec_template(M, {'a': v})
        except TemplateFault as e:
            bad = str(e)
            break
        if got != xmodel.x_unop('NOT', v):
            bad = 'for a=%d the template leaves %r, ~a means %d' % (v, got, xmodel.x_unop('NOT', v))
            break
    rep.add('R11', 'NOT:var', bad is None, 'xcmp.hpp xcmp::CodeBuffer::ExprCodeGen::visitPost(UnaryOpExpr&)', bad or 'template %s' % [t for t, _ in M.instrs()])
    # statements
    rep.rule('R12', 'statement templates: `if` executes exactly the then-part when the condition is non-zero and exactly the else-part when '
             'it is zero (for all four skip/non-skip shapes); `while` evaluates the condition before every iteration and executes the body '
             'exactly while it is non-zero', floor=8)
    where = 'xcmp.hpp xcmp::CodeBuffer::StmtCodeGen'
    for tk_, ek_ in it.product(('stmt', 'skip'), repeat=2):
        M = CodeGenModel(idx, 'A')
        M.symbol('c', 'VAR', 'f')
        mk = lambda k, nm: M.I.construct('xcmp::SkipStatement', [None]) if k == 'skip' else M.I.construct('xcmp::StopStatement', [None], name=nm)
        th, el = mk(tk_, 'THEN'), mk(ek_, 'ELSE')
        st = M.I.construct('xcmp::IfStatement', [None, M.X.var('c'), th, el])
        try:
            M.X.visit_post(M.stmt_visitor(), st)
        except (NeedSplit, Thrown) as e:
            rep.add('R12', 'if:%s/%s' % (tk_, ek_), False, where, 'fails: %s' % e)
            continue
        bad = None
        for v in D:
            try:
                _, ex = exec_template(M, {'c': v})
            except TemplateFault as e:
                bad = str(e)
                break
            want = [th] if (v != 0 and tk_ == 'stmt') else [el] if (v == 0 and ek_ == 'stmt') else []
            if [id(x) for x in ex] != [id(x) for x in want]:
                bad = 'for condition value %d the template executes %s, expected %s' % (v, [x.name for x in ex], [x.name for x in want])
                break
        rep.add('R12', 'if:then=%s,else=%s' % (tk_, ek_), bad is None, where + '::visitPost(IfStatement&)', bad or 'template %s' % [t for t, _ in M.instrs()])
    # conditions with structure (a condition-specific code generator may compile ~, and, or, =, < and constants straight into branches)
    conds = [('2', lambda X: X.num(2)), ('0', lambda X: X.num(0)), ('-1', lambda X: X.num(-1)), ('~a', lambda X: X.unop('NOT', X.var('a'))),
             ('a and b', lambda X: X.binop('AND', X.var('a'), X.var('b'))), ('a or b', lambda X: X.binop('OR', X.var('a'), X.var('b'))),
             ('2 or a', lambda X: X.binop('OR', X.num(2), X.var('a'))), ('~(2 and a)', lambda X: X.unop('NOT', X.binop('AND', X.num(2), X.var('a')))),
             ('a = b', lambda X: X.binop('EQ', X.var('a'), X.var('b'))), ('a < b', lambda X: X.binop('LS', X.var('a'), X.var('b'))),
             ('~(a = 2)', lambda X: X.unop('NOT', X.binop('EQ', X.var('a'), X.num(2))))]
    for cname, cmk in conds:
        for shape in (('stmt', 'stmt'), ('skip', 'stmt')):
            M = CodeGenModel(idx, 'A')
            for n_ in ('a', 'b'):
                M.symbol(n_, 'VAR', 'f')
            mk = lambda k, nm: M.I.construct('xcmp::SkipStatement', [None]) if k == 'skip' else M.I.construct('xcmp::StopStatement', [None], name=nm)
            th, el = mk(shape[0], 'THEN'), mk(shape[1], 'ELSE')
            cond = run_pipeline(M, cmk(M.X))
            ref = clone_for_meaning(M.X, cmk)
            key = 'if %s then %s else %s' % (cname, shape[0], shape[1])
            try:
                st = M.I.construct('xcmp::IfStatement', [None, cond, th, el])
                M.X.visit_post(M.stmt_visitor(), st)
            except (NeedSplit, Thrown, AnalysisBroken) as e:
                rep.undecided('R12', key, 'cannot generate: %s' % e, where)
                continue
            bad = None
            for va, vb in it.product(D, repeat=2):
                env = {'a': va, 'b': vb}
                want_true = M.X.meaning(ref, env) != 0
                try:
                    _, ex = exec_template(M, env)
                except TemplateFault as e:
                    bad = 'for %s: %s' % (env, e)
                    break
                want = ([th] if shape[0] == 'stmt' else []) if want_true else ([el] if shape[1] == 'stmt' else [])
                ex = [x for x in ex if getattr(x, 'cls', '') != 'xcmp::SkipStatement']       # executing skip is executing nothing
                if [id(x) for x in ex] != [id(x) for x in want]:
                    bad = 'for %s the condition (%s) is %s, but the template executes %s' % (
                        env, cname, 'true' if want_true else 'false', [x.name for x in ex] or 'nothing')
                    break
            rep.add('R12', key, bad is None, where + '::visitPost(IfStatement&)', bad or 'template %s' % [t for t, _ in M.instrs()][:16])
    for script in ([0], [1, 0], [2, -1, 0], [-2, 1, 2, 0]):
        M = CodeGenModel(idx, 'A')
        M.symbol('c', 'VAR', 'f')
        body = M.I.construct('xcmp::StopStatement', [None], name='BODY')
        st = M.I.construct('xcmp::WhileStatement', [None, M.X.var('c'), body])
        try:
            M.X.visit_post(M.stmt_visitor(), st)
        except (NeedSplit, Thrown) as e:
            rep.add('R12', 'while:%s' % script, False, where, 'fails: %s' % e)
            continue
        for tk, d in M.instrs():
            if tk == 'EXPR':
                d.fields['is_condition'] = True
        try:
            _, ex = exec_template(M, {'c': 0}, list(script))
            ok = len(ex) == len(script) - 1
            detail = 'condition values %s: body executed %d time(s)' % (script, len(ex))
        except TemplateFault as e:
            ok, detail = False, str(e)
        rep.add('R12', 'while:condition-values=%s' % script, ok, where + '::visitPost(WhileStatement&)', detail)


def exec_subscript(M, env):
    """Execute a straight-line template that addresses an array element.  Values are 32-bit ints, 'SP', ('base', label) for the
    word loaded from an array's base label, ('addr', label, k) for base + k.  Returns (areg, [(address, value stored)])."""
    from ..xmodel import wrap32
    regs = {'A': None, 'B': None}
    frame = {}
    stores = []
    for tk, d in M.instrs():
        if tk == 'EXPR':
            regs[d.fields['reg']] = M.X.meaning(d.fields['expr'], env)
            if not d.fields.get('leaf'):
                regs['B' if d.fields['reg'] == 'A' else 'A'] = None
        elif tk in ('IDENTIFIER',) or d.cls == 'hexasm::Label':
            continue
        elif tk in ('LDAC', 'LDBC') and d.cls == 'hexasm::InstrImm':
            regs['A' if tk == 'LDAC' else 'B'] = wrap32(d.fields['immValue'].lo)
        elif tk in ('LDAM', 'LDBM') and d.cls == 'hexasm::InstrImm' and d.fields['immValue'].concrete() and d.fields['immValue'].lo == 1:
            regs['A' if tk == 'LDAM' else 'B'] = 'SP'
        elif tk in ('LDAM', 'LDBM') and d.cls == 'hexasm::InstrLabel':
            regs['A' if tk == 'LDAM' else 'B'] = ('base', repr(d.fields.get('label')))
        elif tk == 'OPR':
            o = M.ratok.get(d.fields['opcode'].lo)
            a, b = regs['A'], regs['B']
            if o not in ('ADD', 'SUB'):
                raise TemplateFault('unexpected OPR %s' % o)
            if isinstance(a, int) and isinstance(b, int):
                regs['A'] = wrap32(a + b if o == 'ADD' else a - b)
            elif o == 'ADD' and isinstance(a, int) and isinstance(b, tuple) and b[0] in ('base', 'addr'):
                regs['A'] = ('addr', b[1], wrap32((b[2] if b[0] == 'addr' else 0) + a))
            elif isinstance(b, int) and isinstance(a, tuple) and a[0] in ('base', 'addr'):
                k0 = a[2] if a[0] == 'addr' else 0
                regs['A'] = ('addr', a[1], wrap32(k0 + b if o == 'ADD' else k0 - b))
            else:
                raise TemplateFault('%s of %r and %r' % (o, a, b))
        elif tk in ('LDAI', 'LDBI') and d.cls == 'hexasm::InstrImm':
            r = 'A' if tk == 'LDAI' else 'B'
            v = regs[r]
            if not (isinstance(v, tuple) and v[0] in ('base', 'addr')):
                raise TemplateFault('%s through a register that holds no array address (%r)' % (tk, v))
            regs[r] = ('mem', v[1], wrap32((v[2] if v[0] == 'addr' else 0) + d.fields['immValue'].lo))
        elif tk == 'STAI' and d.cls == 'hexasm::InstrImm':
            v = regs['B']
            if not (isinstance(v, tuple) and v[0] in ('base', 'addr')):
                raise TemplateFault('STAI through a register that holds no array address (%r)' % (v,))
            stores.append((('mem', v[1], wrap32((v[2] if v[0] == 'addr' else 0) + d.fields['immValue'].lo)), regs['A']))
        elif tk == 'STAI_FB':
            if regs['B'] != 'SP':
                raise TemplateFault('STAI_FB without the stack pointer in breg')
            frame[repr(d.fields['offset'].aff)] = regs['A']
        elif tk in ('LDAI_FB', 'LDBI_FB'):
            r = 'A' if tk == 'LDAI_FB' else 'B'
            if regs[r] != 'SP':
                raise TemplateFault('%s without the stack pointer in its base register' % tk)
            k = repr(d.fields['offset'].aff)
            regs[r] = frame[k] if k in frame else ('base', 'slot' + k)       # an array formal: its slot holds the base address
        else:
            raise TemplateFault('unexpected instruction %s in a subscript template' % tk)
    return regs['A'], stores


def rule_subscripts(rep, idx, rid='R16'):
    rep.rule(rid, 'array elements: reading a[e] leaves mem[base(a) + e] in areg and  a[e] := v  stores v to mem[base(a) + e], for index '
             'expressions of the shapes x, c, x+c, c+x, x-c, c-x, x+y and every value of x in the ordering domain (the instruction '
             'template is executed with a symbolic base address)', floor=14)
    from .c07 import D
    where = 'xcmp.hpp xcmp::CodeBuffer::ExprCodeGen::visitPost(ArraySubscriptExpr&) / StmtCodeGen::visitPost(AssStatement&)'
    shapes = [('x', lambda X: X.var('a')), ('c', lambda X: X.num(5)), ('x+c', lambda X: X.binop('PLUS', X.var('a'), X.num(3))),
              ('c+x', lambda X: X.binop('PLUS', X.num(3), X.var('a'))), ('x-c', lambda X: X.binop('MINUS', X.var('a'), X.num(3))),
              ('c-x', lambda X: X.binop('MINUS', X.num(7), X.var('a'))), ('x+y', lambda X: X.binop('PLUS', X.var('a'), X.var('b')))]
    rhs_shapes = {'write': ('v', lambda X: X.var('v')), 'write(v+b)': ('v+b', lambda X: X.binop('PLUS', X.var('v'), X.var('b'))),
                  'write(~v)': ('~v', lambda X: X.unop('NOT', X.var('v'))), 'write(v<b)': ('v<b', lambda X: X.binop('LS', X.var('v'), X.var('b')))}
    for mode in ('read', 'write', 'write(v+b)', 'write(~v)', 'write(v<b)'):
        for name, mk in shapes:
            if mode not in ('read', 'write') and name not in ('x', 'c', 'x+c'):
                continue
            M = CodeGenModel(idx, 'A')
            for n in ('a', 'b', 'v'):
                M.symbol(n, 'VAR', 'f')
            M.symbol('arr', 'ARRAY', '')
            index = M.X.const_prop(mk(M.X))
            orig_index = index
            key = '%s arr[%s]' % (mode, name)
            rhs_ref = rhs_shapes[mode][1](M.X) if mode != 'read' else None
            try:
                if mode == 'read':
                    M.X.visit_post(M.expr_visitor('A'), M.X.sub('arr', index))
                else:
                    st = M.I.construct('xcmp::AssStatement', [None, M.X.sub('arr', index), run_pipeline(M, rhs_shapes[mode][1](M.X))])
                    M.X.visit_post(M.stmt_visitor(), st)
            except NeedSplit as e:
                rep.undecided(rid, key, 'not uniform: %s' % e, where)
                continue
            except Thrown as e:
                rep.add(rid, key, False, where, 'code generation fails: %s' % e.what)
                continue
            bad = None
            for xa in D:
                env = {'a': xa, 'b': 1, 'v': 42}
                want_k = xmodel.wrap32(M.X.meaning(orig_index, env))
                try:
                    areg, stores = exec_subscript(M, env)
                except TemplateFault as e:
                    bad = str(e)
                    break
                if mode == 'read':
                    if not (isinstance(areg, tuple) and areg[0] == 'mem' and xmodel.wrap32(areg[2]) == want_k):
                        bad = 'for %s the template reads %r, expected element %d of arr' % (env, areg, want_k)
                        break
                else:
                    want_v = xmodel.wrap32(M.X.meaning(rhs_ref, env))
                    hit = [s_ for s_ in stores if isinstance(s_[0], tuple) and s_[0][0] == 'mem']
                    if len(hit) != 1 or xmodel.wrap32(hit[0][0][2]) != want_k or hit[0][1] != want_v:
                        bad = 'for %s the template stores %r, expected %s = %d to element %d of arr' % (env, hit, rhs_shapes[mode][0], want_v, want_k)
                        break
            rep.add(rid, key, bad is None, where, bad or 'template %s' % [t for t, _ in M.instrs()])


KNOWN_PASSES = {'xcmp::CreateSymbols': 'builds the symbol table (modelled by CodeGenModel.symbol)', 'xcmp::ConstProp': 'run through XModel.const_prop',
                'xcmp::AstPrinter': 'output only', 'xcmp::OptimiseExpr': 'run through the real accept() traversal',
                'xcmp::CodeGen': 'the pass under analysis', 'xcmp::ReportMemoryInfo': 'output only'}


def driver_passes(idx):
    """The visitor classes that xcmp::Driver::run applies to the tree, in order."""
    run = idx.func('xcmp::Driver::run')
    decls = {d['id']: d for d in walk(run.body) if d['kind'] == 'VarDecl'}
    out = []
    for c in cast.calls_in(run.body):
        kind, name, did, obj = callee_of(c)
        if name == 'accept':
            for x in walk(cast.call_args(c)[0]):
                if x['kind'] == 'DeclRefExpr' and (x.get('referencedDecl') or {}).get('id') in decls:
                    out.append(qt(decls[x['referencedDecl']['id']]).replace('class ', '').replace('struct ', ''))
    if 'xcmp::CodeGen' not in out or 'xcmp::OptimiseExpr' not in out:
        raise AnalysisBroken('xcmp::Driver::run: the pass pipeline (accept(&pass) calls) was not recognised: %s' % out)
    return out


def run_pipeline(M, node):
    """Apply to an abstract expression tree what the driver applies to the whole tree before code generation: constant propagation,
    any pass this model does not know by name (through its real visitor and the real accept() traversal, in its place in the
    order), and the expression optimiser.  Returns the tree that code generation would see."""
    idx = M.idx
    for cls in driver_passes(idx):
        if cls == 'xcmp::CodeGen':
            break
        if cls == 'xcmp::ConstProp':
            M.X.const_prop(node)
            continue
        if cls in KNOWN_PASSES and cls != 'xcmp::OptimiseExpr':
            continue
        q = cls if cls in idx.records else idx._resolve_record_name(cls.split('::')[-1], 'xcmp::Driver')
        v = M.I.construct(q, [])
        v.fields.setdefault('exprReplacement', None)
        acc = M.I.resolve_method(node, 'accept', None)
        M.I.invoke(acc, node, [v])
        r = v.fields.get('exprReplacement')
        if isinstance(r, ivinterp.Moved):
            r = r.value
        if isinstance(r, Obj):
            node = r
    return node


def _is_leaf_expr(e):
    return isinstance(e, Obj) and (e.cls in ('xcmp::VarRefExpr', 'xcmp::NumberExpr', 'xcmp::BooleanExpr', 'xcmp::StringExpr') or
                                   e.fields.get('constValue') is not None)


def _same_constant(x, y):
    cx, cy = (x.fields.get('constValue') if isinstance(x, Obj) else None), (y.fields.get('constValue') if isinstance(y, Obj) else None)
    return isinstance(cx, IV) and isinstance(cy, IV) and cx.concrete() and cy.concrete() and cx.lo == cy.lo


def actual_stores(M, first_slot, actuals):
    """Linear register tracking over a call template up to the transfer of control.  Code for a sub-expression leaves its value in the
    requested register; unless the sub-expression is a leaf (variable, constant, string: a load into that register only) it may
    use the other register as well, so that register holds nothing afterwards.  Returns (list of problems, {slot: expression})."""
    regs = {'A': None, 'B': None}
    frame = {}
    slots = {}
    problems = []
    for tk, d in M.instrs():
        if tk == 'EXPR':
            r = d.fields['reg']
            e = d.fields['expr']
            if slots and _contains_call(e):
                problems.append('the actual %s contains a call but is evaluated after outgoing slot(s) sp%s of the enclosing call have been '
                                'written: the inner call builds its own frame in the same words and overwrites them' % (M.X.show(e), sorted(slots)))
            regs[r] = ('val', e)
            if not _is_leaf_expr(e):
                regs['B' if r == 'A' else 'A'] = None
        elif tk in ('LDAM', 'LDBM') and d.cls == 'hexasm::InstrImm' and d.fields['immValue'].concrete() and d.fields['immValue'].lo == 1:
            regs['A' if tk == 'LDAM' else 'B'] = 'SP'
        elif tk in ('LDAC', 'LDBC'):
            regs['A' if tk == 'LDAC' else 'B'] = ('const', d.fields.get('immValue'))
        elif tk in ('LDAM', 'LDBM'):
            regs['A' if tk == 'LDAM' else 'B'] = ('mem', None)
        elif tk == 'STAI' and d.cls == 'hexasm::InstrImm':
            k = d.fields['immValue'].lo if d.fields['immValue'].concrete() else None
            if regs['B'] != 'SP':
                problems.append('STAI %s stores an actual through breg, which does not hold the stack pointer there (breg = %s): the value lands at '
                                'an address left over from the evaluation of the actual' % (k, 'undefined after a sub-expression' if regs['B'] is None else regs['B'][0]))
            elif regs['A'] is None:
                problems.append('STAI %s stores areg, which holds no value' % k)
            else:
                slots[k] = regs['A']
        elif tk == 'STAI_FB':
            if regs['B'] != 'SP':
                problems.append('STAI_FB without the stack pointer in breg')
            frame[repr(d.fields['offset'].aff)] = regs['A']
        elif tk in ('LDAI_FB', 'LDBI_FB'):
            r = 'A' if tk == 'LDAI_FB' else 'B'
            if regs[r] != 'SP':
                problems.append('%s without the stack pointer in its base register' % tk)
            regs[r] = frame.get(repr(d.fields['offset'].aff))
        elif tk in ('LDAP', 'BR', 'OPR', 'BRZ', 'BRN'):
            break
        elif tk in ('IDENTIFIER',) or d.cls == 'hexasm::Label':
            continue
        elif tk in ('LDAI', 'LDBI'):
            r = 'A' if tk == 'LDAI' else 'B'
            regs[r] = ('mem', None)
    if first_slot is None:
        first_slot = min(slots) if slots else 0      # the convention itself (formal i == actual i) is decided by C08-R1
    for i, a in enumerate(actuals):
        got = slots.get(first_slot + i)
        if got is None:
            if not any('STAI %d ' % (first_slot + i) in p_ or 'STAI %s ' % (first_slot + i) in p_ for p_ in problems):
                problems.append('actual %d is never stored to sp[%d]' % (i, first_slot + i))
        elif got[0] == 'val' and got[1] is not a and _same_constant(got[1], a):
            pass            # another occurrence of the same constant: the value stored is the value asked for
        elif not (got[0] == 'val' and got[1] is a):
            problems.append('sp[%d] receives %s instead of actual %d' % (first_slot + i, got[1].name if got[0] == 'val' else got[0], i))
    return problems, slots


def rule_call_registers(rep, idx, rid='R14'):
    rep.rule(rid, 'call templates: each actual is stored to its outgoing slot sp[first+i] with the stack pointer freshly in breg -- breg is not '
             'assumed to survive the code of a non-leaf actual (any operator or call may use both registers)', floor=20)
    act_kinds = ('var', 'num', 'op', 'notop', 'call', 'andor')
    for callkind, mk, first in (('func', lambda M, a: M.X.call('fn_a', a), 2), ('proc', lambda M, a: M.X.call('pr_a', a), 1),
                                ('syscall', lambda M, a: M.X.syscall(1, a), 2)):
        for kinds in itertools.chain(itertools.product(act_kinds, repeat=2), [('var', 'andor', 'var'), ('op', 'call', 'andor'),
                                                                               ('var', 'gr-call'), ('num', 'neg-call'), ('gr-call', 'var'), ('op', 'gr-call', 'var'),
                                                                               ('num', 'call', 'num'), ('num', 'gr-call', 'num'), ('var', 'call', 'var'),
                                                                               ('num', 'num', 'call'), ('num', 'var', 'num'),
                                                                               ('k', 'call', 'k'), ('k', 'k', 'call'), ('k', 'var', 'k'), ('k', 'gr-call', 'k'),
                                                                               # a bare call next to a compound actual that contains a call, in both orders
                                                                               ('call', 'gr-call'), ('call', 'neg-call'), ('gr-call', 'call'), ('neg-call', 'call'),
                                                                               ('call', 'var', 'gr-call'), ('gr-call', 'neg-call'),
                                                                               # a call hidden inside an array subscript
                                                                               ('var', 'sub-call'), ('sub-call', 'var'), ('num', 'sub-call'), ('op', 'sub-call'),
                                                                               ('call', 'sub-call'), ('var', 'var', 'sub-call')]):
            M = CodeGenModel(idx, 'A')
            for n in ('a', 'b', 'c', "a'", "b'", "c'"):
                M.symbol(n, 'VAR', 'f')
            for n in ('fn_a', 'fn_b', 'fn_c'):
                M.symbol(n, 'FUNC', '')
            M.symbol('pr_a', 'PROC', '')
            ok_ = dict(operand_kinds(M))
            ok_['andor'] = lambda n: M.X.binop('OR', M.X.binop('EQ', M.X.var(n), M.X.num(1)), M.X.binop('EQ', M.X.var(n), M.X.num(2)))
            # comparisons / negation that OptimiseExpr rewrites into fresh nodes, with a call inside: taken through the driver's real passes
            ok_['gr-call'] = lambda n: M.X.binop('GR', M.X.call('fn_' + n, [M.X.num(1)]), M.X.var(n))
            ok_['neg-call'] = lambda n: M.X.unop('MINUS', M.X.call('fn_' + n, [M.X.num(1)]))
            ok_['k'] = lambda n: M.X.num(7)          # the same constant in several positions
            M.symbol('arr', 'ARRAY', '')
            ok_['sub-call'] = lambda n: M.X.sub('arr', M.X.call('fn_' + n, [M.X.num(1)]))
            M.real_contains_call = True
            # every actual goes through the passes the driver runs before code generation (annotations included)
            actuals = [run_pipeline(M, ok_[k](n)) for k, n in zip(kinds, ('a', 'b', 'c'))]
            node = mk(M, actuals)
            key = '%s(%s)' % (callkind, ','.join(kinds))
            where = 'xcmp.hpp xcmp::CodeBuffer::gen%sCall / genCallActuals / loadActuals' % {'func': 'Func', 'proc': 'Proc', 'syscall': 'Sys'}[callkind]
            try:
                M.X.visit_post(M.expr_visitor('A'), node)
            except NeedSplit as e:
                rep.undecided(rid, key, 'not uniform: %s' % e, where)
                continue
            except Thrown as e:
                rep.add(rid, key, False, where, 'code generation fails: %s' % e.what)
                continue
            # the slot of actual 0 is read from the template (first STAI after the frame-relative saves), cross-checked with the convention
            problems, slots = actual_stores(M, None, actuals)
            rep.add(rid, key, not problems, where, '; '.join(problems)[:700] if problems else
                    'actuals stored to sp[%s]; template %s' % (sorted(slots), [t for t, _ in M.instrs()][:24]))


def rule_variable_slots(rep, idx, rid='R15'):
    """X evaluates every actual / right-hand side with the values the variables had before the statement.  In a generated statement
    template a store into the slot of a *named* variable (formal or local: frame offset = the symbol's stack offset) must therefore
    not be followed by the code of a sub-expression that may read that variable."""
    rep.rule(rid, 'statement templates keep the variables intact while the statement is evaluated: no store into the frame slot of a '
             'formal or local is followed, inside the same statement template, by the evaluation of a sub-expression that mentions that '
             'variable (return of a self-recursive call, of another call, assignments, call statements)', floor=6)
    from .c07 import tree_vars
    where = 'xcmp.hpp xcmp::CodeBuffer::StmtCodeGen'

    def setup():
        M = CodeGenModel(idx, 'A')
        for n in ('n', 'acc', 'x'):
            M.symbol(n, 'VAR', 'f')
        f = M.symbol('f', 'FUNC', '')
        M.symbol('g', 'FUNC', '')
        M.symbol('p', 'PROC', '')
        try:
            formals = Vec([M.I.construct('xcmp::ValFormal', [None, ('str', 'n')]), M.I.construct('xcmp::ValFormal', [None, ('str', 'acc')])])
            f.fields['node'] = M.I.construct('xcmp::Proc', [None, const(1, False, 1), ('str', 'f'), formals, Vec([]), M.I.construct('xcmp::SkipStatement', [None])])
        except (AnalysisBroken, Thrown):
            pass
        return M
    X0 = setup().X
    shapes = [
        ('return f(n - 1, acc + n)', lambda M: M.I.construct('xcmp::ReturnStatement', [None, M.X.call('f', [M.X.binop('MINUS', M.X.var('n'), M.X.num(1)), M.X.binop('PLUS', M.X.var('acc'), M.X.var('n'))])])),
        ('return f(acc, n)', lambda M: M.I.construct('xcmp::ReturnStatement', [None, M.X.call('f', [M.X.var('acc'), M.X.var('n')])])),
        ('return f(acc + n, n)', lambda M: M.I.construct('xcmp::ReturnStatement', [None, M.X.call('f', [M.X.binop('PLUS', M.X.var('acc'), M.X.var('n')), M.X.var('n')])])),
        ('return g(n - 1, acc + n)', lambda M: M.I.construct('xcmp::ReturnStatement', [None, M.X.call('g', [M.X.binop('MINUS', M.X.var('n'), M.X.num(1)), M.X.binop('PLUS', M.X.var('acc'), M.X.var('n'))])])),
        ('n := acc + n', lambda M: M.I.construct('xcmp::AssStatement', [None, M.X.var('n'), M.X.binop('PLUS', M.X.var('acc'), M.X.var('n'))])),
        ('p(n - 1, acc + n)', lambda M: M.I.construct('xcmp::CallStatement', [None, M.X.call('p', [M.X.binop('MINUS', M.X.var('n'), M.X.num(1)), M.X.binop('PLUS', M.X.var('acc'), M.X.var('n'))])])),
    ]
    for name, mk in shapes:
        M = setup()
        try:
            st = mk(M)
            M.X.visit_post(M.stmt_visitor(), st)
        except NeedSplit as e:
            rep.undecided(rid, name, 'not uniform: %s' % e, where)
            continue
        except Thrown as e:
            rep.add(rid, name, False, where, 'code generation fails: %s' % e.what)
            continue
        written = {}
        bad = []
        for tk, d in M.instrs():
            if tk == 'STAI_FB':
                aff = d.fields['offset'].aff if isinstance(d.fields.get('offset'), IV) else None
                for k in (aff[0] if aff else {}):
                    if k.startswith('OFF_'):
                        written[k[4:]] = d
            elif tk == 'EXPR':
                used = tree_vars(M.X, d.fields['expr'], set()) if isinstance(d.fields.get('expr'), Obj) else set()
                for v in sorted(used & set(written)):
                    bad.append('the slot of %s is overwritten before %s is evaluated, which then sees the new value' % (v, M.X.show(d.fields['expr'])))
        rep.add(rid, name, not bad, where, '; '.join(bad) if bad else 'template %s' % [t for t, _ in M.instrs()][:20])
    # a call statement always transfers control to the callee, whatever the callee's body is (the source's call sequence is what the
    # trace of C15 reports; an elided call is also a lost frame / lost side effects once the callee changes)
    for body_kind in ('skip', 'stop'):
        M = setup()
        q = M.symbol('q', 'PROC', '')
        try:
            body = M.I.construct('xcmp::SkipStatement', [None]) if body_kind == 'skip' else M.I.construct('xcmp::StopStatement', [None])
            q.fields['node'] = M.I.construct('xcmp::Proc', [None, const(1, False, 0), ('str', 'q'), Vec([]), Vec([]), body])
            st = M.I.construct('xcmp::CallStatement', [None, M.X.call('q', [])])
            M.X.visit_post(M.stmt_visitor(), st)
        except (NeedSplit, Thrown, AnalysisBroken) as e:
            rep.undecided(rid, 'call statement q() with body %s' % body_kind, 'cannot generate: %s' % e, where)
            continue
        targets = [repr(d.fields.get('label')) for tk, d in M.instrs() if tk == 'BR' and d.cls == 'hexasm::InstrLabel']
        ok = any("'q'" in t for t in targets)
        rep.add(rid, 'call statement q() where q is `%s`' % body_kind, ok, where + '::visitPost(CallStatement&)',
                'the template branches to %s' % targets if ok else
                'no branch to q is generated (template %s): the call is elided, so q is never entered' % [t for t, _ in M.instrs()])


# --------------------------------------------------------------------------------------------------
# R4 label namespace, R6 strings
# --------------------------------------------------------------------------------------------------

def rule_labels(rep, idx):
    rep.rule('R4', 'generated-label namespace: every label name that reaches a Label / Func / Proc / label-operand directive is traced back '
             '(through parameters, locals, members, getters, generators) to its origin; a name the compiler makes up (literal, '
             'concatenation, format) cannot be an X identifier -- it starts with a character that cannot start one or contains one '
             'that cannot occur in one -- and a name taken from the source is used unchanged; so no user name can collide', floor=8)
    from ..labelflow import LabelFlow
    # what can start / continue an identifier?  (the analysis assumes isalpha / isalnum or '_')
    rt = idx.func('xcmp::Lexer::readToken')
    names = {callee_of(c)[1] for c in cast.calls_in(rt.body)}
    if not ({'isalpha', 'isalnum'} <= names):
        raise AnalysisBroken('xcmp::Lexer::readToken no longer forms identifiers with std::isalpha / std::isalnum: re-derive the identifier alphabet')
    lf = LabelFlow(idx)
    sinks = lf.sinks()
    if len(sinks) < 10:
        raise AnalysisBroken('only %d label-directive constructions found in xcmp:: (confirmed: 13)' % len(sinks))
    for o in sorted(lf.run(), key=lambda o: o.key()):
        ok, why = o.verdict()
        key = o.key()
        if o.kind == 'literal' and o.parts[0][1] == 'main':
            rep.add('R4', key, True, o.where, 'reference to the entry procedure `main`, which the X language requires the user to define', nontrivial=False)
            continue
        if ok is None:
            rep.undecided('R4', key, why, o.where)
            continue
        rep.add('R4', key, ok, o.where, why, nontrivial=(o.kind != 'source'))


def rule_strings(rep, idx):
    rep.rule('R6', 'string literals: genString emits a label followed by ceil((n+1)/4) data words holding the length byte and the characters '
             'little-endian (at least one word, also for the empty string) and loads the label\'s address into the requested register', floor=12)
    f = idx.func('xcmp::CodeBuffer::genString')
    rep.analysed(f.sig)
    for text in ('', 'a', 'ab', 'abc', 'abcd', 'hello w', 'sixteen chars ok.', 'twenty-one characters', 'q' * 127, 'q' * 128, 'q' * 200, 'q' * 255):
        for reg in (('A', 'B') if len(text) < 100 else ('A',)):
            M = CodeGenModel(idx, reg)
            M.I.pointer_model = True
            M.I.max_iter = max(M.I.max_iter, 2 * len(text) + 20)
            try:
                M.I.invoke(f, M.cb, [const(32, True, M.regs[reg]), ('str', text)])
            except (NeedSplit, Thrown) as e:
                rep.add('R6', '%s into %sreg' % (repr(text) if len(text) < 100 else "'q' x %d" % len(text), reg.lower()), False, pos(f.node) + ' xcmp::CodeBuffer::genString', 'fails: %s' % e)
                continue
            data = M.data()
            words = [d for d in data if d.cls == 'hexasm::Data']
            labels = [d for d in data if d.cls == 'hexasm::Label']
            raw = bytes([len(text) & 0xFF]) + text.encode('latin1')
            raw += b'\0' * ((-len(raw)) % 4)
            want = [int.from_bytes(raw[i:i + 4], 'little') for i in range(0, len(raw), 4)]
            got = [(d.fields['value'].lo & 0xFFFFFFFF) if isinstance(d.fields.get('value'), IV) and d.fields['value'].concrete() else None for d in words]
            problems = []
            if len(labels) != 1 or (data and data[0] is not labels[0]):
                problems.append('%d labels' % len(labels))
            if got != want:
                problems.append('data words %s, expected %s' % ([hex(x) if x is not None else '?' for x in got], [hex(x) for x in want]))
            seq = M.instrs()
            if result_register(seq) != reg:
                problems.append('address loaded into %s' % result_register(seq))
            if M.I.ub:
                problems.append('UB %s' % M.I.ub)
            if len(problems) and len(text) >= 100:
                problems = [p_[:300] for p_ in problems]
            rep.add('R6', '%s into %sreg' % (repr(text) if len(text) < 100 else "'q' x %d" % len(text), reg.lower()), not problems, pos(f.node) + ' xcmp::CodeBuffer::genString',
                    '; '.join(problems) if problems else '%d word(s)' % len(words))


def rule_literal_values(rep, idx):
    rep.rule('R19', 'numeric literals denote their value: the xcmp lexer delivers NUMBER with the decimal value of a digit string and the '
             'hexadecimal value of #<hex digits> in either letter case (engine I runs the real lexer on each literal; the C library '
             'conversion is evaluated on the string the lexer collected)', floor=10)
    from .. import robust
    toks = idx.enum('xcmp::Token')
    want = {'0': 0, '7': 7, '42': 42, '65535': 65535, '2147483647': 2147483647, '#0': 0, '#7F': 127, '#7f': 127, '#4A': 0x4A, '#4a': 0x4a,
            '#ff': 255, '#FFFF': 0xFFFF, '#aB': 0xAB, '#10': 16}
    where = pos(idx.func('xcmp::Lexer::readToken').node) + ' xcmp::Lexer::readToken'
    for text, r in robust.lexer_literal_values(idx, 'xcmp', sorted(want)).items():
        if r[0] == 'undecided':
            rep.undecided('R19', 'literal %s' % text, r[1], where)
            continue
        if r[0] == 'throws':
            rep.add('R19', 'literal %s' % text, False, where, 'the literal is rejected: %s' % r[1])
            continue
        tk, v, ub = r
        ok = tk == toks['NUMBER'] and v == want[text] and not ub
        rep.add('R19', 'literal %s' % text, ok, where, 'value %r' % v if ok else 'the lexer delivers token %r with value %r, the literal denotes %d%s' % (
            tk, v, want[text], '; UB %s' % ub if ub else ''), nontrivial=False)


def rule_string_storage(rep, idx):
    """Each occurrence of a string literal is its own array (X strings are arrays the program may store into through an array
    parameter): two literals with the same text must not share storage."""
    f = idx.func('xcmp::CodeBuffer::genString')
    for text in ('hello', ''):
        M = CodeGenModel(idx, 'A')
        M.I.pointer_model = True
        key = 'two occurrences of %r have separate storage' % text
        try:
            M.I.invoke(f, M.cb, [const(32, True, M.regs['A']), ('str', text)])
            n1 = len([d for d in M.data() if d.cls == 'hexasm::Data'])
            l1 = [d for d in M.data() if d.cls == 'hexasm::Label']
            M.I.invoke(f, M.cb, [const(32, True, M.regs['A']), ('str', text)])
        except (NeedSplit, Thrown, AnalysisBroken) as e:
            rep.undecided('R6', key, 'genString not interpreted twice: %s' % e, pos(f.node) + ' xcmp::CodeBuffer::genString')
            continue
        words = [d for d in M.data() if d.cls == 'hexasm::Data']
        labels = [d for d in M.data() if d.cls == 'hexasm::Label']
        names = [repr(d.fields.get('label')) for d in labels]
        ok = len(words) == 2 * n1 and len(labels) == 2 * len(l1) and len(set(names)) == len(names)
        rep.add('R6', key, ok, pos(f.node) + ' xcmp::CodeBuffer::genString',
                '%d data words and labels %s after the second occurrence' % (len(words), names) if ok else
                'the second occurrence of the literal emits no storage of its own (%d data words, labels %s): both occurrences are the same '
                'array, so a store through one (an array parameter) changes the other' % (len(words), names))


def run(rep, tier):
    idx = cast.load('xcmp.cpp')
    rep.analysed(unit='xcmp.cpp')
    rep.trusted = ['clang 14 AST', 'interval/affine interpreter over abstract AST objects built by the real constructors (hexsa/xmodel.py); '
                   'code for sub-expressions is an opaque step that leaves its value in the requested register and may use any stack word '
                   'at or above the current frame offset']
    rep.assumptions = ['these are necessary conditions: equivalence of source and emitted code for every program is NOT decided (DESIGN.md)']
    rule_register_discipline(rep, idx)
    rule_tree_intact(rep, idx)
    from . import c05
    sub = _Sub(rep)
    c05.rule_classification(sub, idx)
    rule_labels(rep, idx)
    rule_frames(rep, idx)
    rule_strings(rep, idx)
    rule_string_storage(rep, idx)
    rule_literal_values(rep, idx)
    rule_templates(rep, idx)
    rule_call_registers(rep, idx)
    rule_variable_slots(rep, idx)
    rule_subscripts(rep, idx)
    # the expression optimiser preserves the X meaning (import of C07's rewrite-identity and fold rules)
    from . import c07
    c07.rule_rewrite(_Rename(rep, {'R2': 'R9'}), idx)
    c07.rule_fold(_Rename(rep, {'R1': 'R10'}), idx)
    c07.rule_fold_effects(_Rename(rep, {'R8': 'R13'}), idx)
    c07.rule_rewrite_evaluations(_Rename(rep, {'R10': 'R17'}), idx)
    c07.rule_scoped_propagation(_Rename(rep, {'R9': 'R18'}), idx)


class _Rename:
    def __init__(self, rep, m):
        self.rep = rep
        self.m = m

    def rule(self, rid, text, floor=0, floor_reason=''):
        self.rep.rule(self.m.get(rid, rid), text, floor, floor_reason)

    def add(self, rule, key, ok, where='', detail='', nontrivial=True, data=None):
        return self.rep.add(self.m.get(rule, rule), key, ok, where, detail, nontrivial, data)

    def undecided(self, rule, key, why, where=''):
        return self.rep.undecided(self.m.get(rule, rule), key, why, where)

    def __getattr__(self, n):
        return getattr(self.rep, n)


class _Sub:
    def __init__(self, rep):
        self.rep = rep

    def rule(self, rid, text, floor=0, floor_reason=''):
        self.rep.rule('R3', text, floor, floor_reason)

    def add(self, rule, key, ok, where='', detail='', nontrivial=True, data=None):
        return self.rep.add('R3', key, ok, where, detail, nontrivial, data)

    def __getattr__(self, n):
        return getattr(self.rep, n)
