"""C01 -- xcmp preserves X source semantics: structural necessary conditions (engines I + Q)."""
import itertools
from .. import cast, ivinterp, xmodel, flow
from ..xmodel import XModel, BINOPS, UNOPS
from ..ivinterp import IV, Obj, Vec, const, NeedSplit, Thrown
from ..frontend import AnalysisBroken
from ..cast import children, pos, walk, callee_of, qt, dqt

DEST = {'LDAC': 'A', 'LDBC': 'B', 'LDAM': 'A', 'LDBM': 'B', 'LDAI': 'A', 'LDBI': 'B', 'LDAI_FB': 'A', 'LDBI_FB': 'B', 'LDAP': 'A'}


class CodeGenModel:
    """An ExprCodeGen/StmtCodeGen visitor with an abstract CodeBuffer, symbol table and frame."""

    def __init__(self, idx, reg='A', opaque_genexpr=True):
        self.idx = idx
        self.X = XModel(idx, self.hooks)
        self.I = self.X.I
        self.atok = idx.enum('hexasm::Token')
        self.ratok = {v: k for k, v in self.atok.items()}
        self.regs = idx.enum('xcmp::Reg')
        self.opaque = opaque_genexpr
        self.subexprs = []
        self.symbols = {}
        self.st = Obj('xcmp::SymbolTable', {'symbolMap': {}}, 'symtab')
        self.frame = self.I.construct('xcmp::Frame', [('str', '_exit_label')])
        self.frame.fields['offset'] = IV(64, False, 0, 1 << 20, None, None, ({'F': 1}, 0))
        self.frame.fields['size'] = IV(64, False, 0, 1 << 20, None, None, ({'S': 1}, 0))
        self.cb = self.I.construct('xcmp::CodeBuffer', [self.st])
        self.X.fix_containers(self.cb)
        self.cb.fields['currentFrame'] = self.frame
        self.scope = ('str', 'f')
        self.reg = reg

    def expr_visitor(self, reg=None):
        v = self.I.construct('xcmp::CodeBuffer::ExprCodeGen', [self.st, self.cb, self.scope, const(32, True, self.regs[reg or self.reg])])
        v.fields.setdefault('exprReplacement', None)
        return v

    def stmt_visitor(self):
        v = self.I.construct('xcmp::CodeBuffer::StmtCodeGen', [self.st, self.cb, self.scope])
        v.fields.setdefault('exprReplacement', None)
        return v

    def symbol(self, name, kind='VAR', scope='f', offset=None, label=None):
        stype = self.idx.enum('xcmp::SymbolType')
        s = self.I.construct('xcmp::Symbol', [const(32, True, stype[kind]), None, ('str', scope), ('str', name)])
        s.fields['frame'] = self.frame
        s.fields['stackOffset'] = offset if offset is not None else IV(32, True, -64, 64, None, None, ({'OFF_' + name: 1}, 0))
        s.fields['globalLabel'] = ('str', label or ('lab_' + name))
        self.symbols[name] = s
        return s

    def hooks(self, I, n, kind, name, did, obj, args, env):
        if kind == 'method' and name == 'lookup':
            a = I.expr(args[0], env)
            nm = a[2] if isinstance(a, tuple) and a[0] == 'pair' else None
            key = nm[1] if isinstance(nm, tuple) else None
            if key not in self.symbols:
                self.symbol(key, 'VAR', 'f')
            return self.symbols[key]
        if kind == 'method' and name in ('genExpr',) and self.opaque:
            # code for a sub-expression: recorded as one opaque step that leaves its value in the requested register
            e = I.expr(args[0], env)
            if isinstance(e, ivinterp.Moved):
                e = e.value
            reg = I.expr(args[2], env) if len(args) > 2 and args[2]['kind'] != 'CXXDefaultArgExpr' else const(32, True, self.regs['A'])
            if e is None:
                I.null_derefs.append(pos(n))
                raise Thrown('null pointer dereference (code generation for a moved-from sub-expression)')
            rn = [k for k, v in self.regs.items() if v == reg.lo][0]
            self.subexprs.append((e, rn))
            self.cb.fields['instrs'].items.append(Obj('EXPR', {'expr': e, 'reg': rn, 'frame_offset': self.frame.fields['offset']}, 'EXPR[%s->%s]' % (self.X.show(e), rn)))
            return None
        if kind == 'method' and name in ('genStmt',) and self.opaque:
            self.cb.fields['instrs'].items.append(Obj('STMT', {}, 'STMT'))
            return None
        if kind == 'method' and name == 'containsCall':
            e = I.expr(args[0], env)
            return const(1, False, int(_contains_call(e)))
        if kind == 'method' and name == 'str' and obj is not None:
            return I.expr(obj, env)
        from .c07 import _map_hooks
        return _map_hooks(I, n, kind, name, did, obj, args, env)

    def instrs(self):
        out = []
        for d in self.cb.fields['instrs'].items:
            if d.cls in ('EXPR', 'STMT'):
                out.append((d.cls, d))
            elif 'token' in d.fields:
                out.append((self.ratok.get(d.fields['token'].lo, '?'), d))
            else:
                out.append((d.cls, d))
        return out

    def data(self):
        return self.cb.fields['data'].items


def _contains_call(e):
    if not isinstance(e, Obj):
        return False
    if e.cls == 'xcmp::CallExpr':
        return True
    for f in ('LHS', 'RHS', 'element', 'expr'):
        if _contains_call(e.fields.get(f)):
            return True
    a = e.fields.get('args')
    if isinstance(a, Vec):
        return any(_contains_call(x) for x in a.items)
    return False


def result_register(seq):
    """Register that holds the value after a generated sequence: destination of the last value-producing step."""
    last = None
    for tk, d in seq:
        if tk in DEST:
            last = DEST[tk]
        elif tk == 'EXPR':
            last = d.fields['reg']
        elif tk == 'OPR':
            last = 'A'
    return last


def rule_register_discipline(rep, idx, rid='R1'):
    rep.rule(rid, 'register-target discipline: an expression that the operand scheduler may request in breg (constants of every form, '
             'strings, variable references -- exactly the classes for which needsAReg is false) is materialised in the register the '
             'visitor was asked for, and in areg when asked for areg', floor=16)
    shapes = [
        ('number', lambda X: X.num(5)), ('boolean', lambda X: X.boolean(1)),
        ('folded binary op (1+2)', lambda X: X.binop('PLUS', X.num(1), X.num(2))),
        ('folded unary op -(1)', lambda X: X.unop('MINUS', X.num(1))),
        ('folded relation (1<2)', lambda X: X.binop('LS', X.num(1), X.num(2))),
        ('large constant 100000', lambda X: X.num(100000)),
        ('string', lambda X: X.string('hi')),
        ('local variable', lambda X: X.var('x')),
        ('global variable', lambda X: X.var('g')),
        ('constant val name', lambda X: _const_var(X, 'v', 9)),
    ]
    for (name, mk), reg in itertools.product(shapes, ('A', 'B')):
        M = CodeGenModel(idx, reg)
        M.symbol('x', 'VAR', 'f')
        M.symbol('g', 'VAR', '')
        M.symbol('v', 'VAL', '')
        node = M.X.const_prop(mk(M.X))
        vis = M.expr_visitor(reg)
        where = 'xcmp.hpp xcmp::CodeBuffer::ExprCodeGen::visitPost(%s&)' % node.cls.split('::')[-1]
        key = '%s into %sreg' % (name, reg.lower())
        try:
            # does the scheduler consider this shape register-free?
            M.X.visit_post(vis, node)
        except NeedSplit as e:
            rep.undecided(rid, key, 'not uniform: %s' % e, where)
            continue
        except Thrown as e:
            rep.add(rid, key, False, where, 'code generation fails: %s' % e.what)
            continue
        seq = M.instrs()
        got = result_register(seq)
        rep.add(rid, key, got == reg, where,
                'value of %s requested in %sreg is produced in %sreg by %s' % (M.X.show(node), reg.lower(), (got or '?').lower(), [t for t, _ in seq]))


def _const_var(X, name, v):
    n = X.var(name)
    n.fields['constValue'] = const(32, True, v)
    return n


def run(rep, tier):
    idx = cast.load('xcmp.cpp')
    rep.analysed(unit='xcmp.cpp')
    rule_register_discipline(rep, idx)
