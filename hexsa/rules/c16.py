"""C16 -- processor.v (and its copy in synth/) is behaviourally identical to processor.sv (engine V)."""
from .. import vlxml
from ..terms import *
from ..frontend import AnalysisBroken
from .. import frontend as fe

SV = ['verilog/hex_pkg.sv', 'verilog/processor.sv']
COPIES = ['verilog/processor.v', 'synth/processor.v']
TOP = 'processor'


def interface(d):
    m = d.modules[TOP]
    ports = {}
    for n, v in m.vars.items():
        if v.get('dir') in ('input', 'output'):
            ports[n] = (v.get('dir'), d.width(v.get('dtype_id')))
    regs = {n: d.width(m.vars[n].get('dtype_id')) for n in m.ffdrv}
    sens = []
    for ff in m.ff:
        s = []
        for it in ff.find('sentree'):
            s.append((it.get('edgeType'), it[0].get('name') if len(it) else None))
        drv = tuple(sorted(m_ for m_ in vlxml.lhs_names(ff)))
        if not drv:
            continue        # a clocked block that drives nothing (simulation-only checker): no part of the state interface
        sens.append((drv, tuple(sorted(s))))
    return ports, regs, sorted(sens)


def summarize(d, byte, rst, symbolic_instr=False):
    m = d.modules[TOP]
    ports, regs, _ = interface(d)
    ov = {}
    for n, (dr, w) in ports.items():
        if dr != 'input':
            continue
        if n == 'i_f_data' and not symbolic_instr:
            ov[TOP + '.' + n] = const(w, byte)
        elif n == 'i_rst':
            ov[TOP + '.' + n] = const(w, rst)
        else:
            ov[TOP + '.' + n] = var(n, w)
    for n, w in regs.items():
        ov[TOP + '.' + n] = var(n, w)
    ev = vlxml.Eval(d, TOP, ov)
    out = {}
    nxt, writes = ev.next_state(ev.root)
    for k, v in nxt.items():
        out["next(%s)" % k] = v
    writes = [w_ for w_ in writes if not str(w_[0]).startswith('$')]      # simulation tasks are neither outputs nor state (the property's terms)
    if writes:
        out['array-writes'] = writes
    for n, (dr, w) in ports.items():
        if dr == 'output':
            out[n] = ev.net(ev.root, n)
    return out


def run(rep, tier):
    rep.rule('R0', 'the two modules have the same ports (direction, width), the same registers and the same clock/reset '
             'sensitivity', floor=2)
    rep.rule('R1', 'for every instruction byte (0..255) x reset in {0,1}: every output and every register next-state function '
             'of the copy has the same canonical term as processor.sv over symbolic pc/areg/breg/oreg/i_d_data',
             floor=2 * 256 * 2 * 10, floor_reason='2 copies x 256 bytes x reset x (>=10 outputs + next-states)')
    rep.exhaustive = True
    rep.trusted = ["Verilator 5.006 elaboration (--xml-only)", 'term algebra hexsa/terms.py (pass only on identical canonical forms)']
    rep.assumptions = ['2-state semantics: X constants produced by sv2v are treated as unknown bits that must cancel',
                       'all registers are assigned in edge-triggered blocks whose sensitivity lists are compared structurally']
    dsv = vlxml.load(SV, TOP)
    ref_if = interface(dsv)
    rep.analysed(unit='verilog/processor.sv')
    cache = {}
    for b in range(256):
        for rst in (0, 1):
            cache[(b, rst)] = summarize(dsv, b, rst)
    nontriv = 0
    for copy in COPIES:
        rep.analysed(unit=copy)
        dv = vlxml.load([copy], TOP)
        cif = interface(dv)
        ok = cif == ref_if
        rep.add('R0', copy + ':interface', ok, copy,
                'identical ports/registers/sensitivity' if ok else 'interface differs: %r vs %r' % (cif, ref_if))
        if not ok:
            continue
        # the copies are shipped for synthesis: tools such as yosys define SYNTHESIS, so text under `ifdef SYNTHESIS is part of the design
        if 'SYNTHESIS' in fe.read_source(copy):
            dsyn = vlxml.load([copy], TOP, defines=('SYNTHESIS',))
            csyn = interface(dsyn)
            same = csyn == ref_if
            rep.add('R0', copy + ':interface-with-SYNTHESIS-defined', same, copy,
                    'identical ports/registers/sensitivity with SYNTHESIS defined' if same else
                    'with SYNTHESIS defined (as synthesis tools do) the copy differs from processor.sv: %r vs %r' % (csyn, ref_if))
            if same:
                for b in (0x00, 0x35, 0xD1, 0xE5):
                    for rst in (0, 1):
                        s2 = summarize(dsyn, b, rst)
                        diff = [k for k in sorted(set(cache[(b, rst)]) | set(s2)) if cache[(b, rst)].get(k) != s2.get(k)]
                        rep.add('R1', '%s:SYNTHESIS:byte=0x%02X:rst=%d' % (copy, b, rst), not diff, copy,
                                'differs in %s with SYNTHESIS defined' % diff if diff else 'identical with SYNTHESIS defined', nontrivial=False)
        for b in range(256):
            for rst in (0, 1):
                s1 = cache[(b, rst)]
                s2 = summarize(dv, b, rst)
                for k in sorted(set(s1) | set(s2)):
                    a, c = s1.get(k), s2.get(k)
                    key = '%s:byte=0x%02X:rst=%d:%s' % (copy, b, rst, k)
                    nt = isinstance(a, V) and not a.isconst()
                    if a == c:
                        rep.add('R1', key, True, copy, nontrivial=nt)
                        continue
                    if not isinstance(a, V) or not isinstance(c, V):
                        rep.add('R1', key, False, copy, 'signal present in only one design / memory writes differ: %r | %r' % (a, c))
                        continue
                    cx = distinguish(a, c, seed=rep.seed)
                    if cx is None:
                        rep.undecided('R1', key, 'forms differ but no distinguishing state found: %r | %r' % (a, c), copy)
                        continue
                    rep.add('R1', key, False, copy + ' module processor',
                            'instruction byte 0x%02X, reset=%d, state %s: processor.sv gives %s = 0x%x, %s gives 0x%x  [%r | %r]'
                            % (b, rst, {n: hex(v) for n, v in cx[0].items()}, k, cx[1], copy, cx[2], a, c),
                            data={'byte': b, 'rst': rst, 'signal': k, 'state': cx[0], 'sv': repr(a), 'copy': repr(c)})
    # thorough: also compare with the instruction byte symbolic (decode logic included), as a cross-check
    if tier == 'thorough':
        rep.rule('R2', 'with the instruction byte symbolic as well, outputs/next-state agree on the corner + random assignment '
                 'bank (refutation-only cross-check of the per-byte partition)')
        import random
        for copy in COPIES:
            dv = vlxml.load([copy], TOP)
            for rst in (0, 1):
                s1 = summarize(dsv, 0, rst, symbolic_instr=True)
                s2 = summarize(dv, 0, rst, symbolic_instr=True)
                for k in sorted(s1):
                    a, c = s1[k], s2.get(k)
                    if not isinstance(a, V) or not isinstance(c, V):
                        continue
                    cx = None if a == c else distinguish(a, c, seed=rep.seed, tries=3000)
                    rep.add('R2', '%s:rst=%d:%s:symbolic-byte' % (copy, rst, k), cx is None, copy,
                            'no distinguishing assignment in 3000 states' if cx is None else 'differs at %r' % (cx,))
    # informational: textual identity of the two .v copies
    a = _tokens(fe.read_source(COPIES[0]))
    c = _tokens(fe.read_source(COPIES[1]))
    rep.note('token streams of %s and %s are %s (informational; the verdict is the semantic comparison above)'
             % (COPIES[0], COPIES[1], 'identical' if a == c else 'different'))


def _tokens(s):
    import re
    s = re.sub(r'//[^\n]*', '', s)
    s = re.sub(r'/\*.*?\*/', '', s, flags=re.S)
    return re.findall(r"[A-Za-z_$][\w$]*|\d+'[sS]?[bdhoBDHO][0-9a-fA-FxXzZ_?]+|\d+|\S", s)
