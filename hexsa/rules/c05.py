"""C05 -- every label reference assembles to the address of its label (engines I + Q)."""
from .. import cast, spec_isa, ivinterp, flow
from ..ivinterp import IV, Obj, Vec, NeedSplit, Thrown, const, aff_eq, aff_add, aff_str, bits_of_interval
from ..frontend import AnalysisBroken
from ..cast import children, pos, walk, callee_of, dqt, qt
from . import c04

MAXG = 1 << 22


# --------------------------------------------------------------------------------------------------
# abstract programs
# --------------------------------------------------------------------------------------------------

class Builder:
    def __init__(self, idx):
        self.idx = idx
        self.toks = idx.enum('hexasm::Token')
        self.state = {'bytes': [], 'symbols': []}
        self.I = ivinterp.Interp(idx, self.hooks)

    def hooks(self, I, n, kind, name, did, obj, args, env):
        t = (dqt(obj) + ' ' + qt(obj)) if obj is not None else ''
        if kind == 'method' and name == 'createLabelMap' and not getattr(self, 'real_label_map', True):
            this = env['this']
            m = {}
            for d in this.fields['program'].items:
                if 'label' in d.fields and I.idx.derives_from(d.cls, 'hexasm::Label'):
                    m[d.fields['label'][1]] = d
            this.fields['labelMap'] = m
            return None
        if kind == 'method' and name == 'push_back' and 'pair' in t:
            v = I.expr(args[0], env)
            self.state['symbols'].append(v)
            return None
        if kind == 'function' and name == 'make_pair':
            return ('pair',) + tuple(I.expr(a, env) for a in args)
        if kind == 'function' and name in ('make_unique',):
            # std::make_unique<T>(args...) -> construct T
            import re
            m_ = re.search(r'unique_ptr(?:_t)?<([\w:]+)', dqt(n) + ' ' + qt(n))
            if not m_:
                raise AnalysisBroken('cannot resolve make_unique target type at %s' % pos(n))
            tn = m_.group(1)
            cls = tn if tn in I.idx.records else (I.idx._resolve_record_name(tn.split('::')[-1], 'hexasm::CodeGen') or tn)
            return I.construct(cls, [I.expr(a, env) for a in args])
        return c04.hooks_factory(self.state)(I, n, kind, name, did, obj, args, env)

    def tok(self, name):
        return const(32, True, self.toks[name])

    def s(self, text):
        return ('str', text)

    def data(self, v=42):
        return self.I.construct('hexasm::Data', [self.tok('DATA'), const(32, True, v)], name='DATA')

    def label(self, name):
        return self.I.construct('hexasm::Label', [self.tok('IDENTIFIER'), self.s(name)], name='label ' + name)

    def func(self, name):
        return self.I.construct('hexasm::Func', [self.tok('FUNC'), self.s(name)], name='FUNC ' + name)

    def proc(self, name):
        return self.I.construct('hexasm::Proc', [self.tok('PROC'), self.s(name)], name='PROC ' + name)

    def imm(self, mnem, v):
        val = v if isinstance(v, IV) else const(32, True, v)
        return self.I.construct('hexasm::InstrImm', [self.tok(mnem), val], name='%s %s' % (mnem, v))

    def ref(self, mnem, label):
        rel = 1 if mnem in spec_isa.PC_RELATIVE else 0
        return self.I.construct('hexasm::InstrLabel', [self.tok(mnem), self.s(label), const(1, False, rel)], name='%s %s' % (mnem, label))

    def opr(self, op='ADD'):
        return self.I.construct('hexasm::InstrOp', [self.tok('OPR'), self.tok(op)], name='OPR ' + op)

    def pad(self, sym, lo, hi, low2=None, coeff=1, src=None, base=0):
        """A block of `sym*coeff` bytes (abstract): a Padding directive whose size is the symbol."""
        bits = [None] * 64
        if low2 is not None:
            bits[0], bits[1] = low2 & 1, (low2 >> 1) & 1
        if hi < (1 << 62):
            for i in range(max(hi, 1).bit_length(), 64):
                bits[i] = 0
        n = IV(64, False, lo, hi, bits, src, ({sym: coeff}, base) if lo != hi else None)
        return self.I.construct('hexasm::Padding', [n], name='block(%s)' % sym)

    def codegen(self, items):
        cg = Obj('hexasm::CodeGen', {'program': Vec(items), 'programSizeBytes': const(64, False, 0)}, 'CodeGen')
        # members a change adds start out default-constructed (containers empty, scalars zero)
        rec = self.idx.records.get('hexasm::CodeGen')
        for fd in (rec.fields if rec is not None else []):
            if fd['name'] in cg.fields or fd['name'] == 'labelMap':
                continue
            t = dqt(fd) + ' ' + qt(fd)
            if 'vector<' in t:
                cg.fields[fd['name']] = Vec([])
            elif 'map<' in t or 'set<' in t:
                cg.fields[fd['name']] = {}
            elif 'basic_string' in t or 'std::string' in t:
                cg.fields[fd['name']] = ('str', '')
            else:
                ti = ivinterp.tinfo(fd, self.idx) if hasattr(ivinterp, 'tinfo') else None
                if ti:
                    cg.fields[fd['name']] = const(ti[0], ti[1], 0)
        m = {}
        for d in items:
            if 'label' in d.fields and self.idx.derives_from(d.cls, 'hexasm::Label'):
                m[d.fields['label'][1]] = d
        cg.fields['labelMap'] = m
        return cg

    def contiguity(self, items):
        """After layout: every directive starts where the previous one ends (templates without DATA, so no alignment gaps).
        Returns a list of discrepancies."""
        out = []
        for a, b in zip(items, items[1:]):
            sz = self.I.invoke(self.I.resolve_method(a, 'getSize', None), a, [])
            oa, ob = a.fields.get('byteOffset'), b.fields.get('byteOffset')
            if not (isinstance(sz, IV) and isinstance(oa, IV) and isinstance(ob, IV)):
                continue
            if oa.aff is None or ob.aff is None:
                continue
            end = aff_add(oa.aff, sz.aff if sz.aff is not None else ({}, sz.lo)) if (sz.aff is not None or sz.concrete()) else None
            if end is not None and not aff_eq(end, ob.aff):
                out.append('%s ends at %s but %s is placed at %s' % (a.name, aff_str(end), b.name, aff_str(ob.aff)))
        return out

    def layout(self, items):
        cg = self.codegen(items)
        # what the constructor runs before the layout: the label map is built by the real createLabelMap when it can be interpreted
        # (a change may make it collect more than the map), otherwise the map prepared by codegen() stands
        clm = self.idx.func('hexasm::CodeGen::createLabelMap', required=False)
        if clm is not None and clm.body is not None:
            saved = dict(cg.fields)
            try:
                cg.fields['labelMap'] = {}
                self.I.invoke(clm, cg, [])
            except (AnalysisBroken, NeedSplit):
                cg.fields.clear()
                cg.fields.update(saved)
        f = self.idx.func('hexasm::CodeGen::resolveLabels')
        self.I.invoke(f, cg, [])
        return cg

    def emit(self, items, start_low2, sym='E', concrete_start=None):
        """Interpret the loop body of emitProgramBin for the directives in order from an abstract running offset.
        Returns (bytes emitted per directive, end offset value, symbols recorded)."""
        emit = self.idx.func('hexasm::CodeGen::emitProgramBin')
        loop, var, body, pre = c04.find_range_for(emit)
        env = {'this': Obj('hexasm::CodeGen', {}, 'CodeGen'), 'locals': {}}
        for prm in emit.params:
            env['locals'][prm['id']] = Obj('std::ostream', {}, 'outputFile')
        for st in pre:
            self.I.stmt(st, env)
        # find the running offset local (the int declared before the loop) and make it abstract
        offs = [d for st in pre for d in walk(st) if d['kind'] == 'VarDecl' and qt(d).replace('const ', '').strip() in
                ('int', 'unsigned int', 'unsigned', 'size_t', 'long', 'unsigned long', 'std::size_t', 'uint32_t', 'std::streamoff')]
        if len(offs) != 1:
            raise AnalysisBroken('emitProgramBin: expected one running-offset local before the loop')
        oid = offs[0]['id']
        bits = [start_low2 & 1, (start_low2 >> 1) & 1] + [None] * 20 + [0] * 10
        env['locals'][oid] = IV(32, True, start_low2, (1 << 22) + start_low2, bits, None, ({sym: 1}, 0))
        if concrete_start is not None:
            env['locals'][oid] = const(32, True, concrete_start)
        per = []
        self.state['symbols'] = []
        for d in items:
            self.state['bytes'] = []
            env['locals'][var['id']] = d
            try:
                self.I.stmt(body, env)
            except ivinterp._Continue:
                pass
            ev = []
            for b in self.state['bytes']:
                if isinstance(b, tuple) and b[0] == 'write':
                    sz = b[1][0]
                    if not (isinstance(sz, IV) and sz.concrete()):
                        raise AnalysisBroken('write of a non-concrete number of bytes')
                    ev.append(sz.lo)
                else:
                    ev.append(1)
            per.append(ev)
        return per, env['locals'][oid], list(self.state['symbols'])


def cls_of(lo, hi):
    return '[%d,%d]' % (lo, hi) if lo != hi else '{%d}' % lo


# --------------------------------------------------------------------------------------------------
# R4/R5/R6: layout == emission; DATA alignment; label before DATA; header length
# --------------------------------------------------------------------------------------------------

def sequences(B):
    return [
        ('DATA', lambda: [B.data()]),
        ('label', lambda: [B.label('a')]),
        ('FUNC', lambda: [B.func('f')]),
        ('PROC', lambda: [B.proc('p')]),
        ('InstrImm-1byte', lambda: [B.imm('LDAC', 5)]),
        ('InstrImm-2byte-negative', lambda: [B.imm('LDAC', -1)]),
        ('InstrImm-3byte', lambda: [B.imm('LDBM', 300)]),
        ('InstrImm-5byte', lambda: [B.imm('LDAC', 70000)]),
        ('InstrImm-8byte', lambda: [B.imm('LDAC', -2000000000)]),
        ('InstrOp', lambda: [B.opr('SVC')]),
        ('label+DATA', lambda: [B.label('x'), B.data()]),
        ('label+label+DATA+DATA', lambda: [B.label('x'), B.label('y'), B.data(), B.data(7)]),
        ('PROC+imm+DATA+FUNC+opr', lambda: [B.proc('p'), B.imm('LDAC', 5), B.data(), B.func('g'), B.opr('ADD')]),
        ('imm5+PROC+imm+FUNC', lambda: [B.imm('LDAC', 70000), B.proc('p'), B.imm('LDBM', 300), B.func('g')]),
        ('DATA+imm+label+DATA', lambda: [B.data(), B.imm('LDAC', 1), B.label('x'), B.data()]),
        ('imm+FUNC+DATA', lambda: [B.imm('LDAC', 1), B.func('tab'), B.data()]),
        ('imm+PROC+label+DATA', lambda: [B.imm('LDAC', 1), B.proc('tab'), B.label('y'), B.data()]),
        # references to code labels: the label named by an absolute operand is either rejected (unaligned) or laid out where it is emitted
        ('absref+opr+codelabel+opr (may be rejected)', lambda: [B.ref('LDAC', 'x'), B.opr('ADD'), B.label('x'), B.opr('SUB')]),
        ('relref+opr+codelabel+opr', lambda: [B.ref('BR', 'x'), B.opr('ADD'), B.label('x'), B.opr('SUB')]),
    ]


def rule_layout_emission(rep, idx):
    rep.rule('R4', 'a label placed directly before DATA gets the byte address of that (aligned) DATA word, and DATA offsets are '
             'multiples of 4, for every residue of the preceding code size modulo 4', floor=8)
    rep.rule('R5', 'layout == emission: for each directive kind/sequence and each residue of the start offset mod 4, the offsets '
             'assigned by resolveLabels equal the number of bytes emitProgramBin has written when it reaches the directive, the '
             'emitter\'s own running offset counts exactly the bytes written, and FUNC/PROC symbols are recorded with the layout '
             'offset of the directive', floor=15 * 4)
    where_l = pos(idx.func('hexasm::CodeGen::resolveLabels').node) + ' hexasm::CodeGen::resolveLabels'
    where_e = pos(idx.func('hexasm::CodeGen::emitProgramBin').node) + ' hexasm::CodeGen::emitProgramBin'
    for r in range(4):
        B = Builder(idx)
        for name, mk in sequences(B):
            items = mk()
            end = B.label('__end')
            # sequences with a label operand use a start range on which the operand keeps one encoding length
            prog = [B.pad('P', 64 + r, 1000 + r, r) if 'codelabel' in name else B.pad('P', 4 + r, (1 << 20) + r, r)] + items + [end]
            try:
                B.layout(prog)
                per, endoff, syms = B.emit(items, r)
            except Thrown as e:
                if 'may be rejected' in name and _is_repo_error(idx, e.what):
                    rep.add('R5', '%s:start%%4=%d' % (name, r), True, where_l, 'rejected (%s): nothing is emitted' % e.what, nontrivial=False)
                    continue
                rep.add('R5', '%s:start%%4=%d' % (name, r), False, where_l, 'unexpected rejection: %s' % e.what)
                continue
            except NeedSplit as e:
                rep.undecided('R5', '%s:start%%4=%d' % (name, r), 'not uniform: %s' % e, where_l)
                continue
            problems = []
            # layout offsets relative to P
            lay = []
            for d in items + [end]:
                off = d.fields['byteOffset']
                rel = aff_add(off.aff, ({'P': 1}, 0), -1) if off.aff else None
                if rel is None or rel[0]:
                    problems.append('layout offset of %s is not start+constant (%s)' % (d.name, aff_str(off.aff)))
                    lay.append(None)
                else:
                    lay.append(rel[1])
            if None not in lay:
                cum = 0
                allitems = items + [end]
                for i, d in enumerate(items):
                    ev = per[i]
                    # a DATA word is the last four bytes written for the directive (one write or byte by byte); what precedes is padding
                    own = (min(4, sum(ev)) if ev else 0) if _is_data(d) else sum(ev)
                    padb = sum(ev) - own
                    if own > 0:
                        if lay[i] != cum + padb:
                            problems.append('%s: its bytes start at +%d in the image, layout offset is +%d' % (d.name, cum + padb, lay[i]))
                    else:
                        # zero-size directive (label/FUNC/PROC): next byte position, or the aligned DATA word it names
                        j = i + 1
                        while j < len(items) and not per[j] and not _is_data(items[j]):
                            j += 1
                        if j < len(items) and _is_data(items[j]) and all(x.cls in ('hexasm::Label', 'hexasm::Func', 'hexasm::Proc') for x in items[i:j]):
                            if lay[i] not in (cum, lay[j]):
                                problems.append('%s: layout offset +%d is neither the next byte (+%d) nor its DATA word (+%d)' % (d.name, lay[i], cum, lay[j]))
                        elif lay[i] != cum:
                            problems.append('%s: layout offset +%d, next byte of the image is +%d' % (d.name, lay[i], cum))
                    cum += sum(ev)
                if lay[-1] != cum:
                    problems.append('end of sequence: layout +%d, bytes written %d' % (lay[-1], cum))
                per = [sum(e) for e in per]
                tot = sum(per)
                ea = aff_add(endoff.aff, ({'E': 1}, 0), -1) if endoff.aff else None
                if ea is None or ea[0] or ea[1] != tot:
                    problems.append('emitter running offset advanced by %s, bytes written %d' % (aff_str(ea) if ea else '?', tot))
                # symbols
                sy = [d for d in items if d.cls in ('hexasm::Func', 'hexasm::Proc')]
                if len(syms) != len(sy):
                    problems.append('%d FUNC/PROC directives, %d symbols recorded' % (len(sy), len(syms)))
                for d, sv in zip(sy, syms):
                    so = sv[2] if isinstance(sv, tuple) and len(sv) > 2 else None
                    sa = aff_add(so.aff, ({'E': 1}, 0), -1) if isinstance(so, IV) and so.aff else None
                    lo_ = lay[items.index(d)]
                    # the symbol must equal the layout offset of the directive: either counted by the emitter (start E + constant) or
                    # taken from the layout itself (the label's value / the directive's byte offset, start P + constant)
                    sp_ = aff_add(so.aff, ({'P': 1}, 0), -1) if isinstance(so, IV) and so.aff else None
                    if sp_ is not None and not sp_[0] and sp_[1] == lo_:
                        continue
                    if sa is None or sa[0] or sa[1] != lo_:
                        problems.append('symbol %s recorded at +%s, layout offset +%s' % (d.name, aff_str(sa) if sa else '?', lo_))
                    if isinstance(sv, tuple) and sv[1] != d.fields.get('label'):
                        problems.append('symbol name %r recorded for %s' % (sv[1], d.name))
            rep.add('R5', '%s:start%%4=%d' % (name, r), not problems, where_l + ' / ' + where_e,
                    '; '.join(problems) if problems else 'offsets %s, bytes %s' % (lay, per))
            # R4 instances
            if None not in lay:
                for i, d in enumerate(items):
                    if _is_data(d):
                        ok = (r + lay[i]) % 4 == 0
                        rep.add('R4', '%s#%d:DATA-aligned:start%%4=%d' % (name, i, r), ok, where_l,
                                'DATA at start+%d with start%%4=%d' % (lay[i], r))
                    if idx.derives_from(d.cls, 'hexasm::Label') and i + 1 < len(items):
                        j = i + 1
                        while j < len(items) and idx.derives_from(items[j].cls, 'hexasm::Label'):
                            j += 1
                        if j < len(items) and _is_data(items[j]):
                            lv = d.fields['labelValue']
                            ok = aff_eq(lv.aff, items[j].fields['byteOffset'].aff)
                            rep.add('R4', '%s#%d:label-names-DATA:start%%4=%d' % (name, i, r), ok, where_l,
                                    'label value %s, DATA word at %s' % (aff_str(lv.aff), aff_str(items[j].fields['byteOffset'].aff)))


def _is_data(d):
    return d.cls == 'hexasm::Data'


def rule_header(rep, idx):
    rep.rule('R6', 'the constructor pads the image to a multiple of 4 (program size = last offset + last size + padding, padding '
             'appended as a directive) and emitBin writes (size >> 2) as the first 4 bytes before the image', floor=5)
    ctor = [c for c in idx.record('hexasm::CodeGen').ctors if not c.node.get('isImplicit') and c.body is not None][0]
    for r in range(4):
        B = Builder(idx)
        prog = [B.pad('P', 4 + r, (1 << 20) + r, r), B.opr('ADD')]
        cg = Obj('hexasm::CodeGen', {'program': Vec(prog), 'programSizeBytes': const(64, False, 0), 'labelMap': {}}, 'CodeGen')
        env = {'this': cg, 'locals': {}}
        for prm in ctor.params:
            env['locals'][prm['id']] = cg.fields['program']
        for ini in ctor.inits:
            a = ini.get('anyInit') or {}
            if a.get('name') == 'programSizeBytes' and children(ini):
                cg.fields['programSizeBytes'] = B.I.convert(B.I.expr(children(ini)[0], env), 64, False)
        try:
            B.I.stmt(ctor.body, env)
        except ivinterp._Return:
            pass
        sz = cg.fields['programSizeBytes']
        items = cg.fields['program'].items
        padd = items[-1] if items[-1].cls == 'hexasm::Padding' and items[-1] is not prog[0] else None
        want_pad = (4 - (r + 1) % 4) % 4
        got_pad = padd.fields['numBytes'] if padd is not None else None
        ok = (padd is not None and isinstance(got_pad, IV) and got_pad.concrete() and got_pad.lo == want_pad and
              sz.aff is not None and sz.aff[0] == {'P': 1} and sz.aff[1] == 1 + want_pad and sz.bits is not None and sz.bits[0] == 0 and sz.bits[1] == 0)
        rep.add('R6', 'ctor:size-padded:start%%4=%d' % r, ok, pos(ctor.node) + ' hexasm::CodeGen::CodeGen',
                'programSizeBytes = %s, trailing padding %r (expected P+%d, padding %d)' % (aff_str(sz.aff), got_pad, 1 + want_pad, want_pad))
    # emitBin: first write is programSizeBytes >> 2, 4 bytes, before emitProgramBin
    f = idx.func_where('hexasm::CodeGen::emitBin', lambda g: any(callee_of(c)[1] == 'emitProgramBin' for c in cast.calls_in(g.body)))
    order = []
    for c in cast.calls_in(f.body):
        nm = callee_of(c)[1]
        if nm in ('write', 'emitProgramBin', 'emitDebugInfo'):
            order.append((nm, c))
    ok = False
    detail = 'call order %s' % [o[0] for o in order]
    if order and order[0][0] == 'write' and 'emitProgramBin' in [o[0] for o in order]:
        w = order[0][1]
        args = cast.call_args(w)
        vid = None
        for x in walk(args[0]):
            if x['kind'] == 'DeclRefExpr' and x.get('referencedDecl', {}).get('kind') == 'VarDecl':
                vid = x['referencedDecl']['id']
        vd = idx.by_id.get(vid)
        shr2 = False
        scalings = []
        if vd is not None:
            for x in walk(vd):
                if x['kind'] == 'BinaryOperator' and x.get('opcode') in ('>>', '/', '<<', '*'):
                    scalings.append((x['opcode'], cast.const_int(children(x)[1], idx)))
                if x['kind'] == 'BinaryOperator' and x.get('opcode') == '>>' and cast.const_int(children(x)[1], idx) == 2 and \
                        any(y['kind'] == 'MemberExpr' and y.get('name') == 'programSizeBytes' for y in walk(children(x)[0])):
                    shr2 = True
                if x['kind'] == 'BinaryOperator' and x.get('opcode') == '/' and cast.const_int(children(x)[1], idx) == 4:
                    shr2 = True
        plain_member = vd is not None and children(vd) and cast.member_ref(children(vd)[-1]) is not None
        if not shr2 and not scalings and not plain_member:
            # neither a scaled nor an unscaled copy of the size member: the header word is computed in a form this rule does not know
            rep.undecided('R6', 'emitBin:header-word', 'the header word is not written as programSizeBytes >> 2 or / 4: idiom not recognised', pos(f.node))
            return
        four = False
        for x in walk(args[1]):
            if x['kind'] == 'UnaryExprOrTypeTraitExpr' and 'int' in (x.get('argType') or {}).get('qualType', ''):
                four = True
            if x['kind'] == 'IntegerLiteral' and x.get('value') == '4':
                four = True
        ok = shr2 and four
        detail += '; header = programSizeBytes >> 2: %s; 4 bytes: %s' % (shr2, four)
    rep.add('R6', 'emitBin:header-word', ok, pos(f.node) + ' hexasm::CodeGen::emitBin', detail)


# --------------------------------------------------------------------------------------------------
# R3: unaligned absolute reference rejected; aligned absolute reference = word address
# --------------------------------------------------------------------------------------------------

def rule_absolute(rep, idx):
    rep.rule('R3', 'an absolute reference (LDAM/LDBM/STAM/LDAC/LDBC) gets the word address of its label when the label is word '
             'aligned and is rejected with a hexutil::Error when it is not (for every residue modulo 4)', floor=5 * 4)
    where = pos(idx.func('hexasm::CodeGen::resolveLabels').node) + ' hexasm::CodeGen::resolveLabels'
    for m in sorted(spec_isa.ABSOLUTE):
        for r in range(4):
            B = Builder(idx)
            lab = B.label('x')
            ins = B.ref(m, 'x')
            # the label sits at byte address 4*W + r with W in [16,255] (a two-nibble word address)
            prog = [B.pad('W', 64 + r, 1020 + r, r, 4, None, r), lab, B.opr('ADD'), ins]
            key = '%s:label%%4=%d' % (m, r)
            try:
                B.layout(prog)
                thrown = None
            except Thrown as e:
                thrown = e.what
            except NeedSplit as e:
                rep.undecided('R3', key, 'layout not uniform on the class: %s' % e, where)
                continue
            if r == 0:
                if thrown:
                    rep.add('R3', key, False, where, 'aligned reference rejected: %s' % thrown)
                    continue
                # operand*4 == label value
                op = ins.fields['labelValue']
                lv = lab.fields['labelValue']
                ok = op.aff is not None and lv.aff is not None and aff_eq(({k: 4 * c for k, c in op.aff[0].items()}, 4 * op.aff[1]), lv.aff)
                rep.add('R3', key, ok, where, 'operand %s, label byte address %s' % (aff_str(op.aff), aff_str(lv.aff)))
            else:
                ok = thrown is not None and _is_repo_error(idx, thrown)
                rep.add('R3', key, ok, where, ('rejected with %s' % thrown) if thrown else
                        'label at a byte address = %d mod 4 is accepted; the operand is the truncated word address %s' % (
                            r, aff_str(ins.fields['labelValue'].aff) if isinstance(ins.fields.get('labelValue'), IV) else '?'))


def rule_absolute_after_growth(rep, idx, rid='R3g'):
    rep.rule(rid, 'the alignment of an absolutely referenced label is judged on the final layout: in  k x OPR / BR far / x: / LDAC x / '
             'block(G) / far:  the branch has to grow by one byte after the first pass, which moves x from byte k+1 to byte k+2; the '
             'reference must be rejected exactly when k+2 is not a multiple of 4, and otherwise carry the word address (k+2)/4', floor=4)
    where = pos(idx.func('hexasm::CodeGen::resolveLabels').node) + ' hexasm::CodeGen::resolveLabels'
    for m in ('LDAC', 'LDAM'):
        for k in range(4):
            B = Builder(idx)
            far, x = B.label('far'), B.label('x')
            br, ins = B.ref('BR', 'far'), B.ref(m, 'x')
            prog = [B.opr('ADD') for _ in range(k)] + [br, x, ins, B.pad('G', 20, 200, None, 1, 'input'), far]
            key = '%s:k=%d' % (m, k)
            try:
                B.layout(prog)
                thrown = None
            except Thrown as e:
                thrown = e.what
            except NeedSplit as e:
                rep.undecided(rid, key, 'layout not uniform on the gap class: %s' % e, where)
                continue
            final = k + 2
            if thrown is None:
                sz = B.I.invoke(B.I.resolve_method(br, 'getSize', None), br, [])
                lv = x.fields['labelValue']
                if not (isinstance(sz, IV) and sz.concrete() and sz.lo == 2 and isinstance(lv, IV) and lv.concrete() and lv.lo == final):
                    rep.undecided(rid, key, 'template precondition not met (branch size %r, label at %r): the template no longer exercises growth' % (sz, lv), where)
                    continue
            if final % 4 == 0:
                op = ins.fields.get('labelValue')
                if thrown is not None:
                    # over-rejection of a valid program is outside the property (which speaks about accepted programs): recorded, not a verdict
                    rep.add(rid, key, True, where, 'note: the reference is rejected (%s) although x is word aligned in the final layout -- the '
                            'alignment test is applied to an intermediate layout' % thrown, nontrivial=False)
                    rep.note('C05 %s [%s]: valid program rejected (alignment judged before the layout converged)' % (rid, key))
                    continue
                ok = isinstance(op, IV) and op.concrete() and op.lo == final // 4
                rep.add(rid, key, ok, where, 'operand %r, label at byte %d' % (op, final))
            else:
                ok = thrown is not None and _is_repo_error(idx, thrown)
                rep.add(rid, key, ok, where, ('rejected with %s' % thrown) if thrown else
                        'x ends up at byte %d (not word aligned) after the branch in front of it grew, yet the reference is accepted with the '
                        'truncated word address %r' % (final, ins.fields.get('labelValue')))


def rule_data_after_growth(rep, idx, rid='R3d'):
    rep.rule(rid, 'a data word behind a reference that has to grow is emitted where the final layout puts it: in  k x OPR / BR far / x: / '
             'DATA / block(G) / far:  the branch grows by one byte after the first pass, so the gap in front of the word changes between '
             'passes; the image (emitted from byte 0) must hold the word at the final value of x, on a 4-byte boundary, for k = 0..3', floor=4)
    where = pos(idx.func('hexasm::CodeGen::emitProgramBin').node) + ' hexasm::CodeGen::emitProgramBin'
    for k in range(4):
        B = Builder(idx)
        far, x = B.label('far'), B.label('x')
        br, d = B.ref('BR', 'far'), B.data()
        head = [B.opr('ADD') for _ in range(k)] + [br, x, d]
        prog = head + [B.pad('G', 20, 200, None, 1, 'input'), far]
        key = 'k=%d' % k
        try:
            B.layout(prog)
            sz = B.I.invoke(B.I.resolve_method(br, 'getSize', None), br, [])
            lv = x.fields['labelValue']
            if not (isinstance(sz, IV) and sz.concrete() and sz.lo == 2 and isinstance(lv, IV) and lv.concrete()):
                rep.undecided(rid, key, 'template precondition not met (branch size %r, label at %r): the template no longer exercises growth' % (sz, lv), where)
                continue
            per, end, _ = B.emit(head, 0, concrete_start=0)
        except (NeedSplit, AnalysisBroken) as e:
            rep.undecided(rid, key, 'layout or emission not decided on the gap class: %s' % e, where)
            continue
        except Thrown as e:
            rep.add(rid, key, False, where, 'a valid program is not assembled: %s' % e.what)
            continue
        before = sum(sum(ev) for ev in per[:-1])
        dbytes = sum(per[-1])
        word_at = before + dbytes - 4
        want = (k + 2 + 3) & ~3
        ok = lv.lo == want and word_at == want
        rep.add(rid, key, ok, where, 'x = %d, the word is written at byte %d (%d bytes of padding), expected %d' % (lv.lo, word_at, dbytes - 4, want))


def rule_names(rep, idx, rid='R9'):
    rep.rule(rid, 'a reference resolves to the label that has exactly its name: among labels whose names are prefixes / extensions / '
             'neighbours in sort order of one another the operand is computed from the right one, and a reference whose name is defined '
             'nowhere is rejected (never bound to a neighbouring name), for relative and absolute references', floor=8)
    where = pos(idx.func('hexasm::CodeGen::resolveLabels').node) + ' hexasm::CodeGen::resolveLabels'
    names = ['la', 'lab', 'labx', 'zzz']
    for mn in ('BR', 'LDAC'):
        for target in names + ['l', 'lab0', 'lac', 'zzzz', 'a']:
            B = Builder(idx)
            labels = {nm: B.label(nm) for nm in names}
            ref = B.ref(mn, target)
            # word-aligned labels (4 OPR between them) so that absolute references are legal
            prog = [ref, B.opr('ADD'), B.opr('ADD'), B.opr('ADD')]
            for nm in names:
                prog += [labels[nm]] + [B.opr('ADD') for _ in range(4)]
            key = '%s %s among %s' % (mn, target, '/'.join(names))
            try:
                B.layout(prog)
                thrown = None
            except Thrown as e:
                thrown = e.what
            except (NeedSplit, AnalysisBroken) as e:
                rep.undecided(rid, key, 'layout not interpreted: %s' % e, where)
                continue
            if target in labels:
                lv = labels[target].fields.get('labelValue')
                op = ref.fields.get('labelValue')
                ok = thrown is None and isinstance(lv, IV) and lv.concrete() and isinstance(op, IV) and op.concrete()
                if ok:
                    size = B.I.invoke(B.I.resolve_method(ref, 'getSize', None), ref, [])
                    want = (lv.lo - size.lo) if mn == 'BR' else lv.lo // 4
                    ok = op.lo == want
                rep.add(rid, key, ok, where, 'operand %r, label %s at byte %r' % (op, target, lv) if thrown is None else 'rejected with %s' % thrown)
            else:
                ok = thrown is not None and _is_repo_error(idx, thrown)
                rep.add(rid, key, ok, where, ('rejected with %s' % thrown) if ok else
                        'the name %s is defined nowhere, yet the reference is accepted with operand %r (bound to another label)' % (target, ref.fields.get('labelValue')))


def _is_repo_error(idx, t):
    t = t.replace('const ', '').replace('struct ', '').replace('class ', '').strip()
    q = idx._resolve_record_name(t.split('::')[-1], 'hexasm::CodeGen') if t.split('::')[-1] not in ('Error',) else 'hexutil::Error'
    q = q or t
    return q == 'hexutil::Error' or idx.derives_from(q, 'hexutil::Error')


# --------------------------------------------------------------------------------------------------
# R7: relative references are self-consistent and fit their encoding, over gap classes
# --------------------------------------------------------------------------------------------------

class _SplitBudget(Exception):
    pass


SPLIT_BUDGET = 400      # the repaired tree needs about 15 classes per (mnemonic, direction)


def relative_case(idx, mnem, direction, lo, hi, out, budget=None):
    if budget is None:
        budget = [0]
    budget[0] += 1
    if budget[0] > SPLIT_BUDGET:
        raise _SplitBudget('gap classes [%d,%d]: more than %d interval splits' % (lo, hi, SPLIT_BUDGET))
    B = Builder(idx)
    lab = B.label('L')
    ins = B.ref(mnem, 'L')
    blk = B.pad('G', lo, hi, None, 1, 'input')
    tail = B.imm('LDAC', 0)          # something after the last label / the last reference: its offset must follow the final sizes
    prog = [ins, blk, lab, tail] if direction == 'fwd' else [lab, blk, ins, tail]
    try:
        B.layout(prog)
    except NeedSplit as e:
        if lo == hi:
            raise AnalysisBroken('cannot decide gap class {%d}: %s' % (lo, e))
        mid = _split_point(e, lo, hi)
        relative_case(idx, mnem, direction, lo, mid, out, budget)
        relative_case(idx, mnem, direction, mid + 1, hi, out, budget)
        return
    size = B.I.invoke(B.I.resolve_method(ins, 'getSize', None), ins, [])
    if not (isinstance(size, IV) and size.concrete()):
        if lo == hi:
            raise AnalysisBroken('size not concrete for a singleton gap')
        mid = (lo + hi) // 2
        relative_case(idx, mnem, direction, lo, mid, out, budget)
        relative_case(idx, mnem, direction, mid + 1, hi, out, budget)
        return
    op = ins.fields['labelValue']
    off = ins.fields['byteOffset']
    lv = lab.fields['labelValue']
    reach = aff_add(aff_add(off.aff, ({}, size.lo)), op.aff) if (off.aff and op.aff) else None
    consistent = aff_eq(reach, lv.aff)
    gaps = B.contiguity(prog)
    # does the operand class fit the encoding?  (emit + fold, as in C04)
    fits = None
    detail = ''
    if isinstance(op, IV):
        V = IV(32, True, op.lo, op.hi, bits_of_interval(32, op.lo, op.hi) if (op.lo < 0) == (op.hi < 0) else None, 'input')
        if V.bits is None:
            mid = (lo + hi) // 2
            relative_case(idx, mnem, direction, lo, mid, out, budget)
            relative_case(idx, mnem, direction, mid + 1, hi, out, budget)
            return
        ins.fields['labelValue'] = V
        emit = idx.func('hexasm::CodeGen::emitProgramBin')
        st = {'bytes': []}
        I2 = ivinterp.Interp(idx, c04.hooks_factory(st))
        loop, var, body, pre = c04.find_range_for(emit)
        env = {'this': Obj('hexasm::CodeGen', {}, 'CodeGen'), 'locals': {}}
        for prm in emit.params:
            env['locals'][prm['id']] = Obj('std::ostream', {}, 'outputFile')
        for s_ in pre:
            I2.stmt(s_, env)
        env['locals'][var['id']] = ins
        try:
            I2.stmt(body, env)
            fits, detail = _fold_ok(st['bytes'], V, spec_isa.OPCODES[mnem], size.lo)
        except NeedSplit:
            fits, detail = False, 'emission not uniform on the operand class'
    if gaps:
        consistent = False
        lv = lab.fields['labelValue']
        detail = (detail + '; ' if detail else '') + 'layout not contiguous after the last pass: ' + '; '.join(gaps)
        out.append((lo, hi, size.lo, consistent, fits, aff_str(reach) + ' [' + '; '.join(gaps) + ']', aff_str(lv.aff), detail, repr(op)))
        return
    out.append((lo, hi, size.lo, consistent, fits, aff_str(reach), aff_str(lv.aff), detail, repr(op)))


def emit_one(idx, ins):
    """Bytes that the loop body of emitProgramBin writes for one directive."""
    emit = idx.func('hexasm::CodeGen::emitProgramBin')
    st = {'bytes': []}
    I2 = ivinterp.Interp(idx, c04.hooks_factory(st))
    loop, var, body, pre = c04.find_range_for(emit)
    env = {'this': Obj('hexasm::CodeGen', {}, 'CodeGen'), 'locals': {}}
    for prm in emit.params:
        env['locals'][prm['id']] = Obj('std::ostream', {}, 'outputFile')
    for s_ in pre:
        I2.stmt(s_, env)
    env['locals'][var['id']] = ins
    I2.stmt(body, env)
    return st['bytes']


def rule_oversized(rep, idx, rid='R7b'):
    """A reference keeps the length it was extended to even when a later pass makes its operand smaller (sizes only grow); the
    emitter must then still write getSize() bytes that decode to the operand -- not the minimal encoding of the value."""
    rep.rule(rid, 'a label reference whose encoding is longer than its final operand needs (it was extended in an earlier pass) is '
             'emitted with exactly getSize() bytes, which decode to the operand: layout and image stay in step', floor=8)
    where = pos(idx.func('hexasm::CodeGen::emitProgramBin').node) + ' hexasm::CodeGen::emitProgramBin'
    for mnem in ('BR', 'LDAC'):
        for size in (2, 3, 5, 8):
            lim = 16 ** (size - 1)
            classes = [(0, 15)]
            if size > 2:
                classes += [(16, min(lim - 1, (1 << 31) - 1)), (-16, -1), (-min(lim // 16, 1 << 31), -17)]
            setter = [m for m in idx.record('hexasm::InstrLabel').methods if m.name == 'setLabelValue' and len(m.params) == 2]
            if not setter:
                rep.undecided(rid, '%s:size=%d' % (mnem, size), 'InstrLabel::setLabelValue(value, size) not found: idiom not recognised', where)
                return
            todo = [c for c in classes if c[0] <= c[1]]
            budget = 64
            while todo:
                lo, hi = todo.pop(0)
                key = '%s:size=%d:operand[%d,%d]' % (mnem, size, lo, hi)
                B = Builder(idx)
                ins = B.ref(mnem, 'L')
                V = IV(32, True, lo, hi, bits_of_interval(32, lo, hi), 'input')
                try:
                    B.I.invoke(setter[0], ins, [V, const(64, False, size)])
                    gs = B.I.invoke(B.I.resolve_method(ins, 'getSize', None), ins, [])
                    if not (isinstance(gs, IV) and gs.concrete() and gs.lo == size):
                        rep.undecided(rid, key, 'could not establish a %d-byte reference through the size setter (getSize() = %r)' % (size, gs), where)
                        continue
                    bytes_ = emit_one(idx, ins)
                    ok, detail = _fold_ok(bytes_, V, spec_isa.OPCODES[mnem], size)
                except NeedSplit as e:
                    budget -= 1
                    if lo == hi or budget < 0:
                        rep.undecided(rid, key, 'emission is not uniform on the operand class and splitting did not help: %s' % (e,), where)
                        continue
                    mid = _split_point(e, lo, hi)
                    todo[:0] = [(lo, mid), (mid + 1, hi)]
                    continue
                rep.add(rid, key, ok, where, detail if not ok else '%d bytes written for a %d-byte reference; they decode to the operand' % (size, size))


def _split_point(e, lo, hi):
    at = getattr(e, 'at', None)
    if at and at[0] == 'sym':
        for cand in (at[2] - 1, at[2], at[2] + 1):
            if lo <= cand < hi:
                return cand
    return (lo + hi) // 2


def _fold_ok(bytes_, V, opc, size):
    if len(bytes_) != size:
        return False, '%d bytes emitted for size %d' % (len(bytes_), size)
    o = [0] * 32
    for i, b in enumerate(bytes_):
        if not isinstance(b, IV) or b.bits is None or any(x is None for x in b.bits[:8]):
            return False, 'byte %d not a bit-exact function of the operand' % i
        op = sum((x if x in (0, 1) else 0) << j for j, x in enumerate(b.bits[4:8]))
        o1 = list(o)
        for j in range(4):
            o1[j] = b.bits[j]
        if i == len(bytes_) - 1:
            if op != opc:
                return False, 'last opcode 0x%X' % op
            o = o1
            break
        if op == 14:
            o = [0] * 4 + o1[:28]
        elif op == 15:
            o = [0] * 4 + o1[:28]
            for j in range(8, 32):
                o[j] = 1
        else:
            return False, 'byte %d is not a prefix' % i
    bad = [j for j in range(32) if o[j] != V.bits[j]]
    if bad:
        return False, 'decoded operand differs from the operand in bits %s' % bad[:6]
    return True, ''


def rule_relative(rep, idx, tier):
    rep.rule('R7', 'relative references: for every gap class (forward and backward, gaps 0..2^22 bytes, split until every branch of '
             'the layout code is uniform) the final operand satisfies offset + size + operand = label address and the operand '
             'class is reconstructed exactly by the size-byte prefix chain that is emitted', floor=60)
    where = pos(idx.func('hexasm::CodeGen::resolveLabels').node) + ' hexasm::CodeGen::resolveLabels'
    mnems = sorted(spec_isa.PC_RELATIVE) if tier == 'thorough' else ['BR', 'LDAP', 'STAI']
    for m in mnems:
        for direction in ('fwd', 'bwd'):
            out = []
            try:
                relative_case(idx, m, direction, 0, MAXG, out)
            except _SplitBudget as e:
                # the layout depends on the gap in a way interval splitting does not resolve (e.g. on its residue mod 4): no verdict
                rep.undecided('R7', '%s:%s' % (m, direction), 'not uniform on any interval of gaps: %s' % e, where)
                continue
            for lo, hi, size, consistent, fits, reach, lv, detail, op in out:
                key = '%s:%s:gap%s' % (m, direction, cls_of(lo, hi))
                ok = consistent and fits
                why = []
                if not consistent:
                    why.append('instruction end + operand = %s but the label is at %s' % (reach, lv))
                if not fits:
                    why.append('operand %s does not survive its %d-byte encoding: %s' % (op, size, detail))
                rep.add('R7', key, ok, where, '; '.join(why) if why else '%d bytes, operand %s' % (size, op))


# --------------------------------------------------------------------------------------------------
# R1: no exit from the layout iteration while an operand may be stale
# --------------------------------------------------------------------------------------------------

class StaleClient(flow.Client):
    """state = (operand_seen, unrecorded_move, flag)   flag in {'F','T'} = abstract value of the loop-controlling bool."""

    def __init__(self, idx, movers, operand_setters, outer_loop, flagvars):
        self.idx = idx
        self.movers = movers
        self.opset = operand_setters
        self.outer = outer_loop
        self.flagvars = flagvars
        self.exits = []

    def _calls(self, e):
        out = []
        for c in cast.calls_in(e):
            kind, name, did, obj = callee_of(c)
            f = self.idx.func_by_id.get(did) if did else None
            if f is not None:
                out.append((f.qname, c, f))
        return out

    def _flag_assign(self, e, s):
        """(flag var id, value 'T'/'F'/None) if e assigns a constant to a flag variable."""
        x = cast.strip(e)
        if x['kind'] == 'BinaryOperator' and x.get('opcode') == '=':
            vid = cast.decl_ref(children(x)[0])
            if vid in self.flagvars:
                v = cast.const_int(children(x)[1], self.idx)
                return vid, ('T' if v else 'F') if v is not None else None
        return None

    def decl(self, d, s):
        if d['id'] in self.flagvars:
            init = [c for c in children(d) if 'kind' in c]
            v = cast.const_int(init[-1], self.idx) if init else None
            if v is not None:
                return [(s[0], s[1], 'T' if v else 'F')]
        return flow.Client.decl(self, d, s)

    def expr(self, e, s):
        seen, stale, flag = s
        fa = self._flag_assign(e, s)
        if fa and fa[1] and not self._calls(e):
            return [(seen, stale, fa[1])]
        res = [s]
        for qn, c, f in self._calls(e):
            nxt = []
            for (seen, stale, flag) in res:
                is_mover = qn in self.movers
                is_opset = qn in self.opset
                if is_mover and seen:
                    # the call may move the layout: is its boolean result recorded in the flag?
                    recorded = self._recorded(e, c)
                    if recorded:
                        nxt.append((seen or is_opset, stale, 'T'))           # moved: recorded
                        nxt.append((seen or is_opset, stale, flag))          # did not move
                    else:
                        nxt.append((seen or is_opset, True, flag))           # moved, nobody knows
                        nxt.append((seen or is_opset, stale, flag))
                else:
                    nxt.append((seen or is_opset, stale, flag))
            res = nxt
        return res

    def _recorded(self, e, call):
        """Is the result of `call` used to set a flag variable (|=, = x || call, if (call) flag = true)?"""
        for x in walk(e):
            if x['kind'] == 'CompoundAssignOperator' and x.get('opcode') in ('|=', '+='):
                if cast.decl_ref(children(x)[0]) in self.flagvars and any(y is call for y in walk(children(x)[1])):
                    return True
            if x['kind'] == 'BinaryOperator' and x.get('opcode') == '=' and cast.decl_ref(children(x)[0]) in self.flagvars:
                if any(y is call for y in walk(children(x)[1])):
                    return True
        return False

    def cond(self, e, s):
        seen, stale, flag = s
        if self._cond_of_outer is e:
            # loop condition of the layout iteration
            x = cast.strip(e)
            vid = cast.decl_ref(x)
            neg = False
            if x['kind'] == 'UnaryOperator' and x.get('opcode') == '!':
                vid = cast.decl_ref(children(x)[0])
                neg = True
            if vid in self.flagvars:
                cont = (flag == 'T') != neg
                if cont:
                    return [(False, False, flag)], []
                self.exits.append(s)
                return [], [s]
            # `flag && other`: the loop goes on only while the flag is set, but may also be left with the flag still set
            conj = []

            def flat(y):
                y = cast.strip(y)
                if y['kind'] == 'BinaryOperator' and y.get('opcode') == '&&':
                    for c_ in children(y):
                        flat(c_)
                else:
                    conj.append(y)
            flat(x)
            if len(conj) > 1 and any(cast.decl_ref(c_) in self.flagvars for c_ in conj):
                self.exits.append(s)
                if flag == 'T':
                    return [(False, False, flag)], [s]
                return [], [s]
            # condition does not consult a change flag: both outcomes possible
            self.exits.append(s)
            return [(False, False, flag)], [s]
        # `if (call(...)) flag = true;` idiom: the call result decides
        calls = self._calls(e)
        movers = [(qn, c, f) for qn, c, f in calls if qn in self.movers]
        if movers and seen:
            opset = any(qn in self.opset for qn, c, f in movers)
            return [(seen or opset, stale, flag + '')], [(seen or opset, stale, flag)]
        r = self.expr(e, s)
        return r, r


def _outer_loop(f):
    """(loop statement, its condition expression) of the single top-level iteration loop of resolveLabels; while / do / for."""
    loops = [n for n in children(f.body) if n.get('kind') in ('WhileStmt', 'DoStmt', 'ForStmt')]
    # a trailing for-loop over the program that only validates (no call that moves anything) is not the iteration: take loops that
    # contain a nested loop over the program
    cands = [l for l in loops if any(x.get('kind') in ('ForStmt', 'CXXForRangeStmt', 'WhileStmt') for c in children(l) for x in walk(c) if x is not l)]
    cands = [l for l in cands if l['kind'] != 'ForStmt' or (len(l.get('inner', [])) == 5 and l['inner'][2])] or cands
    iters = [l for l in cands if l['kind'] in ('WhileStmt', 'DoStmt')] or cands
    if len(iters) != 1:
        return None, None, len(iters)
    l = iters[0]
    if l['kind'] == 'WhileStmt':
        return l, children(l)[0], 1
    if l['kind'] == 'DoStmt':
        return l, children(l)[1], 1
    return l, l['inner'][2], 1


def rule_fixed_point(rep, idx):
    rep.rule('R1', 'the layout iteration cannot be left while an operand may be stale: on every path to the loop exit, each call '
             'that can move labels or change an encoding length after an operand has been computed in the same pass has its '
             '"changed" result recorded in the flag that keeps the loop running (Engler-style must-record rule over the CFG)', floor=1)
    f = idx.func('hexasm::CodeGen::resolveLabels')
    outer, outer_cond, nloops = _outer_loop(f)
    if outer is None:
        raise AnalysisBroken('resolveLabels: expected one top-level iteration loop, found %d' % nloops)
    # movers: methods that assign Label::labelValue, or a field that InstrLabel::getSize reads
    getsize = idx.func('hexasm::InstrLabel::getSize')
    size_fields = {x['name'] for x in walk(getsize.body) if x['kind'] == 'MemberExpr' and cast.is_this_member(x)}
    movers, opset = set(), set()
    for cls, fields, target in (('hexasm::Label', {'labelValue'}, movers), ('hexasm::InstrLabel', size_fields, movers),
                                ('hexasm::InstrLabel', {'labelValue'}, opset)):
        for m in idx.record(cls).methods:
            if m.body is None:
                continue
            for x in walk(m.body):
                if x['kind'] in ('BinaryOperator', 'CompoundAssignOperator') and x.get('opcode', '').endswith('='):
                    if x.get('opcode') in ('==', '!=', '<=', '>='):
                        continue
                    mr = cast.member_ref(children(x)[0])
                    if mr and mr[0] in fields and cast.is_this_member(children(x)[0]):
                        target.add(m.qname)
    # flag variables: bool locals of resolveLabels
    flagvars = {d['id'] for d in walk(f.body) if d['kind'] == 'VarDecl' and qt(d) == 'bool'}
    cl = StaleClient(idx, movers, opset, outer, flagvars)
    cc = children(outer)
    cl._cond_of_outer = outer_cond
    fl = flow.Flow(cl, idx)
    o = fl.run(f.body, {(False, False, 'F')})
    final = set(o.normal) | {s for s, _ in o.ret}
    bad = [s for s in final if s[1]]
    pending = [s for s in cl.exits if s[2] == 'T']
    rep.analysed(f.sig)
    if pending and not bad:
        rep.add('R1', 'resolveLabels:no-stale-exit', False, pos(outer) + ' hexasm::CodeGen::resolveLabels',
                'the iteration can be left while the change flag is still set (the loop condition has a second conjunct, e.g. a pass '
                'counter): the growth recorded in the last pass is never laid out again, so every offset and operand behind it is stale',
                data={'movers': sorted(movers), 'opset': sorted(opset)})
        bad = None
    if bad is not None:
      rep.add('R1', 'resolveLabels:no-stale-exit', bool(final) and not bad, pos(outer) + ' hexasm::CodeGen::resolveLabels',
            ('the loop can be left in a pass in which %s moved the layout after operands had been computed, without that being '
             'recorded in the loop condition (operands computed earlier in the pass are stale)' % sorted(movers)) if bad else
            'movers %s, operand setters %s, flags %d: every exit state is clean' % (sorted(movers), sorted(opset), len(flagvars)),
            data={'movers': sorted(movers), 'opset': sorted(opset)})
    # R1b: structure of one pass -- after the layout has been (re)assigned, the loop may only be left through the operand update
    rep.rule('R1b', 'within one pass of the layout iteration, every path from a (re)assignment of offsets or label values to the exit of '
             'the iteration passes through the statement that recomputes the label operands (no exit between layout and operand update)', floor=1)
    region = None
    body = children(outer)[1] if outer['kind'] == 'WhileStmt' else outer['inner'][4] if outer['kind'] == 'ForStmt' else children(outer)[0]
    for st in (children(body) if body['kind'] == 'CompoundStmt' else [body]):
        qs = set()
        for c in cast.calls_in(st):
            g = idx.func_by_id.get(callee_of(c)[2]) if callee_of(c)[2] else None
            if g is not None:
                qs.add(g.qname)
        if qs & opset:
            region = st
    layout_actions = set(q for q in movers if q.startswith('hexasm::Label::')) | {'hexasm::Directive::setByteOffset'}
    if region is None:
        raise AnalysisBroken('resolveLabels: statement that updates the label operands not found inside the iteration loop')
    inside = set()
    for c in cast.calls_in(region):
        g = idx.func_by_id.get(callee_of(c)[2]) if callee_of(c)[2] else None
        if g is not None and g.qname in layout_actions:
            inside.add(g.qname)

    class PassClient(flow.Client):
        def enter(self_, n, s_):
            if n is region:
                return [False]
            return [s_]

        def expr(self_, e, s_):
            for c in cast.calls_in(e):
                g = idx.func_by_id.get(callee_of(c)[2]) if callee_of(c)[2] else None
                if g is not None and g.qname in layout_actions:
                    s_ = True
            return [s_]
    o2 = flow.Flow(PassClient(), idx).run(outer, {False})
    exits_dirty = [x for x in o2.normal if x] + [x for x, _ in o2.ret if x]
    if inside:
        rep.add('R1b', 'resolveLabels:no-exit-between-layout-and-operands', True, pos(outer) + ' hexasm::CodeGen::resolveLabels',
                'single-sweep structure (layout and operand update interleaved in one statement): decided by R1 only', nontrivial=False)
    else:
        rep.add('R1b', 'resolveLabels:no-exit-between-layout-and-operands', not exits_dirty, pos(region) + ' hexasm::CodeGen::resolveLabels',
                'the iteration can be left after offsets/label values were reassigned without recomputing the label operands '
                '(an instruction whose own offset moved keeps its old operand)' if exits_dirty else
                'operand update at %s is on every path from the layout assignment to the loop exit' % pos(region))
    # semantic cross-check on the two-reference template of the design-time witness
    rep.rule('R1t', 'two dependent references (BR L1 / L1 / BR L2 / block(G) / L2): final operands are consistent for every gap class', floor=4)
    out = []
    two_ref_case(idx, 0, 5000, out)
    for lo, hi, ok, detail in out:
        rep.add('R1t', 'two-refs:gap%s' % cls_of(lo, hi), ok, pos(f.node) + ' hexasm::CodeGen::resolveLabels', detail)


def two_ref_case(idx, lo, hi, out):
    B = Builder(idx)
    l1, l2 = B.label('L1'), B.label('L2')
    b1, b2 = B.ref('BR', 'L1'), B.ref('BR', 'L2')
    prog = [b1, l1, b2, B.pad('G', lo, hi, None, 1, 'input'), l2]
    try:
        B.layout(prog)
        sizes = []
        for ins in (b1, b2):
            s = B.I.invoke(B.I.resolve_method(ins, 'getSize', None), ins, [])
            if not (isinstance(s, IV) and s.concrete()):
                raise NeedSplit(None, 'size')
            sizes.append(s.lo)
    except NeedSplit as e:
        if lo == hi:
            raise AnalysisBroken('cannot decide two-reference template for gap %d: %s' % (lo, e))
        mid = _split_point(e, lo, hi)
        two_ref_case(idx, lo, mid, out)
        two_ref_case(idx, mid + 1, hi, out)
        return
    why = []
    for ins, lab, sz in ((b1, l1, sizes[0]), (b2, l2, sizes[1])):
        reach = aff_add(aff_add(ins.fields['byteOffset'].aff, ({}, sz)), ins.fields['labelValue'].aff)
        if not aff_eq(reach, lab.fields['labelValue'].aff):
            why.append('%s reaches %s, label at %s' % (ins.name, aff_str(reach), aff_str(lab.fields['labelValue'].aff)))
    out.append((lo, hi, not why, '; '.join(why) if why else 'sizes %s' % sizes))


# --------------------------------------------------------------------------------------------------
# R2: relative/absolute classification of every InstrLabel construction
# --------------------------------------------------------------------------------------------------

def rule_classification(rep, idx_x):
    rep.rule('R2', 'every construction of hexasm::InstrLabel (assembler parser and compiler code buffer) passes relative == '
             '(mnemonic is one of BR BRZ BRN LDAP LDAI LDBI STAI)', floor=11, floor_reason='2 parser sites (5+7 mnemonics) + 9 CodeBuffer generators')
    toks = idx_x.enum('hexasm::Token')
    rev = {v: k for k, v in toks.items()}
    n = 0
    for f in idx_x.all_funcs():
        if f.body is None or f.node.get('isImplicit'):
            continue
        for c in cast.calls_in(f.body):
            kind, name, did, obj = callee_of(c)
            if not (name == 'make_unique' and 'InstrLabel' in qt(c)):
                continue
            args = cast.call_args(c)
            rel = cast.const_int(args[-1], idx_x)
            tok_args = [a for a in args if 'hexasm::Token' in (dqt(a) + qt(a)) or 'Token' in qt(a)]
            tokv = cast.const_int(tok_args[0], idx_x) if tok_args else None
            if tokv is not None:
                mn = [rev.get(tokv)]
            else:
                # token comes from a variable: the enclosing case labels give the possible mnemonics
                mn = _enclosing_case_tokens(idx_x, f, c, rev)
            for m in mn:
                n += 1
                want = m in spec_isa.PC_RELATIVE
                known = m in spec_isa.PC_RELATIVE or m in spec_isa.ABSOLUTE
                rep.add('R2', '%s:%s' % (f.qname + ('(' + qt(f.params[0]) + ')' if f.params else ''), m), known and rel == int(want),
                        pos(c) + ' ' + f.qname,
                        '%s constructed with relative=%s; the ISA makes it %s' % (m, bool(rel) if rel is not None else '?',
                                                                                  'pc-relative' if want else 'absolute'), nontrivial=False)


def _enclosing_case_tokens(idx, f, call, rev):
    """Mnemonics of the case labels that lead to the statement containing `call` (switch in parseDirective)."""
    out = []
    for sw in walk(f.body):
        if sw['kind'] != 'SwitchStmt':
            continue
        body = children(sw)[-1]
        group = []
        for st in children(body):
            x = st
            labels = []
            while x['kind'] in ('CaseStmt', 'DefaultStmt'):
                if x['kind'] == 'CaseStmt':
                    labels.append(cast.const_int(children(x)[0], idx))
                x = children(x)[-1]
            group += labels
            if any(y is call for y in walk(x)):
                return [rev.get(v, '?') for v in group]
            if not (x['kind'] in ('CaseStmt',)):
                # a statement without fallthrough marker ends the group if it cannot fall through
                if any(y['kind'] in ('ReturnStmt', 'BreakStmt', 'CXXThrowExpr') for y in walk(x)):
                    group = []
    return out


def rule_termination(rep, idx, rid='R8'):
    """A termination measure for the layout iteration, decided structurally."""
    rep.rule(rid, 'termination measure: (i) the flag that keeps the layout iteration running is set only from the result of the '
             'reference-size setter, (ii) that setter never shrinks a size and reports true only when the size grew, (iii) sizes are '
             'bounded by 8 bytes; hence at most 7 x (number of references) + 1 passes, and the inner growth loop is bounded too', floor=4)
    f = idx.func('hexasm::CodeGen::resolveLabels')
    where = pos(f.node) + ' hexasm::CodeGen::resolveLabels'
    outer, cond, nloops = _outer_loop(f)
    if outer is None:
        rep.undecided(rid, 'single-iteration-loop', '%d candidate iteration loops: idiom not recognised' % nloops, where)
        return
    fid = cast.decl_ref(cond)
    flag_only = fid is not None
    if not flag_only:
        # an unrecognised termination idiom is not a violation: the measure simply cannot be established by this rule
        rep.undecided(rid, 'loop-runs-on-a-flag', 'the layout loop does not run on a plain change flag: termination idiom not recognised', pos(cond))
        return
    rep.add(rid, 'loop-runs-on-a-flag', True, pos(cond) + ' resolveLabels', 'the loop condition is the bool local `%s`' % strip_name(cond), nontrivial=False)
    # (i) every assignment of true to the flag inside the loop is controlled by / taken from a size-setter result
    setters = set()
    for m in idx.record('hexasm::InstrLabel').methods:
        if m.body is None or 'bool' not in m.type.split('(')[0]:
            continue
        writes = {cast.member_ref(children(x)[0])[0] for x in walk(m.body)
                  if x['kind'] in ('BinaryOperator', 'CompoundAssignOperator') and x.get('opcode') in ('=', '+=', '|=') and cast.member_ref(children(x)[0])}
        gs = idx.func('hexasm::InstrLabel::getSize')
        size_fields = {x['name'] for x in walk(gs.body) if x['kind'] == 'MemberExpr' and cast.is_this_member(x)}
        if writes & size_fields:
            setters.add(m.qname)
    body = children(outer)[1] if outer['kind'] == 'WhileStmt' else outer['inner'][4] if outer['kind'] == 'ForStmt' else children(outer)[0]
    bad_sets = []
    n_sets = 0
    parents = {}
    for n in walk(body):
        for c in children(n):
            parents[id(c)] = n
    for x in walk(body):
        tgt = None
        if x['kind'] == 'BinaryOperator' and x.get('opcode') == '=' and cast.decl_ref(children(x)[0]) == fid:
            v = cast.const_int(children(x)[1], idx)
            if v == 0:
                continue
            n_sets += 1
            ok = False
            # value is a setter call, or the assignment sits in an if whose condition is a setter call
            for c in cast.calls_in(children(x)[1]):
                g = idx.func_by_id.get(callee_of(c)[2])
                if g is not None and g.qname in setters:
                    ok = True
            p_ = x
            while id(p_) in parents and not ok:
                p_ = parents[id(p_)]
                if p_['kind'] == 'IfStmt':
                    for c in cast.calls_in(children(p_)[0]):
                        g = idx.func_by_id.get(callee_of(c)[2])
                        if g is not None and g.qname in setters:
                            ok = True
            if not ok:
                bad_sets.append(pos(x))
        if x['kind'] == 'CompoundAssignOperator' and cast.decl_ref(children(x)[0]) == fid:
            n_sets += 1
            ok = any((idx.func_by_id.get(callee_of(c)[2]) is not None and idx.func_by_id[callee_of(c)[2]].qname in setters) for c in cast.calls_in(children(x)[1]))
            if not ok:
                bad_sets.append(pos(x))
    rep.add(rid, 'flag-set-only-when-a-size-grew', n_sets > 0 and not bad_sets and bool(setters), where,
            ('the flag is also set at %s from something other than %s' % (bad_sets, sorted(setters))) if bad_sets else
            '%d assignment(s), all from %s' % (n_sets, sorted(setters)))
    # (ii) the setter is monotone: interpret it on (old size, new size) classes
    for q in sorted(setters):
        m = idx.func(q) if len(idx.funcs_named(q)) == 1 else [g for g in idx.funcs_named(q) if g.body is not None][0]
        mono = True
        detail = []
        for old, new in ((1, 1), (1, 2), (3, 2), (8, 8), (2, 8), (8, 1)):
            B = Builder(idx)
            o = B.ref('BR', 'L')
            o.fields['size'] = const(64, False, old)
            argv = []
            for prm in m.params:
                argv.append(const(64, False, new) if 'size' in prm.get('name', '').lower() else const(32, True, 5))
            r = B.I.invoke(m, o, argv)
            after = o.fields.get('size')
            grew = isinstance(after, IV) and after.concrete() and after.lo > old
            shrunk = isinstance(after, IV) and after.concrete() and after.lo < old
            said = isinstance(r, IV) and r.concrete() and r.lo == 1
            if shrunk or said != grew or (isinstance(after, IV) and after.concrete() and after.lo != max(old, new)):
                mono = False
                detail.append('old %d, requested %d -> size %r, returns %r' % (old, new, after, r))
        rep.add(rid, 'setter-monotone:%s' % q, mono, pos(m.node) + ' ' + q, '; '.join(detail) or 'size := max(size, requested); true iff it grew')
    # (iii) bounded sizes: operandSize <= 8 over all int classes (C04 partition of numNibbles)
    osz = idx.func('hexasm::CodeGen::operandSize', required=False) or idx.func('hexasm::InstrImm::getSize')
    mx = 0
    ok = True
    for lo, hi in ((-(1 << 31), -(1 << 31)), (-(1 << 31) + 1, -1), (0, (1 << 31) - 1)):
        stack = [(lo, hi)]
        while stack:
            a, b = stack.pop()
            I = ivinterp.Interp(idx)
            try:
                if osz.cls and osz.cls.endswith('InstrImm'):
                    o = Obj('hexasm::InstrImm', {'immValue': IV(32, True, a, b, None, 'input')})
                    r = I.invoke(osz, o, [])
                else:
                    r = I.invoke(osz, None, [IV(32, True, a, b, None, 'input')])
                if not (isinstance(r, IV) and r.concrete()):
                    raise NeedSplit(None, 'size')
                mx = max(mx, r.lo)
                if I.ub:
                    ok = False
            except NeedSplit:
                if a == b:
                    ok = False
                    continue
                mid = (a + b) // 2
                stack += [(a, mid), (mid + 1, b)]
    rep.add(rid, 'sizes-bounded', ok and 1 <= mx <= 8, pos(osz.node) + ' ' + osz.qname, 'largest encoding size over all int operands: %d' % mx)


def strip_name(n):
    x = cast.strip(n)
    return x.get('referencedDecl', {}).get('name', '?')


def run(rep, tier):
    idx = cast.load('hexasm.cpp')
    rep.analysed(unit='hexasm.cpp')
    rep.trusted = ['clang 14 AST', 'interval x bit-slice x affine interpreter hexsa/ivinterp.py; abstract programs are built by '
                   'interpreting the directive constructors', 'pc-relative/absolute tables of the property statement']
    rep.assumptions = ['image sizes below 2^22 bytes (memory is 800000 bytes)', 'createLabelMap maps every label name to its directive '
                       '(last definition wins)', 'termination is decided through the measure of R8 (monotone bounded sizes), not for arbitrary rewrites of the loop']
    for q in ('hexasm::CodeGen::resolveLabels', 'hexasm::CodeGen::emitProgramBin', 'hexasm::InstrLabel::getSize'):
        rep.analysed(idx.func(q).sig)
    rule_fixed_point(rep, idx)
    rule_classification(rep, cast.load('xcmp.cpp'))
    rep.analysed(unit='xcmp.cpp')
    rule_absolute(rep, idx)
    rule_layout_emission(rep, idx)
    rule_header(rep, idx)
    rule_relative(rep, idx, tier)
    rule_oversized(rep, idx)
    rule_absolute_after_growth(rep, idx)
    rule_data_after_growth(rep, idx)
    rule_names(rep, idx)
    rule_termination(rep, idx)
