"""C04 -- assembler prefix encoding reconstructs every 32-bit operand exactly (engine I)."""
from .. import cast, spec_isa, ivinterp
from ..ivinterp import IV, Obj, NeedSplit, Thrown, const, bits_of_interval, rng
from ..frontend import AnalysisBroken
from ..cast import children, pos, walk, callee_of, dqt, qt

INT_MIN, INT_MAX = -(1 << 31), (1 << 31) - 1


def hooks_factory(state):
    def hooks(I, n, kind, name, did, obj, args, env):
        t = (dqt(obj) + ' ' + qt(obj)) if obj is not None else ''
        if kind == 'method' and name in ('expectNext', 'expectLast'):
            return None
        if name in ('get', 'operator->', 'operator*') and 'unique_ptr' in t:
            return I.expr(obj, env)
        if n['kind'] == 'CXXOperatorCallExpr' and name in ('operator->', 'operator*') and args and 'unique_ptr' in (dqt(args[0]) + qt(args[0])):
            return I.expr(args[0], env)
        if kind == 'method' and name == 'put' and 'ostream' in t:
            v = I.expr(args[0], env)
            state['bytes'].append(v)
            return None
        if kind == 'method' and name == 'write' and 'ostream' in t:
            src = I.expr(args[0], env)
            rest = [I.expr(a, env) for a in args[1:]]
            chars = ivinterp.str_chars(src) if isinstance(src, tuple) else None
            if chars is not None and len(rest) == 1 and isinstance(rest[0], IV) and rest[0].concrete() and rest[0].lo == len(chars):
                # write(s.data(), s.size()) of a string assembled character by character: the same bytes as one put() each
                state['bytes'].extend(chars)
                return None
            state['bytes'].append(('write', rest, src))
            return None
        if kind == 'method' and name == 'push_back' and 'pair' in t:
            state.setdefault('pushed', []).append(True)
            return None
        return NotImplemented
    return hooks


def find_range_for(func):
    loops = [n for n in walk(func.body) if n['kind'] == 'CXXForRangeStmt']
    if len(loops) != 1:
        raise AnalysisBroken('%s: expected exactly one range-for over the program, found %d' % (func.qname, len(loops)))
    loop = loops[0]
    inner = loop.get('inner', [])
    body = inner[-1]
    var = None
    for c in inner[:-1]:
        if c and c.get('kind') == 'DeclStmt':
            for d in children(c):
                if d['kind'] == 'VarDecl' and not d.get('isImplicit') and not d.get('name', '').startswith('__'):
                    var = d
    if var is None:
        raise AnalysisBroken('%s: loop variable of the range-for not found' % func.qname)
    pre = []
    for st in children(func.body):
        if st is loop or any(x is loop for x in walk(st)):
            break
        pre.append(st)
    return loop, var, body, pre


def encode(idx, emit, token_value, V):
    """Interpret one iteration of emitProgramBin's loop for an InstrImm with immediate V; returns (size, bytes, ub)."""
    state = {'bytes': []}
    I = ivinterp.Interp(idx, hooks_factory(state))
    loop, var, body, pre = find_range_for(emit)
    obj = Obj('hexasm::InstrImm', {'immValue': V, 'token': const(32, True, token_value), 'byteOffset': const(32, True, 0),
                                   'assembled': const(1, False, 0)}, 'InstrImm')
    # members the class has beyond the ones named above (a cached size, say) get the values its own constructor gives them
    known = set(obj.fields)
    extra = [f_.get('name') for c_ in ['hexasm::InstrImm'] + idx.bases_of('hexasm::InstrImm') if idx.records.get(c_) for f_ in idx.records[c_].fields
             if f_.get('name') not in known]
    if extra:
        built = I.construct('hexasm::InstrImm', [const(32, True, token_value), V])
        for k_, v_ in built.fields.items():
            if k_ not in known:
                obj.fields[k_] = v_
    env = {'this': Obj('hexasm::CodeGen', {}, 'CodeGen'), 'locals': {}}
    for prm in emit.params:
        env['locals'][prm['id']] = Obj('std::ostream', {}, 'outputFile')
    for st in pre:
        I.stmt(st, env)
    env['locals'][var['id']] = obj
    # size as the layout computes it (InstrImm::getSize through the virtual call)
    gs = I.resolve_method(obj, 'getSize', None)
    size = I.invoke(gs, obj, [])
    try:
        I.stmt(body, env)
    except ivinterp._Continue:
        pass
    return size, state['bytes'], I.ub


def check_class(idx, emit, tok, opc, lo, hi):
    """Returns list of (rule, ok, detail) for the value class [lo, hi] (same sign)."""
    V = IV(32, True, lo, hi, bits_of_interval(32, lo, hi), 'input')
    size, bytes_, ub = encode(idx, emit, tok, V)
    res = []
    cls = '[%d,%d]' % (lo, hi) if lo != hi else '{%d}' % lo
    res.append(('R1', not ub, 'undefined behaviour for operands in %s: %s' % (cls, ub) if ub else 'no UB event'))
    if not (isinstance(size, IV) and size.concrete()):
        raise NeedSplit(None, 'size not concrete')
    n = size.lo
    ok2 = True
    why = []
    if len(bytes_) != n:
        ok2 = False
        why.append('getSize() says %d bytes, %d bytes emitted' % (n, len(bytes_)))
    if not bytes_:
        ok2 = False
        why.append('no byte at all is emitted for operands in %s: the instruction vanishes from the image' % cls)
    vals = []
    for i, b in enumerate(bytes_):
        if not isinstance(b, IV) or b.bits is None or any(x is None for x in b.bits[:8]):
            ok2 = False
            why.append('byte %d is not a bit-exact function of the operand: %r' % (i, b))
            vals.append(None)
            continue
        hi4 = b.bits[4:8]
        if any(x not in (0, 1) for x in hi4):
            ok2 = False
            why.append('opcode nibble of byte %d depends on the operand' % i)
            vals.append(None)
            continue
        op = sum(x << j for j, x in enumerate(hi4))
        vals.append((op, b.bits[0:4]))
        last = (i == len(bytes_) - 1)
        if last and op != opc:
            ok2 = False
            why.append('last byte has opcode 0x%X, mnemonic needs 0x%X' % (op, opc))
        if not last:
            want = 15 if (i == 0 and hi < 0) else 14
            if op != want:
                ok2 = False
                why.append('prefix byte %d has opcode 0x%X, expected %s' % (i, op, 'NFIX' if want == 15 else 'PFIX'))
    res.append(('R2', ok2, '; '.join(why) if why else '%d byte(s): %s' % (n, ' '.join('%X.' % v[0] for v in vals if v))))
    # R3: fold with the ISA prefix rule
    ok3 = ok2
    detail3 = 'not evaluated (byte sequence malformed)'
    if ok2 and vals and all(v is not None for v in vals):
        o = [0] * 32
        for i, (op, nib) in enumerate(vals):
            o1 = list(o)
            for j in range(4):
                if o1[j] != 0:
                    ok3 = False
                o1[j] = nib[j]
            if i == len(vals) - 1:
                o = o1
                break
            if op == 14:
                o = [0] * 4 + o1[:28]
            elif op == 15:
                o = [0] * 4 + o1[:28]
                for j in range(8, 32):
                    o[j] = 1
            else:
                o = [0] * 32
        want = V.bits
        bad = [j for j in range(32) if o[j] != want[j]]
        if bad:
            ok3 = False
            # concrete witness: the smallest member of the class
            detail3 = 'operand class %s: bits %s delivered to the instruction differ from the operand (delivered %s, operand %s)' % (
                cls, bad[:8], _fmt(o), _fmt(want))
        else:
            detail3 = 'prefix chain reconstructs the operand bit for bit'
    res.append(('R3', ok3, detail3))
    return res, n


def _fmt(bits):
    out = ''
    for b in reversed(bits):
        out += str(b) if b in (0, 1) else 'v'
    return out


def partition(idx, emit, tok, opc, lo, hi, out, depth=0):
    try:
        res, n = check_class(idx, emit, tok, opc, lo, hi)
        out.append((lo, hi, res, n))
        return
    except ivinterp.LoopBudget as e:
        # every branch was uniform on this class and a loop still ran past the bound: sizing / encoding does not terminate here
        # (an operand has at most 8 nibbles; the loops of the repaired tree run at most 8 times)
        msg = 'sizing or encoding does not terminate for operands in this class: %s' % e
        out.append((lo, hi, [('R1', False, msg), ('R2', False, msg), ('R3', False, msg)], 0))
        return
    except NeedSplit as e:
        if lo == hi:
            raise AnalysisBroken('cannot decide singleton class {%d}: %s' % (lo, e))
        at = None
        if e.at:
            op, c = e.at
            cand = {'<': c - 1, '>=': c - 1, '<=': c, '>': c, '==': c, '!=': c}.get(op)
            if cand is not None and lo <= cand < hi:
                at = cand
        if at is None:
            at = (lo + hi) // 2
        partition(idx, emit, tok, opc, lo, at, out, depth + 1)
        partition(idx, emit, tok, opc, at + 1, hi, out, depth + 1)


def run(rep, tier):
    idx = cast.load('hexasm.cpp')
    rep.analysed(unit='hexasm.cpp')
    rep.rule('R0', 'tokenToInstr maps each of the 12 immediate-taking mnemonics to its ISA opcode', floor=12)
    rep.rule('RA', 'literal parsing: the lexer value (unsigned) and Parser::parseInteger yield int32(n) for an unsigned literal and '
             'int32(-n) for "-n", for every n in [0, 2^32) (three monotone classes per spelling)', floor=8)
    rep.rule('R1', 'no undefined behaviour (abs/negation of INT_MIN, signed overflow, oversized shift) while sizing and encoding, per value class', floor=12 * 20)
    rep.rule('R2', 'the emitted bytes are getSize()-1 prefixes (NFIX first iff the operand is negative, PFIX otherwise) followed by the '
             'instruction byte with the mnemonic\'s ISA opcode, each a bit-exact function of the operand', floor=12 * 20)
    rep.rule('R3', 'folding the emitted bytes with the ISA prefix rule from oreg=0 delivers exactly the operand (all 32 bits, for the '
             'whole class) to the instruction', floor=12 * 20)
    rep.exhaustive = True
    rep.trusted = ['clang 14 AST', 'interval x bit-slice interpreter hexsa/ivinterp.py (branch conditions must be uniform on a class, else the class is split)',
                   'ISA prefix rule (spec_isa.py)']
    rep.assumptions = ['two\'s complement int, arithmetic right shift of negative ints (C++17 implementation-defined, true for g++/clang on the build host)',
                       'literals beyond 2^32-1 are truncated by the unsigned conversion of strtoul\'s result (defined behaviour, outside the quantifier)']
    emit = idx.func('hexasm::CodeGen::emitProgramBin')
    rep.analysed(emit.sig)
    for q in ('hexasm::numNibbles', 'hexasm::InstrImm::getSize', 'hexasm::tokenToInstr', 'hexasm::Parser::parseInteger'):
        rep.analysed(idx.func(q).sig)
    toks = idx.enum('hexasm::Token')
    t2i = idx.func('hexasm::tokenToInstr')
    # R0: table agreement by interpreting tokenToInstr on each token
    for m in spec_isa.IMMEDIATE_MNEMONICS:
        I = ivinterp.Interp(idx)
        try:
            v = I.invoke(t2i, None, [const(32, True, toks[m])])
            got = v.lo if isinstance(v, IV) and v.concrete() else None
        except Thrown as e:
            got = 'throws ' + e.what
        rep.add('R0', 'tokenToInstr(%s)' % m, got == spec_isa.OPCODES[m], pos(t2i.node) + ' hexasm::tokenToInstr',
                'maps to %r, ISA opcode is %d' % (got, spec_isa.OPCODES[m]), nontrivial=False)
    try:
        rule_parse(rep, idx)
    except AnalysisBroken as e:
        rep.undecided('RA', 'literal-parsing', 'cannot interpret the literal path: %s' % e, 'hexasm.hpp hexasm::Lexer::readToken')
    try:
        rule_parse_directive(rep, idx)
    except AnalysisBroken as e:
        rep.undecided('RB', 'parse-directive', 'cannot interpret: %s' % e, 'hexasm.hpp hexasm::Parser::parseDirective')

    total_classes = 0
    values_covered = 0
    for m in spec_isa.IMMEDIATE_MNEMONICS:
        classes = []
        partition(idx, emit, toks[m], spec_isa.OPCODES[m], INT_MIN, -1, classes)
        partition(idx, emit, toks[m], spec_isa.OPCODES[m], 0, INT_MAX, classes)
        if tier == 'thorough':
            # additionally every +/-16^k neighbour as a singleton class (on top of the exact partition)
            for k in range(0, 9):
                for s in (1, -1):
                    for d in (-1, 0, 1):
                        v = s * (16 ** k) + d
                        if INT_MIN <= v <= INT_MAX:
                            partition(idx, emit, toks[m], spec_isa.OPCODES[m], v, v, classes)
        covered = 0
        for lo, hi, res, n in classes:
            cls = '[%d,%d]' % (lo, hi) if lo != hi else '{%d}' % lo
            for rule, ok, detail in res:
                rep.add(rule, '%s:%s' % (m, cls), ok, pos(emit.node) + ' hexasm::CodeGen::emitProgramBin / hexasm::numNibbles',
                        ('%s %s (%d bytes): ' % (m, cls, n)) + detail)
        main = [c for c in classes]
        total_classes += len(classes)
        if m == 'LDAC':
            try:
                rule_layout_accepts(rep, idx, [(lo, hi) for lo, hi, _, _ in classes if lo != hi or tier != 'thorough'])
            except AnalysisBroken as e:
                rep.undecided('RC', 'layout', 'cannot interpret: %s' % e, 'hexasm.hpp hexasm::CodeGen::resolveLabels')
        # coverage of the int range by the partition (singletons of the thorough tier overlap)
        ivs = sorted({(lo, hi) for lo, hi, _, _ in classes if True})
        cur = INT_MIN
        for lo, hi in sorted(ivs):
            if lo <= cur <= hi:
                cur = hi + 1
            elif lo > cur:
                break
        if cur != INT_MAX + 1:
            raise AnalysisBroken('value classes for %s do not cover the int range (stopped at %d)' % (m, cur))
        values_covered += (1 << 32)
    rep.extra['value_classes'] = total_classes
    rep.extra['operand_values_covered'] = values_covered
    rep.extra['partition'] = 'exact: every branch condition of numNibbles/getSize/emitProgramBin is uniform on each class'


def rule_parse_directive(rep, idx):
    """RB: the parser hands the literal to the instruction unchanged, for every immediate-taking mnemonic and both spellings."""
    rep.rule('RB', 'Parser::parseDirective builds, for each of the 12 immediate-taking mnemonics followed by a literal n or -n, an InstrImm '
             'with that mnemonic and exactly the value parseInteger yields -- no operand class (negative, >= 2^31, zero) is rejected or '
             'altered on the way from the literal to the instruction', floor=12 * 6)
    from . import c05
    f = idx.func('hexasm::Parser::parseDirective')
    toks = idx.enum('hexasm::Token')
    U32 = (1 << 32) - 1

    def i32(x):
        x &= U32
        return x - (1 << 32) if x >> 31 else x
    cases = [('plain', 0, 0), ('plain', 1, INT_MAX), ('plain', INT_MAX + 1, U32), ('minus', 0, 0), ('minus', 1, INT_MAX), ('minus', INT_MAX + 1, INT_MAX + 1)]
    for m in spec_isa.IMMEDIATE_MNEMONICS:
        for sp, lo, hi in cases:
            key = '%s %s[%d,%d]' % (m, '-' if sp == 'minus' else '', lo, hi)
            B = c05.Builder(idx)
            script = [toks['MINUS']] if sp == 'minus' else [toks['NUMBER']]
            lex = Obj('hexasm::Lexer', {'value': IV(32, False, lo, hi, None, 'input'), 'lastToken': const(32, True, toks[m]),
                                        'currentLineNumber': const(64, False, 0), 'currentCharNumber': const(64, False, 0)}, 'lexer')
            base_hooks = B.I.hooks

            def hooks(I, n, kind, name, did, obj, args, env, script=script, lex=lex, base_hooks=base_hooks):
                if kind == 'method' and name == 'getNextToken':
                    t = script.pop(0) if script else toks['END_OF_FILE']
                    lex.fields['lastToken'] = const(32, True, t)
                    return lex.fields['lastToken']
                return base_hooks(I, n, kind, name, did, obj, args, env)
            B.I.hooks = hooks
            par = Obj('hexasm::Parser', {'lexer': lex}, 'parser')
            where = pos(f.node) + ' hexasm::Parser::parseDirective'
            try:
                d = B.I.invoke(f, par, [])
            except Thrown as e:
                rep.add('RB', key, False, where, 'the operand is rejected (%s): no bytes are emitted for a value that fits in 32 bits' % (e.what,))
                continue
            except (NeedSplit, AnalysisBroken) as e:
                rep.undecided('RB', key, 'parseDirective not interpreted: %s' % e, where)
                continue
            want = (i32(lo), i32(hi)) if sp == 'plain' else tuple(sorted((i32(-lo), i32(-hi))))
            v = B.I.invoke(B.I.resolve_method(d, 'getValue', None), d, []) if isinstance(d, Obj) and B.I.resolve_method(d, 'getValue', None) else None
            tk = d.fields.get('token') if isinstance(d, Obj) else None
            ok = isinstance(d, Obj) and d.cls == 'hexasm::InstrImm' and isinstance(v, IV) and (v.lo, v.hi) == want and \
                isinstance(tk, IV) and tk.concrete() and tk.lo == toks[m] and not B.I.ub
            rep.add('RB', key, ok, where, 'InstrImm(%s, %r)' % (m, v) if ok else
                    'builds %r with value %r, token %r (expected an InstrImm %s with a value in [%d,%d])%s' % (
                        getattr(d, 'cls', d), v, tk, m, want[0], want[1], '; UB %s' % B.I.ub if B.I.ub else ''))


def rule_layout_accepts(rep, idx, given):
    """RC: label resolution / layout (the CodeGen constructor path) accepts an immediate of every length class."""
    rep.rule('RC', 'the assembler accepts every 32-bit immediate after parsing: laying out a program that consists of one immediate instruction '
             '(resolveLabels and whatever checks it runs) raises no error and no undefined behaviour for any operand class of 1..8 nibbles, '
             'positive and negative (the value classes of the sizing partition)', floor=16)
    from . import c05
    f = idx.func('hexasm::CodeGen::resolveLabels')
    where = pos(f.node) + ' hexasm::CodeGen::resolveLabels'
    classes = sorted(set(given))
    for lo, hi in classes:
        todo = [(lo, hi)]
        budget = 12
        while todo:
            a, b = todo.pop(0)
            key = 'LDAC [%d,%d]' % (a, b)
            B = c05.Builder(idx)
            try:
                B.layout([B.imm('LDAC', IV(32, True, a, b, None, 'input'))])
            except Thrown as e:
                rep.add('RC', key, False, where, 'operands in [%d,%d] are rejected after parsing (%s): no bytes are emitted for values that fit in 32 bits' % (a, b, e.what))
                continue
            except NeedSplit as e:
                budget -= 1
                if a == b or budget < 0:
                    rep.undecided('RC', key, 'layout not uniform on the class: %s' % e, where)
                    continue
                mid = (a + b) // 2
                todo[:0] = [(a, mid), (mid + 1, b)]
                continue
            except AnalysisBroken as e:
                rep.undecided('RC', key, 'layout not interpreted: %s' % e, where)
                continue
            rep.add('RC', key, not B.I.ub, where, 'accepted' if not B.I.ub else 'undefined behaviour while laying out operands in [%d,%d]: %s' % (a, b, B.I.ub[:2]), nontrivial=False)


def rule_parse(rep, idx):
    f = idx.func('hexasm::Parser::parseInteger')
    toks = idx.enum('hexasm::Token')
    U32 = (1 << 32) - 1
    cases = [('plain', 0, 0), ('plain', 1, INT_MAX), ('plain', INT_MAX + 1, INT_MAX + 1), ('plain', INT_MAX + 2, U32),
             ('minus', 0, 0), ('minus', 1, INT_MAX), ('minus', INT_MAX + 1, INT_MAX + 1), ('minus', INT_MAX + 2, U32)]
    for sp, lo, hi in cases:
        state = {'bytes': []}
        I = ivinterp.Interp(idx, hooks_factory(state))
        lex = Obj('hexasm::Lexer', {'value': IV(32, False, lo, hi, None, 'input'),
                                    'lastToken': const(32, True, toks['MINUS'] if sp == 'minus' else toks['NUMBER'])}, 'lexer')
        par = Obj('hexasm::Parser', {'lexer': lex}, 'parser')
        try:
            v = I.invoke(f, par, [])
        except NeedSplit as e:
            rep.undecided('RA', '%s:[%d,%d]' % (sp, lo, hi), 'condition not uniform: %s' % e)
            continue

        def i32(x):
            x &= U32
            return x - (1 << 32) if x >> 31 else x
        if sp == 'plain':
            want = (i32(lo), i32(hi))
        else:
            want = tuple(sorted((i32(-lo), i32(-hi))))
        got = (v.lo, v.hi) if isinstance(v, IV) else None
        if sp == 'minus' and lo > INT_MAX + 1:
            # "-n" with n > 2^31 names no 32-bit value: outside the property's quantifier, whatever the parser makes of it (wrap, saturate)
            rep.add('RA', '%s:[%d,%d]' % (sp, lo, hi), not I.ub, pos(f.node) + ' hexasm::Parser::parseInteger',
                    'literal -n with n > 2^31 is not a 32-bit value: parseInteger yields %r (not judged)%s' % (got, ('; UB: %s' % I.ub) if I.ub else ''), nontrivial=False)
            continue
        # negating an unsigned value is defined; converting to int is modular
        rep.add('RA', '%s:[%d,%d]' % (sp, lo, hi), got == want and not I.ub, pos(f.node) + ' hexasm::Parser::parseInteger',
                'literal %s n, n in [%d,%d]: parseInteger yields %r, expected int32 range %r%s' % (
                    '-' if sp == 'minus' else '', lo, hi, got, want, ('; UB: %s' % I.ub) if I.ub else ''))
    # the lexer stores the literal in an unsigned 32-bit member (the radix is judged on the interpreted decimal path below)
    lexf = idx.func('hexasm::Lexer::readToken')
    fld = [x for x in idx.record('hexasm::Lexer').fields if x['name'] == 'value']
    ok = bool(fld) and qt(fld[0]) in ('unsigned int', 'unsigned', 'uint32_t')
    rep.add('RA', 'lexer:number-is-unsigned-32-bit', ok, pos(lexf.node) + ' hexasm::Lexer',
            'number token kept in an unsigned 32-bit member' if ok else 'the literal is not kept in an unsigned 32-bit member')
    # the lexer delivers every decimal literal 0 .. 2^32-1 unchanged (no rejection, no clamping): its number branch is interpreted with
    # strtoul's result ranging over value classes that are split until every branch is uniform
    from .. import robust
    lexf0 = idx.func('hexasm::Lexer::readToken')
    todo = [(0, 0), (1, INT_MAX), (INT_MAX + 1, U32)]
    budget = 40
    while todo:
        lo, hi = todo.pop(0)
        key = 'lexer:literal[%d,%d]' % (lo, hi)
        try:
            r = robust.lexer_number(idx, 'hexasm', lo, hi)
        except robust.WrongRadix as e:
            rep.add('RA', key, False, e.at + ' hexasm::Lexer::readToken',
                    'a decimal literal is converted with radix %d: with radix 0 a zero-padded decimal such as 0000000100 is read as octal (64) '
                    'and 08 is cut at the 8; with 16 or 8 every multi-digit decimal changes value' % e.radix)
            continue
        except AnalysisBroken as e:
            rep.undecided('RA', key, 'lexer number branch outside the engine: %s' % e, pos(lexf0.node))
            continue
        except NeedSplit as e:
            budget -= 1
            if lo == hi or budget < 0:
                rep.undecided('RA', key, 'lexer number branch not uniform: %s' % e, pos(lexf0.node))
                continue
            at = getattr(e, 'at', None)
            mid = (lo + hi) // 2
            if at and at[0] == 'sym':
                for cand in (at[2] - 1, at[2]):
                    if lo <= cand < hi:
                        mid = cand
                        break
            todo[:0] = [(lo, mid), (mid + 1, hi)]
            continue
        if r[0] == 'throws':
            rep.add('RA', key, False, pos(lexf0.node) + ' hexasm::Lexer::readToken',
                    'a decimal literal with value in [%d,%d] (it fits in 32 bits) is rejected: %s' % (lo, hi, r[1]))
            continue
        _, v, tk, ub = r
        same = isinstance(v, IV) and (v.lo, v.hi) == (lo, hi) and (lo == hi or (v.aff is not None and v.aff[0] == {'N': 1} and v.aff[1] == 0))
        is_num = isinstance(tk, IV) and tk.concrete() and tk.lo == toks['NUMBER']
        rep.add('RA', key, same and is_num and not ub, pos(lexf0.node) + ' hexasm::Lexer::readToken',
                'the lexer delivers the literal unchanged as a NUMBER token' if same and is_num and not ub else
                'literal n in [%d,%d]: the lexer delivers %r (token %r)%s' % (lo, hi, v, tk, '; UB: %s' % ub if ub else ''))
    # InstrImm stores the parsed int unchanged: every user constructor is run on a symbolic operand and getValue() must hand it back
    from . import c05
    rec = idx.record('hexasm::InstrImm')
    toks_ = idx.enum('hexasm::Token')
    for c in [c for c in rec.ctors if not c.node.get('isImplicit')]:
        key = 'InstrImm-ctor(%d params):stores-int-unchanged' % len(c.params)
        B = c05.Builder(idx)
        V = IV(32, True, INT_MIN, INT_MAX, None, 'input', ({'V': 1}, 0))
        args = []
        for prm in c.params:
            t = qt(prm)
            if 'Location' in t:
                args.append(B.I.construct('hexutil::Location', [const(64, False, 0), const(64, False, 0)]))
            elif 'Token' in t:
                args.append(const(32, True, toks_['LDAC']))
            elif t in ('int', 'const int'):
                args.append(V)
            else:
                args = None
                break
        if args is None:
            rep.undecided('RA', key, 'constructor parameters not recognised: %s' % [qt(p_) for p_ in c.params], pos(c.node) + ' ' + c.qname)
            continue
        try:
            obj = B.I._construct_with('hexasm::InstrImm', c, args, Obj('hexasm::InstrImm', {}, 'imm'))
            gv = B.I.invoke(B.I.resolve_method(obj, 'getValue', None), obj, [])
        except (NeedSplit, AnalysisBroken, Thrown) as e:
            rep.undecided('RA', key, 'constructor not interpreted: %s' % e, pos(c.node) + ' ' + c.qname)
            continue
        good = isinstance(gv, IV) and gv.aff is not None and gv.aff[0] == {'V': 1} and gv.aff[1] == 0
        rep.add('RA', key, good, pos(c.node) + ' ' + c.qname,
                'getValue() returns the operand the constructor was given' if good else 'getValue() returns %r for operand V' % (gv,))
