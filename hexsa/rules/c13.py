"""C13 -- RTL testbench results do not depend on the power-on state (engines V + I)."""
from .. import cast, ivinterp, vlxml
from ..ivinterp import IV, Obj, const, NeedSplit
from ..terms import F, T, const as tconst
from ..frontend import AnalysisBroken
from ..cast import children, pos, walk, callee_of, qt, dqt
from . import c03

MAX_EVALS = 40


class Stop(Exception):
    pass


def schedule(idx, syscall_valid=1, syscall_no=1, trace=0, prints=None, init_clk=0, init_rst=0):
    """Interpret hextb.cpp's run() on its own scalars with the DUT outputs chosen adversarially; returns
    (list of (time, i_clk, i_rst) at each eval(), list of (time, i_clk, i_rst) at each handleSyscall())."""
    f = idx.func('run')
    evals, syscalls = [], []
    ctx = Obj('VerilatedContext', {'time': const(64, False, 0)}, 'contextp')
    top = Obj('Vhex_pkg', {'i_clk': const(8, False, init_clk), 'i_rst': const(8, False, init_rst),
                           'o_syscall_valid': const(8, False, syscall_valid), 'o_syscall': const(8, False, syscall_no)}, 'top')
    # internal DUT state that the testbench may look at (tracing): unknown values, recognisable by their source tag
    dut = lambda w, nm: ivinterp.IV(w, False, 0, (1 << w) - 1, None, 'dut:' + nm)
    top.fields['hex'] = Obj('Vhex_pkg_hex', {
        'u_processor': Obj('Vhex_pkg_processor', {'pc_q': dut(32, 'pc_q'), 'instr': dut(8, 'instr'), 'areg_q': dut(32, 'areg_q'),
                                                  'breg_q': dut(32, 'breg_q'), 'oreg_q': dut(32, 'oreg_q')}, 'u_processor'),
        'u_memory': Obj('Vhex_pkg_memory', {}, 'u_memory')}, 'hex')

    def has_dut(v, depth=0):
        if isinstance(v, ivinterp.IV):
            return isinstance(v.src, str) and v.src.startswith('dut:')
        if isinstance(v, (tuple, list)) and depth < 6:
            return any(has_dut(x, depth + 1) for x in v)
        return False

    def hooks(I, n, kind, name, did, obj, args, env):
        t = (dqt(obj) + ' ' + qt(obj)) if obj is not None else ''
        if n['kind'] == 'CXXOperatorCallExpr' and name in ('operator->', 'operator*'):
            return I.expr(args[0], env)
        if kind == 'method':
            o = I.expr(obj, env) if obj is not None else None
            if o is ctx:
                if name == 'timeInc':
                    d = I.expr(args[0], env)
                    ctx.fields['time'] = I.arith('+', ctx.fields['time'], d, n)
                    return None
                if name == 'time':
                    return ctx.fields['time']
                if name == 'gotFinish':
                    return const(1, False, 0)
                raise AnalysisBroken('unmodelled VerilatedContext::%s' % name)
            if o is top:
                if name == 'eval':
                    evals.append((ctx.fields['time'].lo, top.fields['i_clk'].lo, top.fields['i_rst'].lo))
                    if len(evals) >= MAX_EVALS:
                        raise Stop()
                    return None
                if name == 'final':
                    return None
                raise AnalysisBroken('unmodelled DUT method %s' % name)
        if n['kind'] == 'CXXOperatorCallExpr' and name == 'operator<<' and prints is not None and len(args) == 2:
            a = I.expr(args[0], env)
            try:
                b = I.expr(args[1], env)
            except (AnalysisBroken, NeedSplit):
                b = None
            prints.append((ctx.fields['time'].lo, top.fields['i_clk'].lo, top.fields['i_rst'].lo, has_dut(b) or b is None))
            return a
        if kind == 'function' and name == 'handleSyscall':
            syscalls.append((ctx.fields['time'].lo, top.fields['i_clk'].lo, top.fields['i_rst'].lo))
            return None
        if kind == 'function' and name in ('instrEnumToStr',):
            return ('str', '?')
        return NotImplemented
    I = ivinterp.Interp(idx, hooks, max_iter=10 * MAX_EVALS)
    argv = []
    for prm in f.params:
        t = qt(prm)
        if 'VerilatedContext' in t:
            argv.append(ctx)
        elif 'Vhex_pkg' in t:
            argv.append(top)
        elif 'bool' in t:
            argv.append(const(1, False, trace))
        else:
            argv.append(const(64, False, 0))
    try:
        I.invoke(f, None, argv)
    except Stop:
        pass
    return evals, syscalls


def run(rep, tier):
    rep.trusted = ['Verilator elaboration', 'clang 14 AST', 'VerilatedContext::time() starts at 0 and advances only through timeInc (installed verilated.h)']
    rep.assumptions = ['DUT outputs are chosen adversarially (o_syscall_valid = 1 on every evaluation) when the testbench schedule is derived',
                       'per-seed outcomes are not decided; the clauses are necessary conditions for seed independence']
    # R1: RTL
    rep.rule('R1', 'with i_rst asserted no architectural register keeps its old value and the memory write enable is false (for every '
             'instruction byte the power-on state could present)', floor=256)
    d, top = c03.load_design()
    for f_ in ('verilog/processor.sv', 'verilog/memory.sv'):
        rep.analysed(unit=f_)
    for b in range(256):
        r, ev = c03.rtl_summary(d, top, b, 1)
        regs_ok = all(r['next'].get(k) == tconst(w, 0) for k, w in (('pc_q', 21), ('areg_q', 32), ('breg_q', 32), ('oreg_q', 32)))
        live = [w for w in r['writes'] if w[1] != F]
        rep.add('R1', 'reset:byte=0x%02X' % b, regs_ok and not live, 'verilog/processor.sv, verilog/memory.sv',
                ('a simulation task fires during reset under a condition on the (randomised) power-on state: %s -- the run aborts or prints '
                 'depending on the seed' % [(w[0], repr(w[1])[:120]) for w in live if w[0].startswith('$')]) if any(w[0].startswith('$') for w in live) else
                ('memory write enabled during reset: %s' % [(w[0], repr(w[1])) for w in live]) if live else
                ('registers under reset: %s' % {k: repr(v) for k, v in r['next'].items()}) if not regs_ok else 'registers cleared, write enable false',
                nontrivial=(b >> 4) in (2, 8))
    # R10: the testbench drives its input pins itself: the schedule does not depend on what they hold at power-on
    rep.rule('R10', 'the (time, clock, reset) schedule of evaluations and serviced system calls that run() produces is the same for every '
             'power-on value of the DUT input pins i_clk and i_rst (Verilator randomises them too): run() assigns both before it first '
             'reads or evaluates them', floor=3)
    tbx = cast.load('hextb.cpp')
    base = schedule(tbx)
    for ck, rs in ((1, 0), (0, 1), (1, 1)):
        try:
            got = schedule(tbx, init_clk=ck, init_rst=rs)
        except (AnalysisBroken, NeedSplit) as e:
            rep.undecided('R10', 'power-on i_clk=%d i_rst=%d' % (ck, rs), 'schedule not interpreted: %s' % e, pos(tbx.func('run').node) + ' run (hextb.cpp)')
            continue
        same = got == base
        first = next((i for i, (a_, b_) in enumerate(zip(base[0], got[0])) if a_ != b_), None)
        rep.add('R10', 'power-on i_clk=%d i_rst=%d' % (ck, rs), same, pos(tbx.func('run').node) + ' run (hextb.cpp)',
                'same schedule as with both pins at 0' if same else
                'the schedule differs from the one with both pins at 0 (first difference at evaluation %s: %s instead of %s): clock phase / reset '
                'length depend on the randomised pin state' % (first, got[0][first] if first is not None and first < len(got[0]) else '?',
                                                              base[0][first] if first is not None else '?'))
    # R9: one clock / reset domain (import of the connection instances of C03-R2)
    rep.rule('R9', 'processor and memory are clocked and reset by the top-level i_clk / i_rst themselves: a memory clocked by a derived clock '
             '(~i_clk) takes its stores on the other edge, so a store by the first instruction after reset release falls into the reset '
             'phase and the word keeps its power-on content', floor=4)
    c03.clock_connections(rep, 'R9', d, top)
    # R8: no architectural next state is an X the build resolves per seed
    rep.rule('R8', 'no next-state function of an architectural register contains an X constant for any instruction byte while the build asks '
             'Verilator to resolve X assignments with per-seed random values (--x-assign unique): an X that reaches a register is then a '
             'hidden seed-dependent input that reset does not clear', floor=256)
    from .. import frontend as _fe
    from ..vlxml import _has_x
    vargs = _fe._parse_verilate().get('args', [])
    xa = None
    for i_, t_ in enumerate(vargs):
        if t_ == '--x-assign' and i_ + 1 < len(vargs):
            xa = vargs[i_ + 1]
        elif t_.startswith('--x-assign='):
            xa = t_.split('=', 1)[1]
    for b in range(256):
        r, ev = c03.rtl_summary(d, top, b, 0)
        xs = sorted(k for k, v in r['next'].items() if hasattr(v, 'terms') and _has_x(v))
        rep.add('R8', 'x-free-next-state:byte=0x%02X' % b, not (xs and xa == 'unique'), 'verilog/processor.sv',
                ('next state of %s contains an X for this instruction byte and the build resolves X assignments with --x-assign unique: the value '
                 'differs from seed to seed' % xs) if xs and xa == 'unique' else
                ('X in the next state of %s (resolved deterministically: --x-assign %s)' % (xs, xa or 'default') if xs else 'no X in any next state'),
                nontrivial=bool(xs))
    # memory write is clocked only (a write block sensitive to the reset edge would fire with power-on garbage)
    mm = d.modules['memory']
    for ff in mm.ff:
        sens = sorted((it.get('edgeType'), it[0].get('name')) for it in ff.find('sentree'))
        writes_mem = any(e.tag == 'arraysel' for a in ff.iter('assigndly') for e in [a[1]])
        if writes_mem:
            rst_edge = any(n == 'i_rst' for e, n in sens)
            guard_all = True
            r1, _ = c03.rtl_summary(d, top, 0x20, 1)
            rep.add('R1', 'memory:write-block-sensitivity', (not rst_edge) or all(w[1] == F for w in r1['writes']), 'verilog/memory.sv',
                    'memory write block sensitivity %s' % sens, nontrivial=False)
    # R2/R3: testbench schedule
    idx = cast.load('hextb.cpp')
    rep.analysed(unit='hextb.cpp')
    f = idx.func('run')
    rep.analysed(f.sig)
    rep.rule('R2', 'testbench schedule (run() interpreted on its own clock/reset/time scalars): reset is asserted at or before the first '
             'evaluated rising clock edge, at least one evaluation happens inside reset, and reset is eventually released', floor=3)
    rep.rule('R3', 'no system call is serviced before reset has been released (with the DUT presenting a request on every evaluation)', floor=1)
    evals, sysc = schedule(idx)
    where = pos(f.node) + ' run (hextb.cpp)'
    first_rst = next((i for i, e in enumerate(evals) if e[2] == 1), None)
    pre = [e for e in (evals[:first_rst] if first_rst is not None else evals) if e[1] == 1 and e[2] == 0]
    rep.add('R2', 'no-clock-edge-before-reset', first_rst is not None and not pre, where,
            ('the design is clocked out of reset at (time,clk,rst) = %s before reset is first asserted: it executes from the randomised '
             'power-on state' % pre) if pre else 'first evaluations: %s' % evals[:6], data={'evals': evals})
    in_rst = [e for e in evals if e[2] == 1]
    rep.add('R2', 'evaluated-inside-reset', bool(in_rst), where, '%d evaluations with i_rst=1: %s' % (len(in_rst), in_rst[:4]))
    released = first_rst is not None and any(e[2] == 0 for e in evals[first_rst:])
    rep.add('R2', 'reset-released', released, where, 'reset released at %s' % (next((e for e in evals[first_rst or 0:] if e[2] == 0), None),))
    rel_time = next((e[0] for e in evals[first_rst or 0:] if e[2] == 0), None) if first_rst is not None else None
    early = [s for s in sysc if rel_time is None or s[0] < rel_time or s[2] == 1]
    rep.add('R3', 'no-syscall-before-release', bool(evals) and not early, where,
            ('system calls are serviced at (time,clk,rst) = %s, before reset is released at time %s' % (early[:6], rel_time)) if early else
            'first serviced request at %s, reset released at time %s' % (sysc[:1], rel_time), data={'syscalls': sysc[:10]})
    # the image is loaded before run() and nothing else writes DUT memory before reset release: load() precedes run() in main
    m = idx.func('main')
    order = [callee_of(c)[1] for c in cast.calls_in(m.body) if callee_of(c)[1] in ('load', 'run')]
    rep.rule('R4', 'the image is loaded into the DUT memory before the clock starts', floor=1)
    rep.add('R4', 'main:load-before-run', order[:2] == ['load', 'run'], pos(m.node) + ' main (hextb.cpp)', 'call order %s' % order, nontrivial=False)
    rule_shim_defined(rep, idx)
    # R7: with -t nothing that depends on the power-on state is printed
    rep.rule('R7', 'tracing (-t) prints the internal state of the design only once reset has been released: a line printed from pc / instr '
             'while the design is still in (or has not yet seen) reset shows the randomised power-on values, so stdout would differ from '
             'seed to seed', floor=1)
    prints = []
    try:
        ev2, _ = schedule(idx, trace=1, prints=prints)
        rel = next((e[0] for e in ev2 if e[2] == 0 and any(x[2] == 1 for x in ev2 if x[0] < e[0])), None)
        early = [p_ for p_ in prints if p_[3] and (p_[2] == 1 or rel is None or p_[0] < rel)]
        rep.add('R7', 'trace:no-dut-state-printed-in-reset', not early, where,
                ('design state is printed at (time, clk, rst) = %s, before reset is released at time %s' % ([p_[:3] for p_ in early[:4]], rel)) if early else
                '%d traced prints of design state, the first at time %s (reset released at %s)' % (
                    len([p_ for p_ in prints if p_[3]]), next((p_[0] for p_ in prints if p_[3]), None), rel))
    except (AnalysisBroken, NeedSplit) as e:
        rep.undecided('R7', 'trace:no-dut-state-printed-in-reset', 'the traced run could not be interpreted: %s' % e, where)
    from .. import report as _report
    from . import c06
    rep.rule('R6', '"the loaded image is intact": the testbench loader copies the whole zero-padded image to word 0 of the DUT memory, so no '
             'word of the image keeps its randomised power-on contents (import of C06-R3)', floor=2)
    c06.run(_report.Import(rep, 'R6', 'C06', only_rules={'R3'}), tier)


def rule_shim_defined(rep, idx):
    """R5: what the system-call shim hands back to the program is defined on every path (nothing is left to whatever the randomised
    memory held): every READ path stores into the result slot, every EXIT path assigns the exit value."""
    from . import c06
    rep.rule('R5', 'the system-call shim leaves nothing to the power-on contents of memory: on every path of a READ request it stores a '
             'value into the result slot (mem[mem[1]+1]), on every path of an EXIT request it sets the exit value', floor=2)
    f = idx.func('handleSyscall')
    where = pos(f.node) + ' handleSyscall (hextb.cpp)'
    for k, nm in ((2, 'READ'), (0, 'EXIT')):
        paths, _ = c06.syscall_summary_hextb(idx, k)
        bad = []
        for pc, status, events, stores, ex, _r in paths:
            if status != 'run':
                continue
            if nm == 'READ' and not stores:
                bad.append('no store on the path %r' % (pc,))
            if nm == 'EXIT' and ex is None:
                bad.append('exit value not set on the path %r' % (pc,))
        rep.add('R5', 'shim:%s:defined-on-every-path' % nm, not bad and bool(paths), where,
                ('; '.join(bad))[:700] if bad else '%d path(s), each %s' % (len(paths), 'stores the result' if nm == 'READ' else 'sets the exit value'))
