"""C09 -- xcmp accepts or cleanly rejects every input (engines Q + I)."""
from .. import cast, robust, flow, ivinterp
from ..frontend import AnalysisBroken
from ..ivinterp import Thrown, NeedSplit, Obj
from ..cast import children, pos, walk, callee_of, qt, dqt

# dynamic_casts in xcmp:: whose result is dereferenced without a null test, with the guard that makes them safe
DOWNCAST_GUARDS = {
    ('xcmp::LowerDirectives::LowerDirectives', 'xcmp::Prologue *'): 'inside case hexasm::Token::PROLOGUE: only xcmp::Prologue carries that token',
    ('xcmp::LowerDirectives::LowerDirectives', 'xcmp::Epilogue *'): 'inside case hexasm::Token::EPILOGUE',
    ('xcmp::LowerDirectives::LowerDirectives', 'xcmp::InstrStackOffset *'): 'inside case LDAI_FB/LDBI_FB/STAI_FB: only InstrStackOffset carries these tokens',
    ('xcmp::OptimiseDirectives::matchStoreThenLoad', 'hexasm::Directive *'): 'cast of a Directive to Directive (identity); the vector never holds null before the move in the caller',
    ('xcmp::OptimiseDirectives::matchIndexStoreThenLoad', 'hexasm::Directive *'): 'cast of a Directive to Directive (identity)',
    ('xcmp::ReportMemoryInfo::visitPre', 'hexasm::Data *'): 'directives[1] is the stack-pointer DATA word that LowerDirectives emits second (after BR _start)',
}


def run(rep, tier):
    idx = cast.load('xcmp.cpp')
    rep.analysed(unit='xcmp.cpp')
    rep.trusted = ['clang 14 AST', 'frozen table DOWNCAST_GUARDS (function, target type, reason)']
    rep.assumptions = ['"all byte strings" is a dynamic quantifier: these clauses are necessary conditions; the depth constant accepted by R10 is calibrated by measurement, not derived',
                       'ctype on plain char is formally UB for bytes >= 0x80 (tolerated by glibc): not claimed, see DESIGN.md']
    # R1 exception discipline
    rep.rule('R1', 'every exception raised by the compiler (and by the in-process assembler) derives from std::exception; the drivers run the '
             'compiler inside try blocks that catch it', floor=25)
    for fn, where, t in robust.thrown_types(idx, ['xcmp', 'hexasm', 'hexutil']):
        rep.add('R1', 'throw:%s:%s' % (fn, t), robust.derives_from_std_exception(idx, t), where + ' ' + fn, 'throws %s' % t, nontrivial=False)
    for tu in ('xcmp.cpp', 'xrun.cpp'):
        ix = cast.load(tu)
        m = ix.func('main')
        outside = robust.main_containment(ix, m, {'runCatchExceptions', 'run', 'load', 'stoull', 'openFile'})
        rep.add('R1', '%s:main:fallible-calls-inside-try' % tu, not outside, pos(m.node) + ' main(%s)' % tu,
                'outside the try block: %s' % outside if outside else 'the driver and the simulator run inside the try block')
    rc = idx.func('xcmp::Driver::runCatchExceptions')
    outside = robust.main_containment(idx, rc, {'run'})
    rep.add('R1', 'Driver::runCatchExceptions:run-inside-try', not outside, pos(rc.node) + ' ' + rc.qname,
            'run() is called outside the try block' if outside else 'run() is inside the try block')
    # R2 uninitialised val value (import)
    from . import c11
    rep.rule('R2', 'no read of the uninitialised val value: ValDecl::getValue() only under isConst() (import of C11)', floor=1)
    ok, detail = c11.verify_const_guarded(rep, {'xcmp.cpp': idx}, 'xcmp::ValDecl::exprValue')
    rep.add('R2', 'ValDecl::getValue-guarded', ok, 'xcmp.hpp xcmp::ConstProp', detail)
    # R3 moved-from children (import of C01-R2)
    from . import c01
    rep.rule('R3', 'no null child after code generation and no dereference of a moved-from sub-expression (import of C01-R2)', floor=40)
    c01.rule_tree_intact(c01._Rename(rep, {'R2': 'R3', 'R7': 'R3b'}), idx)
    # R4 signed overflow in folding (import of C07-R3)
    from . import c07
    c07.rule_overflow(c01._Rename(rep, {'R3': 'R4'}), idx)
    # R9 no out-of-bounds read while packing string literals (import of C01-R6)
    c01.rule_strings(c01._Rename(rep, {'R6': 'R9'}), idx)
    # R5 use after move
    rep.rule('R5', 'no use of a std::unique_ptr variable after it has been moved from (dereference or member call before reassignment), in any '
             'function of xcmp::', floor=15)
    n = 0
    for f in idx.all_funcs():
        if f.body is None or f.node.get('isImplicit') or not f.qname.startswith('xcmp::'):
            continue
        if not any(x['kind'] == 'CallExpr' and callee_of(x)[1] == 'move' for x in walk(f.body)):
            continue
        bad = robust.use_after_move(idx, f)
        n += 1
        key = f.qname + ('(' + qt(f.params[0]) + ')' if f.params else '()')
        rep.add('R5', key, not bad, pos(f.node) + ' ' + f.qname,
                '; '.join('`%s` is used at %s after std::move' % (v, w) for w, v in bad) if bad else 'no use after move')
    # R6 never-null lookups
    rep.rule('R6', 'SymbolTable::lookup never returns null: every return is the found element under an it != end() test, otherwise it throws', floor=1)
    lk = idx.func('xcmp::SymbolTable::lookup')
    rets = [r for r in walk(lk.body) if r['kind'] == 'ReturnStmt']
    verdicts = [_return_nonnull(lk, r) for r in rets]
    # a non-void function that does not end in a return ends in a throw (anything else does not compile without a warning-as-error)
    last = children(lk.body)[-1]
    ends_in_throw = any(x['kind'] == 'CXXThrowExpr' for x in walk(last))
    detail = '%d returns: %s; ends in throw: %s' % (len(rets), ', '.join({True: 'found element under a found-test', False: 'may be null',
                                                                         None: 'not recognised'}[v] for v in verdicts), ends_in_throw)
    if rets and any(v is False for v in verdicts):
        rep.add('R6', 'SymbolTable::lookup', False, pos(lk.node) + ' ' + lk.qname, detail)
    elif rets and all(v is True for v in verdicts) and (ends_in_throw or last['kind'] == 'ReturnStmt'):
        rep.add('R6', 'SymbolTable::lookup', True, pos(lk.node) + ' ' + lk.qname, detail)
    else:
        rep.undecided('R6', 'SymbolTable::lookup', 'the way lookup produces its result is not one of the recognised idioms (%s)' % detail, pos(lk.node))
    # R7 checked downcasts
    rep.rule('R7', 'every dynamic_cast whose result is dereferenced is null-tested or covered by the recorded (function, type) guard', floor=10)
    robust.rule_downcasts(rep, 'R7', idx, 'xcmp::', DOWNCAST_GUARDS)
    # R8 lexer termination
    rep.rule('R8', 'the lexer terminates on every input c EOF EOF ... (every byte c, including inside strings, character constants and comments)', floor=256)
    probs = dict(robust.lexer_terminates(idx, 'xcmp', range(256)))
    rt = idx.func('xcmp::Lexer::readToken')
    for c in range(256):
        rep.add('R8', 'byte=0x%02X' % c, c not in probs, pos(rt.node) + ' xcmp::Lexer::readToken', probs.get(c, 'END_OF_FILE or a diagnostic is reached'),
                nontrivial=(chr(c) in '|"\'#:<>~' or chr(c).isalnum()))
    # escape sequences: quote, backslash, any byte (the decoder of escapes sees every byte, NUL and bytes >= 0x80 included)
    esc = [(q, 0x5C, b) for q in (0x27, 0x22) for b in range(256)]
    probs = dict(robust.lexer_terminates(idx, 'xcmp', esc))
    for pr in esc:
        rep.add('R8', 'bytes=' + ' '.join('%02X' % b for b in pr), pr not in probs, pos(rt.node) + ' xcmp::Lexer::readToken',
                probs.get(pr, 'END_OF_FILE or a diagnostic is reached'), nontrivial=False)
    rule_recursion(rep)
    rule_peephole_bounds(rep, idx)
    rule_memory_info(rep, idx)

    def bind(env, lex, func):
        env['this'] = Obj('xcmp::Driver', {'lexer': lex}, 'driver')
    robust.rule_handlers(rep, 'R15', idx, 'xcmp', idx.func('xcmp::Driver::runCatchExceptions'), bind)
    robust.rule_dangling_reference_members(rep, 'R16', idx, ('xcmp::', 'hexasm::'))
    rule_proc_symbol_key(rep, idx)
    from .. import report as _report
    from . import c14, c11
    rep.rule('R12', '"reports a diagnostic and emits nothing": output files are opened only by the designated writer, and nothing can be '
             'rejected once the output file exists (import of C14-R4, with its re-verified exemptions)', floor=3)
    c14.rule_r4(_report.Import(rep, 'R12', 'C14'), {tu: cast.load(tu) for tu in c14.MAINS})
    rep.rule('R13', 'no use of an uninitialised frame pointer or stack offset: every symbol with a scope gets its frame and stack offset on '
             'every path before code generation reads them (import of the C11 protocols frame-set / offset-assigned)', floor=2)
    c11.run(_report.Import(rep, 'R13', 'C11', only_rules={'R1'}, key_filter=lambda r, k: 'protocol:frame-set' in k or 'protocol:offset-assigned' in k), tier)
    if tier == 'thorough':
        import itertools
        reps = [0x20, 0x0A, 0x23, 0x7C, 0x22, 0x27, 0x5C, 0x61, 0x30, 0x2D, 0x3A, 0x3C, 0x7E, 0x3D, 0x80, 0xFF]
        pairs = list(itertools.product(reps, repeat=2)) + [(a, b, c) for a in (0x22, 0x27, 0x23, 0x7C) for b in (0x5C, 0x61) for c in (0x5C, 0x22, 0x27, 0x0A)]
        probs = dict(robust.lexer_terminates(idx, 'xcmp', pairs))
        for pr in pairs:
            rep.add('R8', 'bytes=' + ' '.join('%02X' % b for b in pr), pr not in probs, pos(rt.node) + ' xcmp::Lexer::readToken',
                    probs.get(pr, 'END_OF_FILE or a diagnostic is reached'), nontrivial=True)


def rule_recursion(rep, rid='R10'):
    rep.rule(rid, 'every recursive cycle of the call graph reachable from main() is depth-bounded: it passes through a function that checks a '
             'nesting counter against a constant (<= %d) and throws before recursing, or it descends one level of the syntax tree per call and '
             'the parser that builds the tree is so bounded' % robust.MAX_ACCEPTED_DEPTH_BOUND, floor=4,
             floor_reason='call-graph summary + expression-parser, statement-parser and tree-visitor components')
    return robust.rule_recursion(rep, rid, 'xcmp.cpp', tree_base='xcmp::AstNode', min_reachable=300)


def rule_peephole_bounds(rep, idx, rid='R11'):
    rep.rule(rid, 'the directive-level peephole pass (OptimiseDirectives) makes no out-of-range access to the directive vector on the streams '
             'the code generator really hands it for the smallest programs (no procedure at all -- which is rejected only later, by the '
             'assembler, as "unknown label main" -- and a single procedure): its look-ahead and skip loops stay inside the vector', floor=2)
    from . import c08
    where = 'xcmp.hpp xcmp::OptimiseDirectives::OptimiseDirectives'
    for name, X, low in c08.pipeline_streams(idx):
        try:
            res, ub = c08.optimise(idx, X, low)
            thrown = None
        except Thrown as e:
            res, ub, thrown = [], list(X.I.ub), e.what
        except NeedSplit as e:
            rep.undecided(rid, name, 'not uniform: %s' % e, where)
            continue
        bad = [u for u in ub if 'out-of-range' in str(u) or 'index' in str(u)]
        ok = not bad and (thrown is None or 'out-of-range' not in thrown)
        rep.add(rid, name, ok, where, ('out-of-range access: %s %s' % (bad[:2], thrown or '')) if not ok else
                '%d directives in, %d out, no out-of-range access' % (len(low), len(res)))


def rule_memory_info(rep, idx, rid='R14'):
    rep.rule(rid, 'the frame report (--memory-info) runs before the assembler rejects a program without main: on the stream the code generator '
             'produces for a source with no procedure at all, visiting the Program node with ReportMemoryInfo raises no arithmetic fault '
             '(division or remainder by zero) and makes no out-of-range access; also every integer division in the xcmp/hexasm code has a '
             'divisor that is a non-zero constant or is decided by such an interpretation', floor=2)
    from . import c08
    from .. import xmodel
    rec = idx.record('xcmp::ReportMemoryInfo')
    where = pos(rec.node) + ' xcmp::ReportMemoryInfo'
    interpreted = set()
    name, X, low = c08.pipeline_streams(idx)[0]
    I = X.I
    key = 'ReportMemoryInfo:' + name
    try:
        st = Obj('xcmp::SymbolTable', {'symbolMap': {}}, 'st')
        v = X.visitor('xcmp::ReportMemoryInfo', [st, ivinterp.Vec(list(low)), Obj('std::ostream', {}, 'outs')])
        prog = Obj('xcmp::Program', {}, 'program')
        n0 = len(I.ub)
        X.visit_pre(v, prog)
        X.visit_post(v, prog)
        ub = I.ub[n0:]
        bad = [u for u in ub if 'division' in str(u) or 'out-of-range' in str(u) or 'index' in str(u)]
        rep.add(rid, key, not bad, where, ('on a source without procedures: %s' % bad[:2]) if bad else 'no fault on a source without procedures')
        for m in rec.methods:
            if m.body is not None and m.name in ('visitPre', 'visitPost') and m.params and 'Program' in qt(m.params[0]):
                interpreted.add(m.qname + '/' + qt(m.params[0]))
                for x in walk(m.body):
                    interpreted.add(id(x))
    except Thrown as e:
        rep.add(rid, key, robust.derives_from_std_exception(idx, e.what) if isinstance(e.what, str) else True, where, 'throws %s' % (e.what,))
    except (NeedSplit, AnalysisBroken) as e:
        rep.undecided(rid, key, 'cannot interpret the report on the empty program: %s' % e, where)
    # every integer division / remainder: constant non-zero divisor, or inside a function interpreted above
    for tu in ('xcmp.cpp',):
        ix = idx
        for f in ix.all_funcs():
            if f.body is None or f.node.get('isImplicit') or not f.qname.split('::')[0] in ('xcmp', 'hexasm', 'hexutil'):
                continue
            for x in walk(f.body):
                if x['kind'] in ('BinaryOperator', 'CompoundAssignOperator') and x.get('opcode') in ('/', '%', '/=', '%='):
                    t = dqt(x)
                    if 'double' in t or 'float' in t:
                        continue
                    d = cast.const_int(children(x)[1], ix)
                    k2 = 'divisor:%s:%s' % (f.qname, pos(x))
                    if d is not None:
                        rep.add(rid, k2, d != 0, pos(x) + ' ' + f.qname, 'constant divisor %d' % d)
                    elif id(x) in interpreted:
                        rep.add(rid, k2, True, pos(x) + ' ' + f.qname, 'decided by the interpretation above', nontrivial=False)
                    else:
                        g = _nonzero_guard(f, x)
                        if g:
                            rep.add(rid, k2, True, pos(x) + ' ' + f.qname, 'divisor tested non-zero at %s' % g)
                        else:
                            rep.undecided(rid, k2, 'divisor is neither a constant nor tested against zero on the path to the division', pos(x) + ' ' + f.qname)


def rule_proc_symbol_key(rep, idx, rid='R17'):
    rep.rule(rid, 'a procedure\'s own symbol is looked up under the key it was inserted with: CreateSymbols inserts it under '
             '(getCurrentScope(), name) while visiting the Proc node, so every visitPre/visitPost(Proc&) that looks up (S, proc.getName()) '
             'must take S from getCurrentScope() of the same traversal -- with S = the procedure\'s own name a formal or local named like '
             'the procedure is found instead (lookup prefers the inner scope), the frame is attached to that variable and the real symbol '
             'keeps a null frame that LowerDirectives dereferences', floor=3)

    def resolve(e, depth=0):
        e = cast.strip(e)
        while e.get('kind') in ('ImplicitCastExpr', 'ParenExpr', 'MaterializeTemporaryExpr', 'CXXBindTemporaryExpr', 'ExprWithCleanups',
                                'CXXConstructExpr', 'CXXFunctionalCastExpr') and len(children(e)) == 1:
            e = cast.strip(children(e)[0])
        if e.get('kind') == 'DeclRefExpr' and (e.get('referencedDecl') or {}).get('kind') == 'VarDecl' and depth < 4:
            d = idx.by_id.get(e['referencedDecl'].get('id'))
            init = [k for k in children(d)] if d is not None else []
            if init:
                return resolve(init[-1], depth + 1)
        return e

    def is_own_name(e, prm):
        e = resolve(e)
        return e.get('kind') == 'CXXMemberCallExpr' and callee_of(e)[1] == 'getName' and callee_of(e)[3] is not None and \
            cast.decl_ref(callee_of(e)[3]) == prm['id']
    n = 0
    for f in idx.all_funcs():
        if f.body is None or f.name not in ('visitPre', 'visitPost') or len(f.params) != 1 or 'Proc &' not in qt(f.params[0]) or not f.qname.startswith('xcmp::'):
            continue
        prm = f.params[0]
        for c in cast.calls_in(f.body):
            if callee_of(c)[1] != 'lookup':
                continue
            mp = [x for x in cast.calls_in(c) if callee_of(x)[1] == 'make_pair']
            if not mp:
                continue
            a = cast.call_args(mp[0])
            if len(a) != 2 or not is_own_name(a[1], prm):
                continue
            sc = resolve(a[0])
            key = '%s:%s' % (f.qname, pos(c).split(':')[-1])
            n += 1
            if sc.get('kind') == 'CXXMemberCallExpr' and callee_of(sc)[1] == 'getCurrentScope' and \
                    cast.strip(callee_of(sc)[3] or {'kind': ''}).get('kind') in ('CXXThisExpr', 'ImplicitCastExpr'):
                rep.add(rid, key, True, pos(c) + ' ' + f.qname, 'scope taken from getCurrentScope()', nontrivial=False)
            elif is_own_name(a[0], prm):
                rep.add(rid, key, False, pos(c) + ' ' + f.qname,
                        'the procedure symbol is looked up in the procedure\'s own scope (%s): for `func twice(val twice)` the formal is found, its '
                        'symbol gets the frame, and the epilogue of the procedure dereferences the null frame of the real symbol' % 'proc.getName()')
            else:
                rep.undecided(rid, key, 'scope expression of the lookup is neither getCurrentScope() nor the procedure name', pos(c) + ' ' + f.qname)
    if n == 0:
        raise AnalysisBroken('no lookup of a procedure\'s own symbol found in visitPre/visitPost(Proc&) (confirmed: 3)')


def _nonzero_guard(f, div):
    """Position of an enclosing if / conditional whose condition compares the divisor expression (same declaration) with zero
    (x != 0, x > 0, x, !x with the division in the else branch, x == 0 with the division in the else branch)."""
    dv = cast.strip(children(div)[1])
    ref = cast.decl_ref(dv) or (cast.member_ref(dv) or [None])[0]
    if ref is None:
        return None

    def same(e):
        e = cast.strip(e)
        return (cast.decl_ref(e) or (cast.member_ref(e) or [None])[0]) == ref

    def polarity(c):
        c = cast.strip(c)
        if same(c):
            return True
        if c['kind'] == 'UnaryOperator' and c.get('opcode') == '!' and same(children(c)[0]):
            return False
        if c['kind'] == 'BinaryOperator' and c.get('opcode') in ('!=', '>', '==') and len(children(c)) == 2:
            a, b = children(c)
            if same(a) and cast.const_int(b, None) == 0:
                return c['opcode'] != '=='
        return None
    for n in walk(f.body):
        if n['kind'] in ('IfStmt', 'ConditionalOperator'):
            cc = children(n)
            pol = polarity(cc[0])
            if pol is None:
                continue
            branch = cc[1] if pol else (cc[2] if len(cc) > 2 else None)
            if branch is not None and any(y is div for y in walk(branch)):
                # the divisor must not be assigned between the test and the division (conservative: not assigned anywhere in the branch)
                assigned = any(y['kind'] in ('BinaryOperator', 'CompoundAssignOperator', 'UnaryOperator') and
                               (y.get('opcode', '').endswith('=') and y.get('opcode') not in ('==', '!=', '<=', '>=') or y.get('opcode') in ('++', '--'))
                               and same(children(y)[0]) for y in walk(branch))
                if not assigned:
                    return pos(n)
    return None


def _if_parts(n):
    ch = children(n)
    i = 1 if (n.get('hasInit') or n.get('hasVar')) else 0
    return ch[i], ch[i + 1], (ch[i + 2] if len(ch) > i + 2 else None), (ch[0] if n.get('hasVar') else None)


def _is_null_literal(e):
    e = cast.strip(e)
    return e['kind'] in ('CXXNullPtrLiteralExpr', 'GNUNullExpr') or (e['kind'] == 'IntegerLiteral' and e.get('value') == '0')


def _return_nonnull(f, ret):
    """True: the returned pointer is a found element (never null); False: it may be null; None: idiom not recognised."""
    def contains(n):
        return any(x is ret for x in walk(n))
    ch = children(ret)
    if not ch:
        return None
    e = cast.strip(ch[0])
    if _is_null_literal(e):
        return False
    if e['kind'] == 'ConditionalOperator' and any(_is_null_literal(a) for a in children(e)[1:]):
        return False
    enclosing = [n for n in walk(f.body) if n['kind'] == 'IfStmt' and contains(_if_parts(n)[1])]
    # (a) the element of an iterator that was compared with end()
    if any(callee_of(c)[1] == 'get' for c in cast.calls_in(ret)):
        for n in enclosing:
            cond = _if_parts(n)[0]
            if any(callee_of(c)[1] == 'end' for c in cast.calls_in(cond)):
                return True
        return None
    # (b) a pointer variable the enclosing if has just tested: `if (auto s = find(..)) return s;`, `if (s) return s;`, `if (s != nullptr)`
    if e['kind'] == 'DeclRefExpr':
        vid = (e.get('referencedDecl') or {}).get('id')
        for n in enclosing:
            cond, _, _, decl = _if_parts(n)
            if decl is not None and any(d.get('id') == vid for d in children(decl) if d['kind'] == 'VarDecl'):
                return True
            c = cast.strip(cond)
            if c['kind'] == 'DeclRefExpr' and (c.get('referencedDecl') or {}).get('id') == vid:
                return True
            if c['kind'] == 'BinaryOperator' and c.get('opcode') == '!=':
                a, b = [cast.strip(x) for x in children(c)]
                for x, y in ((a, b), (b, a)):
                    if x['kind'] == 'DeclRefExpr' and (x.get('referencedDecl') or {}).get('id') == vid and _is_null_literal(y):
                        return True
    return None
