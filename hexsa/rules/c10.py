"""C10 -- hexasm accepts or cleanly rejects every input (engines Q + I)."""
from .. import cast, robust, ivinterp
from ..ivinterp import IV, Obj, Vec, const, NeedSplit, Thrown
from ..frontend import AnalysisBroken
from ..cast import children, pos, walk, callee_of, qt, dqt
from . import c05, c04

# dynamic_casts whose result is dereferenced without a null test, with the guard that makes them safe
DOWNCAST_GUARDS = {
    ('hexasm::CodeGen::createLabelMap', 'hexasm::Func *'): 'inside case Token::FUNC: only Func directives carry this token (parser, CodeBuffer::genFunc)',
    ('hexasm::CodeGen::createLabelMap', 'hexasm::Proc *'): 'inside case Token::PROC',
    ('hexasm::CodeGen::createLabelMap', 'hexasm::Label *'): 'inside case Token::IDENTIFIER',
    ('hexasm::CodeGen::resolveLabels', 'hexasm::Label *'): 'under the isLabel test (token IDENTIFIER/FUNC/PROC): Label, Func and Proc all derive from Label',
    ('hexasm::CodeGen::resolveLabels', 'hexasm::InstrLabel *'): 'after `if (!operandIsLabel()) continue`: only InstrLabel overrides operandIsLabel() to return true',
    ('hexasm::CodeGen::emitProgramBin', 'hexasm::Func *'): 'under getToken() == Token::FUNC',
    ('hexasm::CodeGen::emitProgramBin', 'hexasm::Proc *'): 'under getToken() == Token::PROC',
    ('hexasm::CodeGen::emitProgramBin', 'hexasm::Data *'): 'under getToken() == Token::DATA',
}


def run(rep, tier):
    idx = cast.load('hexasm.cpp')
    rep.analysed(unit='hexasm.cpp')
    rep.trusted = ['clang 14 AST', 'interval interpreter', 'frozen table DOWNCAST_GUARDS (named functions with reasons)']
    rep.assumptions = ['"all byte strings" is a dynamic quantifier: these clauses are necessary conditions; literals beyond 2^32-1 are truncated by a '
                       'defined unsigned conversion', 'ctype functions are called with plain char arguments (formally UB for bytes >= 0x80, tolerated by '
                       'glibc): not claimed, see DESIGN.md']
    # R1: exception discipline
    rep.rule('R1', 'every exception raised by the assembler derives from std::exception, everything that can raise one in main is inside the try '
             'block whose handlers catch std::exception, and the objects built outside the try cannot throw repository errors', floor=10)
    for fn, where, t in robust.thrown_types(idx, ['hexasm', 'hexutil']):
        rep.add('R1', 'throw:%s:%s' % (fn, t), robust.derives_from_std_exception(idx, t), where + ' ' + fn, 'throws %s' % t, nontrivial=False)
    m = idx.func('main')
    outside = robust.main_containment(idx, m, {'openFile', 'loadBuffer', 'emitTokens', 'parseProgram', 'emitBin', 'emitProgramText', 'CodeGen', 'stoull'})
    ctor_out = []
    for n in walk(m.body):
        pass
    rep.add('R1', 'main:fallible-calls-inside-try', not outside, pos(m.node) + ' main(hexasm.cpp)',
            'outside the try block: %s' % outside if outside else 'openFile/parseProgram/CodeGen/emit* are all inside the try block')
    # CodeGen is constructed (label resolution can throw) inside the try
    cg_out = []

    def visit(n, in_try):
        if n.get('kind') == 'CXXTryStmt':
            visit(children(n)[0], True)
            return
        if n.get('kind') == 'VarDecl' and 'hexasm::CodeGen' in qt(n) and not in_try:
            cg_out.append(pos(n))
        for c in children(n):
            visit(c, in_try)
    visit(m.body, False)
    rep.add('R1', 'main:CodeGen-constructed-inside-try', not cg_out, pos(m.node) + ' main(hexasm.cpp)',
            'hexasm::CodeGen constructed outside the try at %s' % cg_out if cg_out else 'constructed inside the try block', nontrivial=False)
    # R2: unknown labels are diagnosed for both reference kinds; no null dereference
    rep.rule('R2', 'a reference to an undefined label is rejected with hexutil::Error for relative and for absolute references (no null '
             'pointer is dereferenced)', floor=4)
    for mn in ('BR', 'LDAP', 'LDAM', 'LDAC'):
        B = c05.Builder(idx)
        prog = [B.opr('ADD'), B.ref(mn, 'nolabel'), B.label('other')]
        res = None
        try:
            B.layout(prog)
        except Thrown as e:
            res = e.what
        ok = res is not None and c05._is_repo_error(idx, res) and not B.I.null_derefs
        rep.add('R2', 'undefined-label:%s' % mn, ok, pos(idx.func('hexasm::CodeGen::resolveLabels').node) + ' hexasm::CodeGen::resolveLabels',
                ('rejected with %s' % res) if ok else ('null pointer dereferenced at %s' % B.I.null_derefs if B.I.null_derefs else
                                                      'an undefined label is accepted' if res is None else 'fails with %s' % res))
    # R3: the empty program and programs without instructions
    rep.rule('R3', 'degenerate programs (no directive at all, labels only) are laid out and emitted without undefined behaviour', floor=2)
    for name, mk in (('empty', lambda B: []), ('labels-only', lambda B: [B.label('a'), B.label('b')])):
        B = c05.Builder(idx)
        ctor = [c for c in idx.record('hexasm::CodeGen').ctors if not c.node.get('isImplicit') and c.body is not None][0]
        prog = mk(B)
        cg = Obj('hexasm::CodeGen', {'program': Vec(prog), 'programSizeBytes': const(64, False, 0), 'labelMap': {}}, 'CodeGen')
        env = {'this': cg, 'locals': {}}
        for prm in ctor.params:
            env['locals'][prm['id']] = cg.fields['program']
        res = None
        try:
            B.I.stmt(ctor.body, env)
        except Thrown as e:
            res = e.what
        except ivinterp._Return:
            pass
        ub = list(B.I.ub)
        rep.add('R3', name, not ub and res is None, pos(ctor.node) + ' hexasm::CodeGen::CodeGen',
                ('undefined behaviour: %s' % ub) if ub else ('fails with %s' % res if res else 'program size %r' % cg.fields.get('programSizeBytes')))
    # R4: lexer termination
    rep.rule('R4', 'the lexer terminates on every input of the form c EOF EOF ... (every byte c): each loop that consumes characters has an exit '
             'that end of input takes', floor=256)
    probs = dict(robust.lexer_terminates(idx, 'hexasm', range(256)))
    rt = idx.func('hexasm::Lexer::readToken')
    for c in range(256):
        rep.add('R4', 'byte=0x%02X' % c, c not in probs, pos(rt.node) + ' hexasm::Lexer::readToken',
                probs.get(c, 'END_OF_FILE reached'), nontrivial=(c in (0x23, 0x20, 0x0A, 0x2D) or chr(c).isalnum()))
    if tier == 'thorough':
        import itertools
        reps = [0x20, 0x0A, 0x23, 0x7C, 0x22, 0x27, 0x5C, 0x61, 0x30, 0x2D, 0x3A, 0x3C, 0x7E, 0x3D, 0x80, 0xFF]
        pairs = list(itertools.product(reps, repeat=2)) + [(a, b, c) for a in (0x22, 0x27, 0x23, 0x7C) for b in (0x5C, 0x61) for c in (0x5C, 0x22, 0x27, 0x0A)]
        probs = dict(robust.lexer_terminates(idx, 'hexasm', pairs))
        for pr in pairs:
            rep.add('R4', 'bytes=' + ' '.join('%02X' % b for b in pr), pr not in probs, pos(rt.node) + ' hexasm::Lexer::readToken',
                    probs.get(pr, 'END_OF_FILE or a diagnostic is reached'), nontrivial=True)
    # R5: downcasts
    rep.rule('R5', 'every dynamic_cast whose result is dereferenced is null-tested or sits under the token/predicate guard recorded for its function', floor=6)
    robust.rule_downcasts(rep, 'R5', idx, 'hexasm::', DOWNCAST_GUARDS)
    # R8 / R9: imports
    rep.rule('R8', 'no undefined behaviour while sizing/encoding any immediate (import of C04-R1 for one mnemonic over the whole int range)', floor=20)
    emit = idx.func('hexasm::CodeGen::emitProgramBin')
    toks = idx.enum('hexasm::Token')
    classes = []
    try:
        c04.partition(idx, emit, toks['LDAC'], 3, c04.INT_MIN, -1, classes)
        c04.partition(idx, emit, toks['LDAC'], 3, 0, c04.INT_MAX, classes)
    except AnalysisBroken as e:
        rep.undecided('R8', 'LDAC', 'emitter not interpreted: %s' % e, pos(emit.node))     # the other rules still report
    for lo, hi, res, n in classes:
        r1 = [r for r in res if r[0] == 'R1'][0]
        rep.add('R8', 'LDAC:[%d,%d]' % (lo, hi), r1[1], pos(emit.node) + ' hexasm::numNibbles / emitProgramBin', r1[2], nontrivial=False)
    c05.rule_termination(rep, idx, 'R10')
    rep.rule('R11', 'every recursive cycle of the call graph reachable from main() is depth-bounded (a nesting counter checked against a constant '
             'before recursing); an assembler without recursion satisfies it trivially', floor=1, floor_reason='call-graph summary')
    robust.rule_recursion(rep, 'R11', 'hexasm.cpp', tree_base=None, min_reachable=50)
    rep.rule('R9', 'an absolute reference to an unaligned label is rejected (import of C05-R3)', floor=15)
    from .c17 import _SubReport

    class S(_SubReport):
        def add(self, rule, key, ok, where='', detail='', nontrivial=True, data=None):
            if rule == 'R3' and 'label%4=0' not in key:
                return self.rep.add('R9', key, ok, where, detail, nontrivial, data)
            return ok
    c05.rule_absolute(S(rep, 'R9'), idx)
    # R12: nothing is rejected once the output file exists (import of C14-R4, late throws and their re-verified exemptions)
    rep.rule('R12', '"reports a diagnostic and emits nothing": no repository error can be raised after emitBin has opened the output file; the '
             'internal-invariant throws that stay reachable there are shown unreachable by construction-time validation, re-verified on '
             'every run (import of C14-R4)', floor=3)
    from . import c14

    class S12(_SubReport):
        def add(self, rule, key, ok, where='', detail='', nontrivial=True, data=None):
            if rule == 'R4' and (key.startswith('no-reject-after-open') or key.startswith('exemption-holds') or key.startswith('validate-before-emit')):
                return self.rep.add('R12', key, ok, where, detail, nontrivial, data)
            if rule == 'R4' and key.startswith('open-in:') and 'hexasm' in where.split(' ')[0].split('/')[-1]:
                # every place of the assembler that opens an output stream (the designated writers and any other)
                return self.rep.add('R12', key, ok, where, detail, nontrivial, data)
            return ok

        def undecided(self, rule, key, why, where=''):
            if rule == 'R4' and ('hexasm' in where or not key.startswith('open-in:')):
                return self.rep.undecided('R12', key, why, where)
    c14.rule_r4(S12(rep, 'R12'), {tu: cast.load(tu) for tu in c14.MAINS})
    # R13: the name of every token can be produced without undefined behaviour (diagnostics and --tokens print it)
    rep.rule('R13', 'tokenEnumStr is defined for every enumerator of hexasm::Token: it returns a name or throws a std::exception, it never '
             'indexes outside a table (the lexer yields Token::NONE for any stray character, so a diagnostic names it)', floor=30)
    f_str = idx.func('hexasm::tokenEnumStr')
    for name, v in sorted(toks.items(), key=lambda kv: kv[1]):
        I = ivinterp.Interp(idx)
        try:
            r_ = I.invoke(f_str, None, [const(32, True, v)])
            ok, detail = not I.ub, 'returns %r' % (r_,)
        except Thrown as e:
            ok = not I.ub
            detail = ('undefined behaviour: %s' % I.ub) if I.ub else 'throws %s' % e.what
        except NeedSplit as e:
            rep.undecided('R13', 'tokenEnumStr(%s)' % name, 'not concrete: %s' % e, pos(f_str.node))
            continue
        rep.add('R13', 'tokenEnumStr(%s)' % name, ok, pos(f_str.node) + ' hexasm::tokenEnumStr', detail, nontrivial=False)
    # R14: the handlers that print the diagnostic cannot themselves fail
    mainf = [f for f in idx.all_funcs() if f.name == 'main' and f.body is not None and not f.cls][0]

    def bind(env, lex, func):
        for d in walk(func.body):
            if d.get('kind') == 'VarDecl' and 'Lexer' in qt(d):
                env['locals'][d['id']] = lex
    robust.rule_handlers(rep, 'R14', idx, 'hexasm', mainf, bind)
    # R15: no undefined behaviour on the way from the literal to the instruction (import of C04-RA / RB)
    from .. import report as _report
    rep.rule('R15', 'reading a literal involves no undefined behaviour: the lexer value, Parser::parseInteger and parseDirective are defined for '
             'every 32-bit operand in both spellings, including -2147483648 (import of C04-RA and C04-RB)', floor=40)
    imp = _report.Import(rep, 'R15', 'C04')
    for fn in (c04.rule_parse, c04.rule_parse_directive):
        try:
            fn(imp, idx)
        except AnalysisBroken as e:
            rep.undecided('R15', fn.__name__, 'not interpreted: %s' % e, 'hexasm.hpp hexasm::Parser')
    # R16: the listing (--instrs) is produced without undefined behaviour for every directive kind and operand class (import of C17-R1)
    rep.rule('R16', 'hexasm --instrs terminates cleanly too: formatting the listing line of every directive kind -- immediates of small, 128..255, '
             'negative and strongly negative value included -- involves no undefined behaviour such as a <cctype> call on a value outside '
             'unsigned char (import of C17-R1)', floor=8)
    from . import c17
    try:
        c17.run(_report.Import(rep, 'R16', 'C17', only_rules=('R1',)), tier)
    except AnalysisBroken as e:
        rep.undecided('R16', 'listing', 'not interpreted: %s' % e, 'hexasm.hpp hexasm::CodeGen::emitProgramText')
