"""C07 -- compile-time evaluation agrees with run-time evaluation (engines I + Q)."""
import itertools
from .. import cast, ivinterp, xmodel
from ..xmodel import XModel, BINOPS, UNOPS, LOGICAL, x_binop, x_unop, wrap32
from ..ivinterp import IV, Obj, Vec, const, NeedSplit, Thrown
from ..frontend import AnalysisBroken
from ..cast import children, pos, walk, callee_of, qt

D = [-2, -1, 0, 1, 2]          # ordering domain: every order relation and zero test between two operands occurs
DB = [0, 1]                    # truth values


def dom(op, side=None):
    return DB if op in LOGICAL or op == 'NOT' else D


def rule_fold(rep, idx):
    rep.rule('R1', 'fold table: for every binary and unary operator, ConstProp\'s compile-time result equals the X operator\'s meaning '
             'for every ordering / zero-test combination of constant operands (truth values for and, or, ~)', floor=150)
    f = idx.func('xcmp::ConstProp::visitPost', 'BinaryOpExpr')
    rep.analysed(f.sig)
    where = pos(f.node) + ' xcmp::ConstProp::visitPost(BinaryOpExpr&)'
    for op in BINOPS:
        for a, b in itertools.product(dom(op), dom(op)):
            X = XModel(idx)
            node = X.const_prop(X.binop(op, X.num(a), X.num(b)))
            got = node.fields.get('constValue')
            want = x_binop(op, a, b)
            ok = isinstance(got, IV) and got.concrete() and got.lo == want and not X.I.ub
            rep.add('R1', '%s:%d,%d' % (op, a, b), ok, where,
                    'constant (%d %s %d) folds to %r, the X operator gives %d%s' % (a, op, b, got, want, ('; UB %s' % X.I.ub) if X.I.ub else ''),
                    nontrivial=(a != b))
    fu = idx.func('xcmp::ConstProp::visitPost', 'UnaryOpExpr')
    for op in UNOPS:
        for a in dom(op):
            X = XModel(idx)
            node = X.const_prop(X.unop(op, X.num(a)))
            got = node.fields.get('constValue')
            want = x_unop(op, a)
            ok = isinstance(got, IV) and got.concrete() and got.lo == want and not X.I.ub
            rep.add('R1', 'unary %s:%d' % (op, a), ok, pos(fu.node) + ' xcmp::ConstProp::visitPost(UnaryOpExpr&)',
                    'constant %s(%d) folds to %r, the X operator gives %d' % (op, a, got, want))
    # literals
    for v, mk, nm in ((7, 'num', 'number 7'), (0xFFFFFFFF, 'num', 'number #FFFFFFFF'), (1, 'boolean', 'true'), (0, 'boolean', 'false')):
        X = XModel(idx)
        node = X.const_prop(getattr(X, mk)(v))
        got = node.fields.get('constValue')
        want = wrap32(v)
        rep.add('R1', 'literal %s' % nm, isinstance(got, IV) and got.concrete() and got.lo == want, where,
                'literal %s has compile-time value %r, expected %d' % (nm, got, want), nontrivial=False)


def rule_fold_effects(rep, idx, rid='R8'):
    """Folding must not delete an evaluation: X evaluates `and` / `or` left to right and every other operator evaluates both
    operands, so an operator with a non-constant operand may only be folded when that operand is never evaluated."""
    rep.rule(rid, 'folding keeps every evaluation the source performs: an operator with a non-constant operand (a call, whose evaluation may '
             'print, read input or assign globals; a variable) is given a compile-time value only when X never evaluates that operand '
             '(the right operand of `and` after a false, of `or` after a true left operand), and then with the X value', floor=60)
    f = idx.func('xcmp::ConstProp::visitPost', 'BinaryOpExpr')
    where = pos(f.node) + ' xcmp::ConstProp::visitPost(BinaryOpExpr&)'
    for op in BINOPS:
        for c in (0, 1, 2):
            for side in ('left', 'right'):
                for kind in ('call', 'var'):
                    X = XModel(idx)
                    e = X.call('f', [X.num(1)]) if kind == 'call' else X.var('v')
                    k = X.num(c)
                    node = X.binop(op, k, e) if side == 'left' else X.binop(op, e, k)
                    try:
                        X.const_prop(node)
                    except Thrown as t_:
                        rep.add(rid, '%s:const %d on the %s,%s' % (op, c, side, kind), False, where, 'folding fails: %s' % t_.what)
                        continue
                    got = node.fields.get('constValue')
                    key = '%s:const %d on the %s,%s' % (op, c, side, kind)
                    if got is None:
                        rep.add(rid, key, True, where, 'not folded', nontrivial=False)
                        continue
                    if kind == 'var':
                        # reading a variable has no effect: folding is legal iff the value is the same for every value of the variable
                        okv = isinstance(got, IV) and got.concrete() and all(X.meaning(node, {'v': v}) == got.lo for v in D)
                        rep.add(rid, key, okv, where, 'folded to %r, which is the X value for every value of v' % (got,) if okv else
                                '(%s) is folded to %r, but its value depends on v' % (X.show(node), got))
                        continue
                    # folded although an operand is not constant: legal only if X would not evaluate that operand
                    skipped = side == 'left' and ((op == 'AND' and c == 0) or (op == 'OR' and c != 0))
                    want = 0 if op == 'AND' else c
                    ok = skipped and isinstance(got, IV) and got.concrete() and got.lo == want
                    rep.add(rid, key, ok, where,
                            ('folded to %r; X does not evaluate the %s here and the value is %d' % (got, kind, want)) if ok else
                            ('(%s) is folded to %r although the %s operand is evaluated at run time: its effects (output, input, assignments '
                             'in a called function) and its value are lost' % (X.show(node) if kind != 'call' else
                                                                               ('%d %s f(1)' % (c, op) if side == 'left' else 'f(1) %s %d' % (op, c)), got, kind)))


def operand_shapes(X, name):
    """The classes of operands the rewriting code can distinguish: constants (zero / non-zero), variables, strings, calls, operators."""
    return [('var', lambda: X.var(name)), ('const0', lambda: X.num(0)), ('const', lambda: X.num(2)),
            ('op', lambda: X.binop('PLUS', X.var(name), X.var(name + "'")))]


def tree_vars(X, node, acc):
    c = node.cls.split('::')[-1]
    if c == 'VarRefExpr':
        acc.add(node.fields['name'][1])
    for f in ('LHS', 'RHS', 'element'):
        ch = node.fields.get(f)
        if isinstance(ch, Obj):
            tree_vars(X, ch, acc)
    return acc


def equal_meaning(X, a, b, logical_vars=()):
    """Compare two abstract trees on every assignment of their variables from the ordering domain."""
    vs = sorted(tree_vars(X, a, set()) | tree_vars(X, b, set()))
    for vals in itertools.product(*[(DB if v in logical_vars else D) for v in vs]):
        env = dict(zip(vs, vals))
        x, y = X.meaning(a, env), X.meaning(b, env)
        if x != y:
            return False, (env, x, y)
    return True, None


def clone(X, node):
    c = node.cls.split('::')[-1]
    if c == 'NumberExpr':
        n = X.num(node.fields['value'])
    elif c == 'BooleanExpr':
        n = X.boolean(node.fields['value'].lo)
    elif c == 'VarRefExpr':
        n = X.var(node.fields['name'][1])
    elif c == 'BinaryOpExpr':
        n = X.binop(X.rtok[node.fields['op'].lo], clone(X, node.fields['LHS']), clone(X, node.fields['RHS']))
    elif c == 'UnaryOpExpr':
        n = X.unop(X.rtok[node.fields['op'].lo], clone(X, node.fields['element']))
    elif c == 'CallExpr' and isinstance(node.fields.get('name'), tuple) and node.fields['name'][1]:
        a = node.fields.get('args')
        n = X.call(node.fields['name'][1], [clone(X, x) for x in (a.items if isinstance(a, Vec) else [])])
    elif c == 'ArraySubscriptExpr':
        n = X.sub(node.fields['name'][1], clone(X, node.fields['expr']))
    else:
        raise AnalysisBroken('clone ' + c)
    n.fields['constValue'] = node.fields.get('constValue')
    return n


def rule_rewrite(rep, idx):
    rep.rule('R2', 'rewrite identities: for every operator and every distinguishable class of operands (variable, constant zero, constant, '
             'operator sub-tree; for unary operators also ~x, -x and every binary operator below), the expression OptimiseExpr puts in '
             'place of the original has the same X meaning for every ordering / zero-test combination of the leaves', floor=150)
    fb = idx.func('xcmp::OptimiseExpr::visitPost', 'BinaryOpExpr')
    fu = idx.func('xcmp::OptimiseExpr::visitPost', 'UnaryOpExpr')
    rep.analysed(fb.sig)
    rep.analysed(fu.sig)

    def check(key, X, node, where, logical=()):
        orig = clone(X, node)
        opt = X.visitor('xcmp::OptimiseExpr')
        try:
            X.visit_post(opt, node)
        except NeedSplit as e:
            rep.undecided('R2', key, 'rewrite not uniform on this operand class: %s' % e, where)
            return
        except Thrown as e:
            rep.add('R2', key, False, where, 'rewriting %s fails: %s (null dereferences: %s)' % (X.show(orig), e.what, X.I.null_derefs))
            return
        rep_node = opt.fields.get('exprReplacement')
        new = rep_node if isinstance(rep_node, Obj) else node
        try:
            ok, cx = equal_meaning(X, orig, new, logical)
        except (KeyError, AttributeError, TypeError) as e:
            rep.add('R2', key, False, where, 'rewriting %s yields a malformed tree %s (%r)' % (X.show(orig), X.show(new), e))
            return
        rep.add('R2', key, ok, where,
                ('%s is rewritten to %s' % (X.show(orig), X.show(new))) +
                ('' if ok else ': for %s the original means %d, the replacement %d' % (cx[0], cx[1], cx[2])))
    for op in BINOPS:
        for (ln, lmk), (rn, rmk) in itertools.product(operand_shapes(XModel(idx), 'a'), repeat=2):
            X = XModel(idx)
            l = dict(operand_shapes(X, 'a'))[ln]()
            r = dict(operand_shapes(X, 'b'))[rn]()
            node = X.const_prop(X.binop(op, l, r))
            logical = {'a', 'b', "a'", "b'"} if op in LOGICAL else ()
            if op in LOGICAL and ('const' in (ln, rn)):
                continue        # 2 is not a truth value
            if op in LOGICAL and ('op' in (ln, rn)):
                continue        # a + a' is not a truth value
            check('%s:%s,%s' % (op, ln, rn), X, node, pos(fb.node) + ' xcmp::OptimiseExpr::visitPost(BinaryOpExpr&)', logical)
    # unary operators over element shapes
    def elem_shapes(X):
        out = [('var', lambda: X.var('a'), False), ('const0', lambda: X.num(0), False), ('const', lambda: X.num(2), False),
               ('~var', lambda: X.unop('NOT', X.var('a')), True), ('-var', lambda: X.unop('MINUS', X.var('a')), False)]
        for bop in BINOPS:
            out.append(('(a %s b)' % bop, (lambda bop=bop: X.binop(bop, X.var('a'), X.var('b'))), bop in LOGICAL))
            out.append(('~(a %s b)' % bop, (lambda bop=bop: X.unop('NOT', X.binop(bop, X.var('a'), X.var('b')))), bop in LOGICAL))
        return out
    for op in UNOPS:
        for i in range(len(elem_shapes(XModel(idx)))):
            X = XModel(idx)
            name, mk, logical_inner = elem_shapes(X)[i]
            node = X.const_prop(X.unop(op, mk()))
            # and/or results are values of their operands: ~ of them is defined for every operand value, so use the full domain
            check('%s %s' % (op, name), X, node, pos(fu.node) + ' xcmp::OptimiseExpr::visitPost(UnaryOpExpr&)', ())


def eval_trace(X, node, env):
    """(value, sorted list of the calls / array elements evaluated) of an abstract tree under env; `and` / `or` evaluate their right
    operand only when the left one does not decide (X language definition).  env maps variable names, 'call:<name>' and
    'sub:<name>' to values."""
    c = node.cls.split('::')[-1]
    if c == 'CallExpr':
        nm = node.fields['name'][1] if isinstance(node.fields.get('name'), tuple) else '?'
        eff = []
        a = node.fields.get('args')
        for x in (a.items if isinstance(a, Vec) else []):
            eff += eval_trace(X, x, env)[1]
        return env.get('call:' + nm, 1), sorted(eff + ['call ' + nm])
    if c == 'ArraySubscriptExpr':
        nm = node.fields['name'][1] if isinstance(node.fields.get('name'), tuple) else '?'
        iv, eff = eval_trace(X, node.fields['expr'], env)
        return env.get('sub:' + nm, 1), sorted(eff + ['%s[%d]' % (nm, iv)])
    if c == 'BinaryOpExpr':
        op = X.rtok[node.fields['op'].lo]
        a, ea = eval_trace(X, node.fields['LHS'], env)
        if op == 'AND' and a == 0:
            return 0, ea
        if op == 'OR' and a != 0:
            return a, ea
        b, eb = eval_trace(X, node.fields['RHS'], env)
        return x_binop(op, a, b), sorted(ea + eb)
    if c == 'UnaryOpExpr':
        v, e = eval_trace(X, node.fields['element'], env)
        return x_unop(X.rtok[node.fields['op'].lo], v), e
    return X.meaning(node, env), []


def rule_rewrite_evaluations(rep, idx, rid='R10'):
    rep.rule(rid, 'rewriting keeps what is evaluated: for every operator over operands that are variables, calls and array elements, the '
             'expression OptimiseExpr puts in place of the original evaluates the same calls and array elements for every value of '
             'the leaves -- in particular the right operand of `and` / `or` stays unevaluated when the left one decides (an extra '
             'evaluation is a lost short-circuit: a side effect, or a subscript the program guarded)', floor=60)
    fb = idx.func('xcmp::OptimiseExpr::visitPost', 'BinaryOpExpr')
    where = pos(fb.node) + ' xcmp::OptimiseExpr::visitPost(BinaryOpExpr&)'
    kinds = [('var', lambda X, n: X.var(n)), ('call', lambda X, n: X.call('f_' + n, [X.num(1)])), ('sub', lambda X, n: X.sub('arr_' + n, X.var('i')))]
    for op in BINOPS:
        for (ln, lmk), (rn, rmk) in itertools.product(kinds, repeat=2):
            if ln == 'var' and rn == 'var':
                continue
            X = XModel(idx)
            node = X.const_prop(X.binop(op, lmk(X, 'a'), rmk(X, 'b')))
            orig = clone(X, node)
            opt = X.visitor('xcmp::OptimiseExpr')
            key = '%s:%s,%s' % (op, ln, rn)
            try:
                X.visit_post(opt, node)
            except NeedSplit as e:
                rep.undecided(rid, key, 'rewrite not uniform: %s' % e, where)
                continue
            except Thrown as e:
                rep.add(rid, key, False, where, 'rewriting fails: %s' % e.what)
                continue
            r_ = opt.fields.get('exprReplacement')
            new = r_ if isinstance(r_, Obj) else node
            bad = None
            dom = DB if op in LOGICAL else D
            for va, vb in itertools.product(dom, repeat=2):
                env = {'a': va, 'b': vb, 'i': 3, 'call:f_a': va, 'call:f_b': vb, 'sub:arr_a': va, 'sub:arr_b': vb}
                try:
                    v0, e0 = eval_trace(X, orig, env)
                    v1, e1 = eval_trace(X, new, env)
                except (KeyError, AttributeError, TypeError) as e:
                    bad = 'malformed tree after rewriting (%r)' % (e,)
                    break
                if e0 != e1:
                    bad = '%s is rewritten to %s: for left=%d right=%d the original evaluates %s, the replacement %s' % (
                        X.show(orig), X.show(new), va, vb, e0 or 'nothing', e1 or 'nothing')
                    break
            rep.add(rid, key, bad is None, where, bad or '%s -> %s evaluates the same calls and elements' % (X.show(orig), X.show(new)))


def rule_overflow(rep, idx):
    rep.rule('R3', 'wrap-around-safe folding: +, - and unary - on constant operands ranging over all of int raise no signed-overflow '
             'undefined behaviour in the compiler and yield the 32-bit wrapped result', floor=3)
    f = idx.func('xcmp::ConstProp::visitPost', 'BinaryOpExpr')
    full = lambda: IV(32, False, 0, 0xFFFFFFFF)
    for op in ('PLUS', 'MINUS'):
        X = XModel(idx)
        a, b = X.num(full()), X.num(full())
        a.fields['constValue'] = IV(32, True, -(1 << 31), (1 << 31) - 1)
        b.fields['constValue'] = IV(32, True, -(1 << 31), (1 << 31) - 1)
        node = X.binop(op, a, b)
        cp = X.visitor('xcmp::ConstProp', [Obj('xcmp::SymbolTable', {}, 'st')])
        X.visit_post(cp, node)
        ub = [u for u in X.I.ub if u[0].startswith('signed-overflow')]
        rep.add('R3', 'fold %s over all int operands' % op, not ub, pos(f.node) + ' xcmp::ConstProp::visitPost(BinaryOpExpr&)',
                ('signed arithmetic on int operands can overflow (undefined behaviour, e.g. val x = 2147483647 + 1): %s' % ub) if ub else
                'performed without signed overflow')
        # spot values at the wrap boundary must give the wrapped result
        for x, y in ((2147483647, 1), (-2147483648, 1), (-2147483648, -1), (2147483647, 2147483647)):
            X = XModel(idx)
            node = X.const_prop(X.binop(op, X.num(x), X.num(y)))
            got = node.fields.get('constValue')
            want = x_binop(op, x, y)
            rep.add('R3', 'fold %s:%d,%d' % (op, x, y), isinstance(got, IV) and got.concrete() and got.lo == want, pos(f.node),
                    '(%d %s %d) folds to %r, wrapped result is %d' % (x, op, y, got, want))
    # comparisons are folded by comparing, never through a difference: operands that are more than INT_MAX apart
    for op in ('LS', 'LE', 'GR', 'GE', 'EQ', 'NE'):
        for x, y in ((2147483647, -1), (-2147483648, 1), (2147483647, -2147483648), (-2147483648, 2147483647), (-2, 2147483647)):
            X = XModel(idx)
            try:
                node = X.const_prop(X.binop(op, X.num(x), X.num(y)))
            except (NeedSplit, Thrown) as e:
                rep.undecided('R3', 'fold %s:%d,%d' % (op, x, y), 'not interpreted: %s' % e, pos(f.node))
                continue
            got = node.fields.get('constValue')
            if got is None:
                continue          # not folded at all (rewritten instead): nothing to overflow
            want = x_binop(op, x, y)
            ub = [u for u in X.I.ub if u[0].startswith('signed-overflow')]
            ok = not ub and isinstance(got, IV) and got.concrete() and (got.lo != 0) == (want != 0)
            rep.add('R3', 'fold %s:%d,%d' % (op, x, y), ok, pos(f.node) + ' xcmp::ConstProp::visitPost(BinaryOpExpr&)',
                    ('(%d %s %d) is folded through signed arithmetic that overflows (undefined behaviour): %s' % (x, op, y, ub)) if ub else
                    '(%d %s %d) folds to %r, X gives %d' % (x, op, y, got, want), nontrivial=False)
    fu = idx.func('xcmp::ConstProp::visitPost', 'UnaryOpExpr')
    X = XModel(idx)
    a = X.num(full())
    a.fields['constValue'] = IV(32, True, -(1 << 31), (1 << 31) - 1)
    node = X.unop('MINUS', a)
    cp = X.visitor('xcmp::ConstProp', [Obj('xcmp::SymbolTable', {}, 'st')])
    try:
        X.visit_post(cp, node)
    except NeedSplit:
        # the negation of a class containing INT_MIN: decide INT_MIN alone
        X = XModel(idx)
        a = X.num(0x80000000)
        a.fields['constValue'] = const(32, True, -(1 << 31))
        node = X.unop('MINUS', a)
        X.visit_post(X.visitor('xcmp::ConstProp', [Obj('xcmp::SymbolTable', {}, 'st')]), node)
    ub = [u for u in X.I.ub if 'int-min' in u[0] or u[0].startswith('signed-overflow')]
    rep.add('R3', 'fold unary MINUS over all int operands', not ub, pos(fu.node) + ' xcmp::ConstProp::visitPost(UnaryOpExpr&)',
            ('negating INT_MIN is undefined behaviour: %s' % ub) if ub else 'performed without signed overflow')


def rule_val(rep, idx):
    rep.rule('R5', 'a val name is replaced by its value only when the declaration\'s expression is constant (import of the C11 '
             'const-guarded protocol)', floor=1)
    from . import c11
    ok, detail = c11.verify_const_guarded(rep, {'xcmp.cpp': idx}, 'xcmp::ValDecl::exprValue')
    rep.add('R5', 'ValDecl::getValue-guarded', ok, 'xcmp.hpp xcmp::ConstProp', detail)


def rule_val_reference(rep, idx, rid='R14'):
    """Propagation of val names, at the point where it takes effect: the code generated for a reference to a val."""
    rep.rule(rid, 'a reference to a val name is generated as the load of the value constant propagation attached to it -- also when the '
             'expression optimiser has meanwhile replaced the declaration\'s initialiser (a folded ~=, >=, > or <= becomes fresh nodes '
             'that carry no value): ExprCodeGen::visitPost(VarRefExpr&) interpreted on a constant reference whose symbol is the val '
             'declaration as the optimiser leaves it, compared with what genConst emits for that value', floor=6)
    from .c01 import CodeGenModel
    from ..ivinterp import Moved
    f = idx.func('xcmp::CodeBuffer::ExprCodeGen::visitPost', 'VarRefExpr')
    where = pos(f.node) + ' xcmp::CodeBuffer::ExprCodeGen::visitPost(VarRefExpr&)'
    gc = [m for m in idx.record('xcmp::CodeBuffer').methods if m.name == 'genConst' and m.body is not None]
    if not gc:
        rep.undecided(rid, 'genConst', 'xcmp::CodeBuffer::genConst not found', where)
        return
    for op in [None] + list(BINOPS):
        key = 'val r = %s' % ('7' if op is None else '5 %s 3' % op)
        try:
            M = CodeGenModel(idx, 'A')
            X = M.X
            init = X.const_prop(X.num(7) if op is None else X.binop(op, X.num(5), X.num(3)))
            V = init.fields.get('constValue')
            if not (isinstance(V, IV) and V.concrete()):
                rep.undecided(rid, key, 'constant propagation gives the initialiser no concrete value (%r)' % (V,), where)
                continue
            opt = X.visitor('xcmp::OptimiseExpr')
            X.visit_post(opt, init)
            new = opt.fields.get('exprReplacement')
            if isinstance(new, Moved):
                new = new.value
            left = new if isinstance(new, Obj) else init
            decl = M.I.construct('xcmp::ValDecl', [None, ('str', 'r'), left], name='val r')
            X.fix_containers(decl)
            sym = M.symbol('r', 'VAL', 'f')
            sym.fields['node'] = decl
            ref = X.var('r')
            ref.fields['constValue'] = V
            X.visit_post(M.expr_visitor('A'), ref)
            got = [(t, d.fields.get('immValue'), d.fields.get('label')) for t, d in M.instrs()]
            M2 = CodeGenModel(idx, 'A')
            M2.I.invoke(gc[0], M2.cb, [const(32, True, M2.regs['A']), const(32, True, V.lo if V.lo < (1 << 31) else V.lo - (1 << 32))])
            want = [(t, d.fields.get('immValue'), d.fields.get('label')) for t, d in M2.instrs()]
        except Thrown as e:
            rep.add(rid, key, False, where, 'code generation for the reference fails: %s' % e.what)
            continue
        except (NeedSplit, AnalysisBroken, KeyError, AttributeError, TypeError) as e:
            rep.undecided(rid, key, 'not interpreted: %r' % (e,), where)
            continue
        state = 'constant' if left.fields.get('constValue') is not None else 'replaced by nodes without a value (%s)' % X.show(left)
        ok = (repr(got) == repr(want))
        rep.add(rid, key, ok, where, ('initialiser after the optimiser: %s; the reference loads %d as genConst does' % (state, V.lo)) if ok else
                'initialiser after the optimiser: %s; the reference, whose value is %d, generates %s where the constant load is %s: the '
                'program reads a storage location the val never had' % (state, V.lo, [g[0] for g in got], [w[0] for w in want]))


def rule_scoped_propagation(rep, idx, rid='R9'):
    """Names are resolved by scope: a local, formal or procedure may hide a global val of the same name.  Every compile-time value that
    ConstProp attaches to a name reference must therefore come out of SymbolTable::lookup(current scope, name) -- the one place that
    implements the hiding rule -- and not from any other table keyed by the bare name."""
    rep.rule(rid, 'scoping of val propagation: in ConstProp, every value given to a variable reference or used as a system-call number for a '
             'named call is data-dependent on the result of SymbolTable::lookup(make_pair(getCurrentScope(), name)) (backward slice through '
             'the locals of the visitor method)', floor=2)
    rec = idx.record('xcmp::ConstProp')
    n = 0
    for m in rec.methods:
        if m.name != 'visitPost' or m.body is None or not m.params:
            continue
        ptype = qt(m.params[0])
        if not any(t in ptype for t in ('VarRefExpr', 'CallExpr')):
            continue
        inits = {}
        for d in walk(m.body):
            if d['kind'] == 'VarDecl' and children(d):
                inits[d['id']] = children(d)[-1]
        for c in cast.calls_in(m.body):
            kind, name, did, obj = callee_of(c)
            if name not in ('setValue', 'setSysCallId'):
                continue
            args = cast.call_args(c)
            if not args:
                continue
            # backward slice of the argument through local initialisers
            seen, todo, hit, foreign = set(), [args[0]], False, []
            while todo:
                e = todo.pop()
                for x in walk(e):
                    if x['kind'] in ('CXXMemberCallExpr', 'CallExpr'):
                        k2, n2, d2, o2 = callee_of(x)
                        if n2 == 'lookup' and any(callee_of(y)[1] == 'getCurrentScope' for y in cast.calls_in(x)):
                            hit = True
                        elif n2 in ('find', 'at', 'count') or (x['kind'] == 'CXXMemberCallExpr' and n2 == 'lookup'):
                            foreign.append('%s at %s' % (n2, pos(x)))
                        else:
                            # a helper of the visitor itself: its return expressions belong to the slice
                            g = idx.func_by_id.get(d2) if d2 else None
                            g = g.defn if (g is not None and g.body is None and getattr(g, 'defn', None)) else g
                            if g is not None and g.body is not None and g.cls == 'xcmp::ConstProp' and g.id not in seen:
                                seen.add(g.id)
                                for dd in walk(g.body):
                                    if dd['kind'] == 'VarDecl' and children(dd):
                                        inits[dd['id']] = children(dd)[-1]
                                for r_ in walk(g.body):
                                    if r_['kind'] == 'ReturnStmt' and children(r_):
                                        todo.append(children(r_)[0])
                    if x['kind'] == 'CXXOperatorCallExpr' and callee_of(x)[1] == 'operator[]':
                        foreign.append('operator[] at %s' % pos(x))
                    if x['kind'] == 'DeclRefExpr':
                        r = (x.get('referencedDecl') or {})
                        if r.get('kind') == 'VarDecl' and r.get('id') in inits and r['id'] not in seen:
                            seen.add(r['id'])
                            todo.append(inits[r['id']])
            n += 1
            key = 'ConstProp::visitPost(%s):%s' % (ptype.replace('xcmp::', '').replace(' &', ''), name)
            # a value that is not derived from any table (a literal, the node's own value) is not a propagation
            derived = hit or foreign
            ok = (hit and not foreign) or not derived
            rep.add(rid, key + ('@%s' % pos(c).split(':')[-1]), ok, pos(c) + ' xcmp::ConstProp::visitPost',
                    'value derives from SymbolTable::lookup(getCurrentScope(), name)' if hit and not foreign else
                    'value of the node itself (no table involved)' if not derived else
                    'the propagated value comes from %s, not (only) from the scoped symbol-table lookup: a local, formal or procedure that hides a '
                    'global val of the same name is replaced by the global\'s constant' % ', '.join(foreign), nontrivial=derived)
    if n == 0:
        raise AnalysisBroken('ConstProp no longer propagates values through setValue / setSysCallId: anchors changed')


def rule_genconst(rep, idx):
    rep.rule('R6', 'constant materialisation: CodeBuffer::genConst loads exactly the requested value into exactly the requested register, '
             'as an immediate inside (-65536, 65536) and through one constant-pool word per distinct value outside', floor=10)
    f = idx.func('xcmp::CodeBuffer::genConst')
    rep.analysed(f.sig)
    atok = idx.enum('hexasm::Token')
    regs = idx.enum('xcmp::Reg')
    where = pos(f.node) + ' xcmp::CodeBuffer::genConst'
    cases = [('imm', IV(32, True, -65535, 65535, None, None, ({'V': 1}, 0))), ('pool', const(32, True, 65536)),
             ('pool', const(32, True, -65536)), ('pool', const(32, True, 2147483647)), ('pool', const(32, True, -2147483648))]
    for rn, rv in sorted(regs.items()):
        for kind, val in cases:
            X = XModel(idx, _map_hooks)
            cb = X.I.construct('xcmp::CodeBuffer', [Obj('xcmp::SymbolTable', {}, 'st')])
            X.fix_containers(cb)
            key = 'reg %s:%s %r' % (rn, kind, val)
            try:
                X.I.invoke(f, cb, [const(32, True, rv), val])
                if kind == 'pool':
                    X.I.invoke(f, cb, [const(32, True, rv), val])    # a second request must reuse the pool word
            except NeedSplit as e:
                rep.undecided('R6', key, 'not uniform: %s' % e, where)
                continue
            ins = cb.fields['instrs'].items
            data = cb.fields['data'].items
            problems = []
            want_tok = {('A', 'imm'): 'LDAC', ('B', 'imm'): 'LDBC', ('A', 'pool'): 'LDAM', ('B', 'pool'): 'LDBM'}[(rn, kind)]
            n_expect = 1 if kind == 'imm' else 2
            if len(ins) != n_expect:
                problems.append('%d instructions generated' % len(ins))
            for i_ in ins:
                tk = [k for k, v in atok.items() if v == i_.fields['token'].lo][0]
                if tk != want_tok:
                    problems.append('generates %s, expected %s' % (tk, want_tok))
                if kind == 'imm':
                    iv = i_.fields.get('immValue')
                    if not (isinstance(iv, IV) and iv.aff is not None and iv.aff == ({'V': 1}, 0)):
                        problems.append('immediate operand is %r, not the requested value' % (iv,))
            if kind == 'pool':
                words = [d for d in data if d.cls == 'hexasm::Data']
                labels = [d for d in data if d.cls == 'hexasm::Label']
                if len(words) != 1 or len(labels) != 1:
                    problems.append('%d pool words / %d labels for two requests of one value' % (len(words), len(labels)))
                else:
                    dv = words[0].fields['value']
                    if not (isinstance(dv, IV) and dv.concrete() and dv.lo == val.lo):
                        problems.append('pool word holds %r' % (dv,))
                    if data.index(labels[0]) + 1 != data.index(words[0]):
                        problems.append('pool label does not directly precede its word')
                    for i_ in ins:
                        if i_.fields.get('label') != labels[0].fields.get('label'):
                            problems.append('instruction refers to %r, pool label is %r' % (i_.fields.get('label'), labels[0].fields.get('label')))
                        if i_.fields.get('relative') is not None and i_.fields['relative'].lo != 0:
                            problems.append('pool reference is pc-relative')
            rep.add('R6', key, not problems, where, '; '.join(problems) if problems else 'ok (%s)' % want_tok)


def _map_hooks(I, n, kind, name, did, obj, args, env):
    """std::map<int, std::string> constMap: operator[] creates entries; .assign stores."""
    if kind == 'method' and name == 'assign' and obj is not None:
        o = cast.strip_noncast(obj)
        if o['kind'] == 'CXXOperatorCallExpr' and callee_of(o)[1] == 'operator[]':
            oa = cast.call_args(o)
            m = I.expr(oa[0], env)
            k = I.expr(oa[1], env)
            if isinstance(m, dict) and isinstance(k, IV) and k.concrete():
                m[k.lo] = I.expr(args[0], env)
                return None
    if n['kind'] == 'CXXOperatorCallExpr' and name == 'operator[]' and args:
        m = I.expr(args[0], env)
        if isinstance(m, dict):
            k = I.expr(args[1], env)
            if isinstance(k, IV) and k.concrete():
                return m.get(k.lo)
    if kind == 'method' and name == 'count' and obj is not None:
        m = I.expr(obj, env)
        if isinstance(m, dict):
            k = I.expr(args[0], env)
            if isinstance(k, IV) and k.concrete():
                return const(64, False, 1 if k.lo in m else 0)
    if kind == 'method' and name == 'str' and obj is not None:
        return I.expr(obj, env)
    return NotImplemented


def run(rep, tier):
    idx = cast.load('xcmp.cpp')
    rep.analysed(unit='xcmp.cpp')
    rep.trusted = ['clang 14 AST', 'interval interpreter with abstract AST objects built by the real constructors (hexsa/xmodel.py)',
                   'X operator table (xhexnotes.pdf): comparison operators only inspect the order of their operands, so the ordering domain '
                   '{-2..2} is an exact abstraction for them']
    rep.assumptions = ['and/or/~ are applied to truth values (property quantifier)',
                       'agreement with the *run-time code sequence* where a subtraction in < wraps is not decided (documented gap)']
    rule_fold(rep, idx)
    rule_fold_effects(rep, idx)
    rule_rewrite(rep, idx)
    rule_rewrite_evaluations(rep, idx)
    rule_overflow(rep, idx)
    from . import c01
    c01.rule_register_discipline(rep, idx, 'R4')
    rule_val(rep, idx)
    rule_val_reference(rep, idx)
    rule_scoped_propagation(rep, idx)
    rule_genconst(rep, idx)
    # R7: constants inside a larger, non-constant expression (import of the template execution of C01-R11 for the shapes with a constant)

    class _OnlyConstShapes(c01._Rename):
        def rule(self, rid, text, floor=0, floor_reason=''):
            if rid == 'R11':
                self.rep.rule('R7', 'a constant inside a larger non-constant expression: executing the instruction template generated for every '
                              'operator over operands of the shapes  c, x+c, x-c, c-x  leaves the X meaning in areg for every value of x in the '
                              'ordering domain (import of C01-R11 restricted to shapes that contain a constant)', floor=50)

        def add(self, rule, key, ok, where='', detail='', nontrivial=True, data=None):
            if rule == 'R11' and any(k in key for k in ('num', 'subc', 'addc', 'csub')):
                return self.rep.add('R7', key, ok, where, detail, nontrivial, data)
            return ok

        def undecided(self, rule, key, why, where=''):
            if rule == 'R11' and any(k in key for k in ('num', 'subc', 'addc', 'csub')):
                return self.rep.undecided('R7', key, why, where)
    c01.rule_templates(_OnlyConstShapes(rep, {}), idx)
    # R11: constants as actual parameters (import of C01-R14 for the actual lists that contain a constant)
    from .. import report as _report
    rep.rule('R11', 'a constant actual parameter reaches its slot with its value also when the same constant, calls and variables surround it '
             '(import of the call-template rule C01-R14 for actual lists containing constants)', floor=20)
    c01.rule_call_registers(_report.Import(rep, 'R11', 'C01', key_filter=lambda r, k: any(t in k for t in ('num', '(k', ',k'))), idx)
    # R12: constant (folded) subscripts take the same route to the element as variable ones (import of C01-R16, constant index shapes)
    rep.rule('R12', 'an array element addressed with a constant subscript is read and written like one addressed with a variable: the '
             'element template for  arr[c]  and  arr[x+c]  reaches mem[base + c] with the value of any right-hand side (variable, sum, '
             'negation, comparison) -- import of the subscript templates C01-R16 for the index shapes that contain a constant', floor=8)
    c01.rule_subscripts(_report.Import(rep, 'R12', 'C01', key_filter=lambda r, k: any(t in k for t in ('arr[c', 'arr[x+c', 'arr[x-c'))), idx)
    # R13: a constant (folded) condition selects the branch the run-time test would select (import of C01-R12, constant conditions)
    rep.rule('R13', 'if statements whose condition is or contains a constant (2, 0, -1, 2 or a, ~(2 and a), ~(a = 2)) execute the branch that X '
             'evaluation selects: any non-zero constant is true, as BRZ decides at run time (import of the if-templates C01-R12)', floor=10)
    c01.rule_templates(_report.Import(rep, 'R13', 'C01', only_rules=('R12',), key_filter=lambda r, k: k.startswith('if ') and any(
        t in k for t in ('if 2 ', 'if 0 ', 'if -1 ', '2 or a', '2 and a', 'a = 2'))), idx)
