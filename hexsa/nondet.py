"""Scanner for sources of run-to-run nondeterminism and for state carried between runs (C11-R2/R3, C12-R3)."""
import os, re
from . import cast, frontend as fe
from .cast import walk, children, qt, dqt, pos, callee_of

CALLS = {'rand', 'srand', 'random', 'rand_r', 'drand48', 'time', 'clock', 'getenv', 'secure_getenv', 'now', 'gettimeofday',
         'clock_gettime', 'getpid', 'tmpnam', 'mkstemp', 'localtime', 'gmtime',
         # unsynchronised standard streams read ahead: how much of a shared stdin the run consumes is no longer a function of the program
         'sync_with_stdio'}
TYPES = ('unordered_map', 'unordered_set', 'unordered_multimap', 'unordered_multiset', 'random_device', 'mt19937',
         'default_random_engine', 'std::hash<')
PTR_KEY = re.compile(r'std::(map|set|multimap|multiset)<\s*(const\s+)?[\w:]+(\s+const)?\s*\*')


def scan_function(f):
    """Yield (pattern, position, text) for one function."""
    if f.body is None:
        return
    nodes = [f.body] + list(f.inits)
    for root in nodes:
        for n in walk(root):
            k = n['kind']
            t = qt(n) + ' ' + dqt(n)
            if k in ('VarDecl', 'CXXConstructExpr', 'CXXTemporaryObjectExpr', 'DeclRefExpr', 'CXXFunctionalCastExpr'):
                for pat in TYPES:
                    if pat in t:
                        yield ('type:' + pat.rstrip('<'), pos(n), t[:80])
                        break
                if k == 'VarDecl' and PTR_KEY.search(t):
                    yield ('pointer-keyed-container', pos(n), t[:80])
            if k == 'VarDecl' and n.get('storageClass') == 'static' and not n.get('constexpr') and not qt(n).startswith('const ') and \
                    'const' not in qt(n).split('*')[-1]:
                yield ('function-static', pos(n), n.get('name', ''))
            if k in ('CallExpr', 'CXXMemberCallExpr'):
                kind, name, did, obj = callee_of(n)
                if name in CALLS and not (kind == 'method' and name in ('time', 'clock', 'now') and obj is not None and 'chrono' not in dqt(obj)
                                          and 'clock' not in dqt(obj)):
                    yield ('call:' + name, pos(n), name)
            if k in ('CXXReinterpretCastExpr', 'CStyleCastExpr', 'ImplicitCastExpr', 'CXXStaticCastExpr', 'CXXFunctionalCastExpr') \
                    and n.get('castKind') == 'PointerToIntegral':
                yield ('pointer-to-integer', pos(n), t[:60])
            if k == 'CXXOperatorCallExpr':
                kind, name, did, obj = callee_of(n)
                if name == 'operator<<':
                    args = cast.call_args(n)
                    if len(args) == 2:
                        at = dqt(args[1]) or qt(args[1])
                        if at.endswith('*') and 'char' not in at:
                            yield ('stream-pointer', pos(n), at[:60])
            if (k in ('CXXConstructExpr', 'CXXTemporaryObjectExpr', 'CXXFunctionalCastExpr') and 'std::locale' in t) or \
                    (k == 'CallExpr' and callee_of(n)[1] == 'setlocale'):
                # std::locale("") / setlocale(cat, ""): the user's preferred locale, i.e. LANG / LC_* of the environment
                if any(x.get('kind') == 'StringLiteral' and x.get('value') == '""' for x in walk(n)):
                    yield ('environment-locale', pos(n), t[:60] or 'setlocale')
            if k == 'CXXNewExpr' and n.get('isArray') and not n.get('initStyle') and not any(
                    c.get('kind') in ('InitListExpr', 'ImplicitValueInitExpr', 'CXXConstructExpr') for c in children(n)):
                # new T[n] without an initialiser: the bytes are whatever the heap held
                yield ('uninitialised-buffer', pos(n), t[:60])
            if k == 'CallExpr' and callee_of(n)[1] in ('malloc', 'alloca', 'make_unique_for_overwrite', 'make_shared_for_overwrite'):
                yield ('uninitialised-buffer', pos(n), callee_of(n)[1])
            if k == 'CXXMemberCallExpr':
                kind, name, did, obj = callee_of(n)
                if name == 'operator<<' and cast.call_args(n):
                    at = dqt(cast.call_args(n)[0])
                    if at.endswith('*') and 'char' not in at:
                        yield ('stream-pointer', pos(n), at[:60])


def scan_errno(f):
    """errno is process-wide state that outlives a compilation: reading it is only meaningful after the same function has reset it
    before the library call (otherwise an ERANGE left by anything processed earlier changes the verdict on this input)."""
    if f.body is None:
        return
    parents = {}
    for n in walk(f.body):
        for c in children(n):
            parents[id(c)] = n
    seen_reset = False
    for n in walk(f.body):
        if n['kind'] == 'CallExpr' and callee_of(n)[1] == '__errno_location':
            # `errno = 0` : the deref of the call is the left operand of an assignment
            x, write = n, False
            for _ in range(4):
                p_ = parents.get(id(x))
                if p_ is None:
                    break
                if p_['kind'] == 'BinaryOperator' and p_.get('opcode') == '=' and children(p_)[0] is x:
                    write = True
                    break
                if p_['kind'] not in ('UnaryOperator', 'ParenExpr', 'ImplicitCastExpr'):
                    break
                x = p_
            if write:
                seen_reset = True
            elif not seen_reset:
                yield ('errno-read-without-reset', pos(n), 'errno')
                return


def scan_globals(idx, namespaces):
    for qn, v in sorted(idx.vars.items()):
        if namespaces and not any(qn.startswith(ns + '::') or qn == ns for ns in namespaces):
            continue
        t = qt(v)
        if 'const' in t or 'constexpr' in (v.get('constexpr') and 'constexpr' or ''):
            continue
        yield ('mutable-global', pos(v), qn + ' : ' + t)


def scan(idx, namespaces=None, funcs=None):
    out = []
    for f in idx.all_funcs():
        if f.node.get('isImplicit'):
            continue
        if namespaces is not None and not any(f.qname.startswith(ns + '::') for ns in namespaces) and not (funcs and f.qname in funcs):
            continue
        for hit in scan_function(f):
            out.append((f.qname,) + hit)
        for hit in scan_errno(f):
            out.append((f.qname,) + hit)
    out += [('(namespace scope)',) + h for h in scan_globals(idx, namespaces)]
    return out


FIXTURE = os.path.join(os.path.dirname(os.path.abspath(__file__)), 'fixtures', 'nondet.cpp')
EXPECT_FIXTURE = {'type:unordered_map', 'type:unordered_set', 'pointer-keyed-container', 'pointer-to-integer', 'stream-pointer',
                  'call:getenv', 'call:rand', 'type:random_device', 'call:time', 'call:now', 'type:std::hash', 'call:clock',
                  'function-static', 'mutable-global', 'uninitialised-buffer', 'errno-read-without-reset', 'environment-locale', 'call:sync_with_stdio'}


def fixture_patterns():
    """Patterns found in the positive-control fixture (must cover EXPECT_FIXTURE)."""
    import subprocess, tempfile
    cmd = [fe.CLANG, '-std=c++17', '-w', '-fsyntax-only', '-fplugin=' + fe.plugin_path(), '-Xclang', '-plugin', '-Xclang', 'dumprepo',
           '-Xclang', '-plugin-arg-dumprepo', '-Xclang', os.path.dirname(FIXTURE) + '/', FIXTURE]
    r = subprocess.run(cmd, stdout=subprocess.PIPE, stderr=subprocess.PIPE, text=True)
    if r.returncode != 0:
        raise fe.AnalysisBroken('cannot analyse the nondeterminism fixture: ' + r.stderr[-1500:])
    objs = fe._split_json(r.stdout)
    for o in objs:
        fe._annotate(o, fe._Pos())
    idx = cast.Index(objs)
    return {h[1] for h in scan(idx, ['fixture'])}
